"""
C09 - scene-graph transforms are the product of the *current* edges along the path.

Monitor shape: history + executable reference model.  A history of API calls is executed on a
real `SceneGraph` and, step by step, on the dict forest of `vmon/oracle/forest.py`.  At every
position the real graph is observed completely (`get` over all ordered pairs, `graph[node]`,
`to_flattened`, `nodes`, `nodes_geometry`, `geometry_nodes`, `in`, `to_edgelist` and a graph
rebuilt with `from_edgelist`) and compared with the model; the laws of the statement
(T(a,a)=I, T(a,c)=T(a,b).T(b,c), T(a,b)=T(b,a)^-1) are checked on the real answers alone.

* enumerated part: every history of length <= 3 over a fixed alphabet of 27 operations
  (mutators and explicit queries); a second alphabet (`load_alphabet`) whose histories load
  edge lists INTO THE GRAPH AS IT IS - populated, queried, caches warm - with `from_edgelist` /
  `load` (a batch of updates: changed matrices, changed parents, restore of a saved state).  The full observation runs on the real object after the
  last operation; earlier positions are the last position of the (also enumerated) prefixes.
* sampled part: random histories (length 4..8 quick, 4..12 thorough) over <= 6 frame names;
  after every operation the full observation runs on a `copy.deepcopy` of the real graph
  (which keeps `_hash`, the path cache and `SceneGraph._cache` exactly as they are), so
  observing never perturbs the caches the history itself has built up.

icontract class invariants on `EnforcedForest` are evaluated before/after every public call:
`(p,c) in edge_data <=> parents[c] == p` and `memoised _hash == recomputed hash`.

Round 4 classes (each history can be executed under them, see run_history): frame NAMES other than
strings - integers / tuples several of which have the same builtin hash, names of different type with
the same text; a graph built with `repair_rigid=None` (no repair window: every answer is the plain
product, also on its copies); edges that are exact similarities with an intended scale next to one
(inside the window in which get() repairs an answer; the answers must still agree with each other),
incl. a chain of 64 of them; updates that name an ancestor of the parent frame - or the frame itself -
as the child (refused, or resolved into a forest which the model adopts; never a loop).

Round 5 classes: an edge set again and again to a matrix CLOSE TO THE ONE IT HOLDS (`assign_alphabet`: graph[a] = M /
update with the translation moved by 5e-6 of itself or the frame turned by 2e-6 rad, a frame 1e6 units out below it,
judged by the ordinary sweeps; `jog`: the edge base->arm stepped through one route - graph[arm] = M, update by matrix
with / without frame_from, update by axis+angle+translation, an edge list loaded into the graph,
scene.camera_transform = M - in steps of 1e-6 .. 1e-4 of a far translation, turns of 1e-9 .. 3e-6 rad with a long lever,
moves inside a scene modelled in units of 1e-9, and ordinary steps; every dependent answer is read after the step and
may differ from the numpy product of the matrices last set by a tenth of what the step changed in it).

What the statement leaves open is not judged: the matrix of an existing edge after an update
that carries no transform keyword (kept or reset to identity: the model adopts whichever the
graph did), whether `to_flattened` raises or skips when some frame is not connected to the
base frame, the value of T(z,z) for a frame z that does not exist, frames without any edge
(they cannot be represented in an edge list), the order of any listing.
"""

from __future__ import annotations

import copy
import itertools

import numpy as np

from vmon.oracle.forest import _NO, Disconnected, Forest, kwargs_matrix

PROP = "C09"
LEVEL = "exploration"
RULE = (
    "histories of SceneGraph operations (update by matrix / quaternion / axis+angle / translation / "
    "combinations / geometry only, re-parent, transforms.remove_node, remove_geometries, base-frame "
    "change, __setitem__, clear, copy, from_edgelist / load of an edge list into the existing and already "
    "queried graph, snapshot + restore, explicit queries incl. queries for absent frames) over <= 6 "
    "frame names; every history of length <= 3 over a 27-operation alphabet and over a 10-operation "
    "edge-list-loading alphabet (also from three initial forests, caches warm or cold) is enumerated, longer ones "
    "(to 8 quick / 12 thorough) are sampled; round 4: a 9-operation alphabet under three further classes of frame "
    "names (integers / tuples with equal builtin hash, different types with the same text), a 10-operation alphabet "
    "of updates that would close a loop (edge given the other way round, re-parent below an own descendant, self "
    "edge), a 7-operation alphabet of edges with an intended scale next to one on graphs built with the default "
    "repair_rigid and with repair_rigid=None, all from warm initial forests, plus chains of 64 edges; sampled "
    "histories draw the name class, the repair_rigid option and whether loop-closing updates are executed; "
    "round 5: a 9-operation alphabet of assignments graph[a] = M / updates whose matrix is close to the stored one "
    "(relative 5e-6 on a far translation, a 2e-6 rad turn; a frame 1e6 units out below), and jogs: the edge base->arm "
    "stepped 3..6 times through one of 6 routes (graph[arm] = M, update matrix, update matrix with frame_from, update "
    "axis+angle+translation, from_edgelist into the graph, scene.camera_transform) x 4 classes of step (far translation "
    "moved by 1e-6..1e-4 of itself, turn of 1e-9..3e-6 rad with a lever of 1e4..1e7, scene in units of 1e-9, ordinary), "
    "2 fixed plans per route x class plus sampled ones, each dependent answer judged at a tenth of the step; "
    "a full observation (all ordered pairs, listings, edge-list "
    "rebuild) follows every operation. A case is one history; distinct = distinct operation sequence "
    "(names, kwargs kinds and matrix classes); non-trivial = at least one operation changed the "
    "reference forest (histories made of queries / no-ops only are counted as trivial)."
)
ANCHORS = [
    "trimesh/scene/transforms.py:SceneGraph.get",
    "trimesh/scene/transforms.py:SceneGraph.update",
    "trimesh/scene/transforms.py:SceneGraph.remove_geometries",
    "trimesh/scene/transforms.py:SceneGraph.to_flattened",
    "trimesh/scene/transforms.py:SceneGraph.to_edgelist",
    "trimesh/scene/transforms.py:SceneGraph.from_edgelist",
    "trimesh/scene/transforms.py:SceneGraph.copy",
    "trimesh/scene/transforms.py:SceneGraph.clear",
    "trimesh/scene/transforms.py:SceneGraph.__setitem__",
    "trimesh/scene/transforms.py:EnforcedForest.add_edge",
    "trimesh/scene/transforms.py:EnforcedForest.remove_node",
    "trimesh/scene/transforms.py:EnforcedForest.shortest_path",
    "trimesh/scene/transforms.py:EnforcedForest.__hash__",
    "trimesh/scene/transforms.py:kwargs_to_matrix",
    "trimesh/transformations.py:fix_rigid",
    "trimesh/transformations.py:quaternion_matrix",
    "trimesh/transformations.py:rotation_matrix",
]
SHARDS = {"quick": 1, "thorough": 8}
BUDGET = {"quick": 75, "thorough": 300}
MIN_EVENTS = {"quick": 3000, "thorough": 12000}
ASSUMPTIONS = [
    "copy.deepcopy(SceneGraph) preserves the state of every cache (checked: cached entries and the "
    "cache id are carried over), so observing a deep copy equals observing the graph itself",
    "update() keyword rules as documented in kwargs_to_matrix: matrix wins; translation adds to a "
    "quaternion or axis+angle rotation; no transform keyword on a NEW edge denotes identity",
    "remove_node(u) deletes u and its incident edges; children of u become roots",
    "from_edgelist(edges) / load(edges) on an existing graph mean update(child, parent, **attr) for every "
    "edge in order ('load transform data from an edge list into the current scene graph')",
    "an exception of type ValueError/KeyError is the accepted way to refuse a disconnected pair",
    "an update that would close a loop may be refused with ValueError or resolved into any forest (adopted from "
    "the raw parents / edge records); demanded of an accepted one: get(frame_to, frame_from) answers the matrix "
    "asked for and the three laws hold on the real answers",
    "on a graph with the default repair_rigid each single answer may lie up to 1e-5 from the product of the edges "
    "(documented repair; the loss of an intended near-unit scale on a single edge is C04's finding); on a graph "
    "built with repair_rigid=None it may not",
]
EXHAUSTIVE = {"quick": False, "thorough": False}

TOL = 1e-7  # the code drops matrices within 1e-8 of identity and ignores updates within 1e-8
ABSENT = "z"
_I = np.eye(4)

# context shared with the contract conditions (which only receive `self`)
CTX = {"op": None, "run": None, "case": None}
CONTRACT = {"edges_match_parents": 0, "hash_memo_fresh": 0}


# ----------------------------------------------------------------------------
# matrices


def _rigid(axis, angle, t):
    from vmon.oracle.forest import axis_angle_to_matrix

    M = axis_angle_to_matrix(axis, angle)
    M[:3, 3] = t
    return M


def _unit(v):
    v = np.asarray(v, dtype=np.float64)
    return v / np.linalg.norm(v)


def fixed_matrices():
    M1 = _rigid([0, 0, 1], np.pi / 2, [1, 2, 3])
    M2 = _rigid([1, 0, 0], 0.7, [-2, 0.5, 1])
    M2[:3, :3] *= 2.0  # similarity
    M3 = _rigid(_unit([1, 1, 0]), -1.1, [0, -3, 2])
    M4 = _rigid(_unit([1, 2, 3]), 2.0, [4, 0, -1])
    M5 = _rigid([0, 1, 0], 0.4, [0.5, 0.5, -2])
    M5[:3, :3] *= 0.8
    return M1, M2, M3, M4, M5


SCALES = (0.5, 2.0, 0.8, 1.25, 10.0, 0.1, 1.001)


def random_kwargs(rng):
    """(class tag, kwargs) for an update; matrices are exact identity or far from it."""
    r = int(rng.integers(0, 16))
    q = rng.normal(size=4)
    q /= np.linalg.norm(q)
    axis = _unit(rng.normal(size=3))
    angle = float(rng.uniform(-3.0, 3.0))
    if abs(angle) < 0.05:
        angle = 0.5
    t = [float(v) for v in np.round(rng.uniform(-5, 5, size=3), 3)]
    if r == 0:
        return "matrix_rigid", {"matrix": _rigid(axis, angle, t)}
    if r == 1:
        M = _rigid(axis, angle, t)
        M[:3, :3] *= SCALES[int(rng.integers(len(SCALES)))]
        return "matrix_similarity", {"matrix": M}
    if r == 2:
        return "quaternion", {"quaternion": q}
    if r == 3:
        return "axis_angle", {"axis": axis, "angle": angle}
    if r == 4:
        return "translation", {"translation": t}
    if r == 5:
        return "quaternion+translation", {"quaternion": q, "translation": t}
    if r == 6:
        return "axis_angle+translation", {"axis": axis, "angle": angle, "translation": t}
    if r == 7:
        return "matrix+quaternion", {"matrix": _rigid(axis, angle, t), "quaternion": q}
    if r == 8:
        return "matrix+translation", {"matrix": _rigid(axis, angle, t), "translation": [1.0, 1.0, 1.0]}
    if r == 9:
        return "matrix_identity", {"matrix": np.eye(4)}
    if r == 10:
        # 100x above the 1e-8 shortcuts of the code, 10x above the tolerance: must stay visible
        M = np.eye(4)
        M[int(rng.integers(3)), 3] = 1e-6 * float(rng.integers(1, 5))
        return "matrix_near_identity_kept", {"matrix": M}
    if r == 11:
        M = _rigid(axis, angle, t)
        k = int(rng.integers(3))
        M[:3, k] *= -1.0  # mirror
        return "matrix_mirror", {"matrix": M}
    if r in (13, 14):
        # single-precision accuracy (float32 buffers, text formats): orthonormal to ~1e-7 only, which
        # is inside the band where get() repairs matrices (1e-13 < deviation < 1e-5)
        M = _rigid(axis, angle, t)
        if r == 14:
            M[:3, int(rng.integers(3))] *= -1.0
        return ("matrix_rigid_f32" if r == 13 else "matrix_mirror_f32"), {"matrix": as_f32(M)}
    if r == 15:
        # an INTENDED scale next to one (thermal / calibration correction, ppm scale factor of a map
        # projection): exact in double precision, 100x above every 1e-8 shortcut of the code, and inside
        # the window in which get() "repairs" an answer (1e-13 < |M.M^T - I| < 1e-5)
        e = NEAR_UNIT[int(rng.integers(len(NEAR_UNIT)))]
        return "matrix_near_unit_similarity", {"matrix": near_unit(_rigid(axis, angle, t), e)}
    M = _rigid(axis, angle, t)
    M[:3, :3] = M[:3, :3] @ np.diag(rng.choice([0.5, 2.0, 1.25, 3.0], size=3))
    return "matrix_aniso", {"matrix": M}


def as_f32(M):
    return np.asarray(M, dtype=np.float32).astype(np.float64)


NEAR_UNIT = (4e-6, 2e-6, -4e-6)


def near_unit(M, e):
    """M with its linear part scaled by 1 + e."""
    M = np.array(M, dtype=np.float64)
    M[:3, :3] *= 1.0 + e
    return M


def band_kind(M):
    """
    None: the linear part of M is outside the window in which get() repairs an answer (or exactly
    orthonormal); 'similarity': inside it and an exact uniform scale of a rotation (M.M^T is a multiple
    of I to rounding: a scale somebody asked for); 'noise': inside it and not of that form
    (single-precision rounding, accumulated error: what the repair is documented for).
    """
    L = np.asarray(M, dtype=np.float64)[:3, :3]
    G = L @ L.T
    dev = float(np.abs(G - np.eye(3)).max())
    if not (1e-9 < dev < 1e-4):
        return None
    s2 = float(np.trace(G)) / 3.0
    return "similarity" if float(np.abs(G / s2 - np.eye(3)).max()) < 1e-12 else "noise"


def _jsonable_kw(kw):
    out = {}
    for k, v in kw.items():
        out[k] = np.asarray(v, dtype=np.float64).tolist() if k in ("matrix", "quaternion", "axis", "translation") else v
    return out


def _kw_from_json(kw):
    out = {}
    for k, v in kw.items():
        out[k] = np.array(v, dtype=np.float64) if k in ("matrix", "quaternion", "axis", "translation") else v
    return out


def close(E, R):
    R = np.asarray(R, dtype=np.float64)
    if R.shape != E.shape or not np.isfinite(R).all():
        return False
    return bool(np.abs(E - R).max() <= TOL * max(1.0, float(np.abs(E).max())))


def in_repair_band(E):
    """Expected matrix whose linear part is almost-but-not-quite orthonormal: fix_rigid may alter it."""
    L = E[:3, :3]
    dev = float(np.abs(L @ L.T - np.eye(3)).max())
    return 1e-9 < dev < 1e-4


# ----------------------------------------------------------------------------
# contracts


class StaleEdgeData(Exception):
    pass


class StaleHashMemo(Exception):
    pass


def install_contracts(run):
    """Class invariants on EnforcedForest; conditions record and return True."""
    from trimesh.scene import transforms as tr

    try:
        import icontract
    except Exception as e:  # pragma: no cover
        run.inconclusive("icontract not importable: %r" % (e,))
        return None
    EF = tr.EnforcedForest
    before = dict(EF.__dict__)
    raw_hash = before["__hash__"]

    def edges_match_parents(self):
        if CTX["op"] is None:
            # observation sweeps and rebuilt graphs: their answers are compared with the model
            # directly; the invariants are evaluated around every call made by a history operation
            return True
        CONTRACT["edges_match_parents"] += 1
        have = set(self.edge_data.keys())
        want = {(p, c) for c, p in self.parents.items()}
        if have == want:
            if "_vmon_bad" in self.__dict__:
                self.__dict__["_vmon_bad"] = frozenset()
            return True
        bad = frozenset([("stale_edge", e) for e in have - want] + [("missing_edge", e) for e in want - have])
        new = bad - self.__dict__.get("_vmon_bad", frozenset())
        self.__dict__["_vmon_bad"] = bad
        if new:
            _contract_report("edges_match_parents", sorted({s for s, _ in new}), sorted(map(repr, new)))
        return True

    def hash_memo_fresh(self):
        if CTX["op"] is None:
            return True
        CONTRACT["hash_memo_fresh"] += 1
        memo = self.__dict__.get("_hash")
        if memo is None:
            return True
        self.__dict__["_hash"] = None
        try:
            fresh = raw_hash(self)
        finally:
            self.__dict__["_hash"] = memo
        if fresh != memo and self.__dict__.get("_vmon_hash_bad") != memo:
            self.__dict__["_vmon_hash_bad"] = memo
            _contract_report("hash_memo_fresh", ["stale_memo"], [])
        return True

    icontract.invariant(edges_match_parents, error=StaleEdgeData)(EF)
    icontract.invariant(hash_memo_fresh, error=StaleHashMemo)(EF)
    changed = [k for k in EF.__dict__ if EF.__dict__[k] is not before.get(k)]
    # the read-side methods are swapped back to the plain functions while an observation sweep
    # runs (the conditions would return at once there anyway; this only saves the wrapper cost)
    for k in ("__hash__", "shortest_path", "nodes", "children"):
        SWAP[k] = (before[k], EF.__dict__[k])
    SWAP["class"] = EF

    def uninstall():
        SWAP.clear()
        for k in changed:
            if k in before:
                setattr(EF, k, before[k])
            else:
                try:
                    delattr(EF, k)
                except AttributeError:
                    pass

    return uninstall


SWAP = {}


class plain_reads:
    """Context: EnforcedForest read methods without the invariant wrappers (observation only)."""

    def __enter__(self):
        EF = SWAP.get("class")
        if EF is not None:
            for k, pair in SWAP.items():
                if k != "class":
                    setattr(EF, k, pair[0])

    def __exit__(self, *a):
        EF = SWAP.get("class")
        if EF is not None:
            for k, pair in SWAP.items():
                if k != "class":
                    setattr(EF, k, pair[1])
        return False


def _contract_report(name, syms, detail):
    run, op = CTX["run"], CTX["op"]
    if run is None or op is None:
        return
    for s in syms:
        run.violation(
            "contract=EnforcedForest.%s sym=%s after=%s" % (name, s, op),
            "class invariant of EnforcedForest broken after a public call (%s)" % name,
            dict(CTX["case"] or {}, contract=name, detail=detail, after=op),
        )


# ----------------------------------------------------------------------------
# history driver


QUERY_OPS = ("get", "getitem", "flatten", "props", "edgelist", "get_absent")


class State:
    """Real graph + reference forest + history features used for classification."""

    def __init__(self, base="world", repair="default", loops=False):
        from trimesh.scene.transforms import SceneGraph

        # repair=None: the graph is built with repair_rigid=None ("do not touch my matrices"): every
        # answer is then the plain product - no repair window - on this graph and on its copies
        kw = {} if repair == "default" else {"repair_rigid": repair}
        self.g = SceneGraph(**kw) if base == "world" else SceneGraph(base_frame=base, **kw)
        self.m = Forest(base)
        self.exact = repair is None
        self.names = "str"  # name class the history is executed under (run_history sets it)
        self.loops = loops  # execute updates that would close a loop (else: not applicable, pruned)
        self.copied = False
        self.frozen = []  # (graph, model, ghost, geom_removed) left behind by copy()
        self.ghost = set()  # absent names that were asked for as frame_to
        self.geom_removed = set()  # nodes whose geometry was dropped by remove_geometries
        self.changed = 0  # operations that changed the reference forest
        self.query_before_mutation = False
        self._queried = False
        self.snap = None  # edge list recorded by the last `snapshot` operation (built from the model)


# Frame names are "any hashable" (docstring of SceneGraph.update).  A history is written over the
# symbolic names world, a .. e and executed under one of these name classes: plain strings; integers /
# tuples of which several have the SAME builtin hash (hash(-1) == hash(-2), hash(n) == hash(n + 2**61
# - 1): anything that identifies a frame or an edge by hash() instead of by equality confuses them);
# names of different type whose text is the same (1, "1", ("1",), "('1',)").
_P61 = 2**61 - 1
NAME_CLASSES = {
    "str": None,
    "int_equal_hash": {"world": -1, "a": -2, "b": -2 - _P61, "c": 7, "d": 0, "e": _P61},
    "tuple_equal_hash": {"world": (-1, "arm"), "a": (-2, "arm"), "b": (-2 - _P61, "arm"), "c": ("tool", 0),
                         "d": (0, "x"), "e": (_P61, "x")},
    "same_text": {"world": "world", "a": 1, "b": "1", "c": ("1",), "d": "('1',)", "e": 1.5},
}


def rename_op(op, nm):
    """The operation with its symbolic frame names replaced by those of a name class."""
    if nm is None:
        return op
    o = dict(op)
    for k in ("to", "from", "key", "node", "name"):
        if o.get(k) is not None and o[k] in nm:
            o[k] = nm[o[k]]
    if o.get("edges"):
        o["edges"] = [[nm.get(e[0], e[0]), nm.get(e[1], e[1]), e[2]] for e in o["edges"]]
    return o


def loop_class(m, to, frm):
    """None, or how update(to, frm) would close a loop in the reference forest."""
    if to == frm:
        return "self_edge"
    if m.parent.get(frm) == to:
        return "reversed_edge"
    if m.would_cycle(to, frm):
        return "below_descendant"
    return None


def op_class(st, op):
    k = op["op"]
    if k in ("update", "setitem"):
        frm = op.get("from") or st.m.base
        to = op["to"] if k == "update" else op["key"]
        if loop_class(st.m, to, frm) is not None:
            return "update_closing_loop"
        old = st.m.parent.get(to)
        if old is None:
            return "update_new"
        if old == frm:
            return "update_same_edge"
        if (frm, to) in st.m.former:
            return "reparent_onto_former"
        return "reparent"
    if k in ("get", "getitem", "get_absent"):
        to = op["key"] if k == "getitem" else op["to"]
        return "get" if to in st.m.nodes else "get_of_absent_frame"
    return k


def apply(run, st, op, case):
    """
    Execute one operation on the real graph and on the model.  Returns False when the
    operation is not applicable in this state (it would close a loop).
    """
    g, m = st.g, st.m
    k = op["op"]
    cls = op_class(st, op)
    CTX["op"] = cls
    try:
        if k in ("update", "setitem"):
            if k == "update":
                to, frm, kw = op["to"], op.get("from"), dict(op["kw"])
            else:
                to, frm, kw = op["key"], None, {"matrix": op["matrix"]}
            frm_eff = frm if frm is not None else m.base
            loop = loop_class(m, to, frm_eff)
            if loop is not None:
                # a self edge on a frame WITHOUT a parent is not judged (the glTF loader stores
                # ("world", "world")); everything else that would close a loop is executed when the
                # history asks for it, see closing_update()
                if not st.loops or (loop == "self_edge" and to not in m.parent):
                    return False
                return closing_update(run, st, op, case, loop, to, frm, frm_eff, kw, k)
            old_parent = m.parent.get(to)
            old_matrix = m.matrix.get(to)
            # what the model stores is fixed NOW: the library gets float64 buffers that belong to
            # the caller and are re-used (overwritten in place) as soon as the call returns - an
            # edge must hold the values passed at the time of the call, not a reference
            M_call = kwargs_matrix(kw)
            for x in _BUFFER_KEYS:
                if isinstance(kw.get(x), np.ndarray):
                    kw[x] = np.array(kw[x], dtype=np.float64)
            try:
                if k == "update":
                    if frm is None:
                        g.update(to, **kw)
                    else:
                        g.update(to, frm, **kw)
                else:
                    g[to] = kw["matrix"]
            except Exception as e:
                run.violation("op=%s sym=exception:%s" % (cls, type(e).__name__),
                              "a scene-graph edit raised", dict(case, error=repr(e)[:200]))
                raise _Abort()
            has_transform = any(kw.get(x) is not None for x in ("matrix", "quaternion", "translation")) or (
                kw.get("axis") is not None and kw.get("angle") is not None
            )
            M = M_call
            for x in _BUFFER_KEYS:
                if isinstance(kw.get(x), np.ndarray):
                    try:
                        kw[x] += 0.37  # the caller re-uses its buffer
                        run.count("caller_buffers_overwritten_after_update")
                    except ValueError:
                        run.violation("op=%s sym=caller_array_made_read_only arg=%s" % (cls, x),
                                      "an array passed to a scene-graph edit was made read-only by the library",
                                      dict(case))
            if not has_transform and old_parent == frm_eff and old_matrix is not None:
                # statement-silent: the edge may keep its matrix or be reset to identity.
                # Peek at the raw edge record (no cache is touched) and adopt what happened.
                raw = g.transforms.edge_data.get((frm_eff, to), {}).get("matrix")
                if raw is not None and close(old_matrix, raw):
                    M = old_matrix
                run.count("update_without_transform_on_existing_edge")
            geo = kw["geometry"] if "geometry" in kw else _NO
            m.update(to, frm_eff, M, geometry=geo)
            # (st.ghost keeps names that entered through a failed get() even when they become real
            # frames later: a listing cached while the ghost was there can come back, see remove_node)
            if not any(e[1] == to for e in m.former):
                # the record of the edge into `to` was rewritten; a replaced (former) edge
                # into it would still carry the dropped reference
                st.geom_removed.discard(to)
            st.changed += 1
        elif k == "remove_node":
            try:
                g.transforms.remove_node(op["node"])
            except Exception as e:
                run.violation("op=remove_node sym=exception:%s" % type(e).__name__,
                              "remove_node raised", dict(case, error=repr(e)[:200]))
                raise _Abort()
            if m.remove_node(op["node"]):
                st.changed += 1
            # a name that entered node_data through a failed get() stays in st.ghost: listings
            # cached while it was there can survive its removal (the forest hash returns to the
            # value memoised before the insertion, which never reset it)
            st.geom_removed.discard(op["node"])
        elif k == "remove_geometries":
            names = op["names"]
            try:
                g.remove_geometries(names if len(names) != 1 else names[0])
            except Exception as e:
                run.violation("op=remove_geometries sym=exception:%s" % type(e).__name__,
                              "remove_geometries raised", dict(case, error=repr(e)[:200]))
                raise _Abort()
            hit = {n for n, geo in m.geometry.items() if geo in set(names)}
            if hit:
                st.changed += 1
            st.geom_removed |= hit
            m.remove_geometries(names)
        elif k == "base":
            g.base_frame = op["name"]
            if m.base != op["name"]:
                st.changed += 1
            m.base = op["name"]
        elif k == "clear":
            g.clear()
            if m.nodes:
                st.changed += 1
            m.clear()
            st.ghost.clear()
            st.geom_removed.clear()
        elif k == "copy":
            try:
                g2 = g.copy()
            except Exception as e:
                run.violation("op=copy sym=exception:%s" % type(e).__name__, "SceneGraph.copy raised",
                              dict(case, error=repr(e)[:200]))
                raise _Abort()
            st.frozen.append((g, m.copy(), set(st.ghost), set(st.geom_removed)))
            st.g = g2
            st.m = m.copy()
            st.copied = True
        elif k == "snapshot":
            # what a caller keeps when it saves the state of the graph as an edge list; taken from
            # the reference forest (the real export is judged by every sweep), nothing is executed
            st.snap = model_edgelist(m)
        elif k in ("load", "restore"):
            # an edge list loaded INTO THE GRAPH AS IT IS (already populated, already queried, every
            # cache in whatever state the history left it): one update per edge, in order
            edges = st.snap if k == "restore" else op["edges"]
            if not edges:
                return False
            trial = m.copy()
            for u, v, _attr in edges:
                if u == v or trial.would_cycle(v, u):
                    return False
                trial.update(v, u, _I)
            before = model_signature(m)
            arrays = bool(op.get("arrays"))
            mats, sent = [], []
            for u, v, attr in edges:
                M = np.array(attr["matrix"], dtype=np.float64).reshape(4, 4)
                mats.append(M.copy())
                a = dict(attr)
                a["matrix"] = np.array(M) if arrays else M.tolist()
                sent.append([u, v, a] if not op.get("tuples") else (u, v, a))
            try:
                if op.get("via") == "load":
                    g.load(sent)
                else:
                    g.from_edgelist(sent)
            except Exception as e:
                run.violation("op=%s sym=exception:%s" % (cls, type(e).__name__),
                              "loading an edge list into an existing graph raised", dict(case, error=repr(e)[:200]))
                raise _Abort()
            run.count("edge_lists_loaded_into_existing_graph" if before[1] else "edge_lists_loaded_into_empty_graph")
            if st._queried:
                run.count("edge_lists_loaded_after_a_query")
            if arrays:
                for e in sent:
                    try:
                        e[2]["matrix"] += 0.37  # the caller re-uses its buffers
                        run.count("caller_buffers_overwritten_after_update")
                    except ValueError:
                        run.violation("op=%s sym=caller_array_made_read_only arg=matrix" % cls,
                                      "an array passed to a scene-graph edit was made read-only by the library",
                                      dict(case))
                        break
            for (u, v, attr), M in zip(edges, mats):
                m.update(v, u, M, geometry=attr["geometry"] if "geometry" in attr else _NO)
                if not any(e[1] == v for e in m.former):
                    st.geom_removed.discard(v)
            if model_signature(m) != before:
                st.changed += 1
        elif k in QUERY_OPS:
            st._queried = True
            explicit_query(run, st, op, case)
        else:
            raise KeyError(k)
        if k not in QUERY_OPS and st._queried and k not in ("copy", "snapshot"):
            st.query_before_mutation = True
        return True
    finally:
        CTX["op"] = None


class _Abort(Exception):
    pass


class _Stop(Exception):
    """The history cannot be followed any further by the reference forest (nothing is wrong)."""


def closing_update(run, st, op, case, loop, to, frm, frm_eff, kw, k):
    """
    update(to, frm, ...) where `to` is `frm` itself (and has a parent) or an ancestor of `frm`: the
    edge as given would close a loop.  The statement does not say how such a call is resolved, so
    nothing is prescribed: it may be refused (ValueError; then nothing may have changed - the sweeps
    that follow compare with the unchanged forest), or accepted in any way that leaves a forest (the
    existing edge stored the other way round, the tree re-rooted ...) which the reference model then
    ADOPTS from the raw records.  What the statement does demand of an accepted update: the
    transform asked for is the one get(to, frm) answers now, and the three laws hold on the real
    answers between all frames.  A self edge can only be honoured when it asks for the identity, and
    then changes nothing: the frame keeps its parent.
    """
    g, m = st.g, st.m
    M_call = kwargs_matrix(kw)
    for x in _BUFFER_KEYS:
        if isinstance(kw.get(x), np.ndarray):
            kw[x] = np.array(kw[x], dtype=np.float64)
    refused = False
    try:
        if k == "update":
            if frm is None:
                g.update(to, **kw)
            else:
                g.update(to, frm, **kw)
        else:
            g[to] = kw["matrix"]
    except ValueError:
        refused = True
    except Exception as e:
        run.violation("op=update_closing_loop class=%s sym=exception:%s" % (loop, type(e).__name__),
                      "an update that would close a loop raised something else than ValueError",
                      dict(case, error=repr(e)[:200]))
        raise _Abort()
    for x in _BUFFER_KEYS:
        if isinstance(kw.get(x), np.ndarray):
            try:
                kw[x] += 0.37  # the caller re-uses its buffer
            except ValueError:
                pass
    if refused:
        run.count("loop_closing_update_refused:" + loop)
        return True
    run.count("loop_closing_update_accepted:" + loop)
    names = list(m.nodes)
    real = {}
    with plain_reads():
        for a in names:
            for b in names:
                real[(a, b)] = observe_get(run, g, b, a)
    sym, detail = None, None
    obs = real.get((frm_eff, to)) or observe_get(run, g, to, frm_eff)
    # (inside the repair window the answer is judged at its width here, also on a graph built with
    # repair_rigid=None: whether THAT option is honoured is the business of the sweeps)
    tol = 3e-5 if band_kind(M_call) is not None else TOL
    if obs[0] != "ok" or not within(M_call, obs[1], tol):
        sym, detail = "update_not_visible", {"asked": M_call, "answered": obs[1] if obs[0] == "ok" else obs}
    if sym is None and loop == "self_edge" and g.transforms.parents.get(to) != m.parent.get(to):
        # T(x, x) = I was "set" to the identity: nothing to do - but the edge from the parent is gone
        sym, detail = "parent_edge_dropped", {"parent_before": m.parent.get(to)}
    if sym is None:
        ok = {p2: v for p2, v in real.items() if v[0] == "ok"}
        # (answers that disagree within the repair window - edges with a scale next to one - are the
        # business of the sweeps, not of this update)
        mats = [M for M in m.matrix.values() if M is not None] + [M_call]
        tol_l = 1e-4 if any(band_kind(M) is not None for M in mats) else 10 * TOL
        failed, n = check_laws(names, ok, tol_l)
        run.count("law_checks", n)
        if failed:
            law, trip = failed[0]
            sym = "laws_broken"  # which one depends on the shape of the loop: in the witness, not in the key
            detail = {"law": law, "frames": trip, "answers": {repr(p2): ok[p2][1] for p2 in
                                                              [(trip[0], trip[-1]), (trip[-1], trip[0])] if p2 in ok}}
    if sym is None:
        err = [(p2, v) for p2, v in real.items() if v[0] == "error"]
        if err:
            sym, detail = "exception:%s" % err[0][1][1], {"pair": list(err[0][0])}
    if sym is not None:
        run.violation("op=update_closing_loop class=%s sym=%s" % (loop, sym),
                      "an update naming an ancestor of the parent frame (or the frame itself) as the child was "
                      "accepted and the answers of the graph no longer satisfy the statement",
                      dict(case, frame_to=to, frame_from=frm_eff, raw_parents=repr(dict(g.transforms.parents))[:300],
                           **detail))
        raise _Abort()
    if loop == "self_edge":
        run.count("loop_closing_update_accepted_as_no_op:self_edge")
        return True
    adopted = adopt_forest(g, m)
    if adopted is None:
        # a loop whose matrices happen to agree: no law is broken yet, the model cannot follow
        run.count("loop_closing_update_accepted_as_consistent_loop")
        raise _Stop()
    run.count("loop_closing_update_accepted_as_forest:" + loop)
    st.m = adopted
    st.changed += 1
    return True


def adopt_forest(g, m):
    """The raw records of the graph as a reference forest; None when they are not a forest."""
    tr = g.transforms
    parents = {c: p for c, p in tr.parents.items() if c != p}
    for n in parents:
        x = n
        for _ in range(len(parents) + 1):
            x = parents.get(x)
            if x is None:
                break
        else:
            return None
    f = Forest(m.base)
    f.nodes = dict.fromkeys(tr.node_data.keys(), True)
    for c, p in parents.items():
        rec = tr.edge_data.get((p, c))
        if rec is None:
            return None
        f.parent[c] = p
        f.matrix[c] = np.array(rec.get("matrix", np.eye(4)), dtype=np.float64)
    f.geometry = {n: d["geometry"] for n, d in tr.node_data.items() if "geometry" in d}
    f.former = {e for e in m.former if parents.get(e[1]) != e[0] and e[0] in f.nodes and e[1] in f.nodes}
    f.reparented_onto_former = m.reparented_onto_former
    return f


class _Suffixed:
    """`run` whose violation keys carry the option / input class a history was executed under."""

    def __init__(self, run, suffix):
        self._run, self._suffix = run, suffix

    def __getattr__(self, name):
        return getattr(self._run, name)

    def violation(self, key, what, case=None):
        for part in self._suffix.split():
            if part.split("=", 1)[1] not in key:
                key = key + " " + part
        self._run.violation(key, what, case)


_BUFFER_KEYS = ("matrix", "quaternion", "axis", "translation")


def model_edgelist(m):
    """The reference forest as an edge list [parent, child, {matrix (nested lists), geometry}]."""
    out = []
    for c, p in m.parent.items():
        attr = {"matrix": np.asarray(m.matrix[c], dtype=np.float64).tolist()}
        if c in m.geometry:
            attr["geometry"] = m.geometry[c]
        out.append([p, c, attr])
    return out


def model_signature(m):
    """Everything the reference forest holds, comparable (did an operation change it?)."""
    return (
        m.base,
        tuple(m.nodes),
        tuple(sorted(m.parent.items(), key=repr)),
        tuple(sorted(m.geometry.items(), key=repr)),
        tuple((c, np.asarray(M, dtype=np.float64).tobytes()) for c, M in sorted(m.matrix.items(), key=lambda cm: repr(cm[0]))),
    )


def clone_graph(g):
    """
    Copy of a SceneGraph *including the state of all its caches* (memoised forest hash, path
    cache, resolved transforms, cached listings), so that observing the clone shows what the
    graph itself would answer right now without touching it.  (copy.deepcopy(graph) is not
    usable: it raises once `graph.nodes` - a dict_keys view - sits in the cache.)
    """
    from trimesh import caching
    from trimesh.scene.transforms import SceneGraph

    c = SceneGraph.__new__(SceneGraph)
    c.base_frame = g.base_frame
    c.repair_rigid = g.repair_rigid
    c.transforms = copy.deepcopy(g.transforms)
    c._cache = caching.Cache(c.__hash__)
    c._cache.id_current = g._cache.id_current
    for k, v in g._cache.cache.items():
        if k == "nodes":
            v = c.transforms.node_data.keys()
        elif not isinstance(v, tuple):
            v = copy.deepcopy(v)
        c._cache.cache[k] = v
    return c


# ----------------------------------------------------------------------------
# observation


def explain(view, m, frm=None, to=None, sym=None, pairwise=True):
    """
    ONE structural feature of the history / pair for the classifier, by priority:
    geometry symptom at a frame whose geometry was dropped by remove_geometries; a re-parent
    back onto a former edge happened; a former (replaced) edge is still around, with the
    relation of the asked pair to it; none of these.
    """
    if sym == "wrong_geometry" and to in view.geom_removed:
        return "hist=remove_geometries"
    if m.reparented_onto_former:
        return "hist=reparent_onto_former"
    if m.former:
        if not pairwise:
            return "former_edge=alive"
        if (frm, to) in m.former:
            return "former_edge=alive rel=pair_is_former"
        p = m.path(frm, to) if (frm is not None and to is not None) else None
        if p:
            for u, v in zip(p[:-1], p[1:]):
                if (u, v) in m.former:
                    return "former_edge=alive rel=path_reverses_former"
        if (to, frm) in m.former:
            return "former_edge=alive rel=pair_is_reversed_former"
        return "former_edge=alive rel=other"
    return "former_edge=none"


def path_class(m, frm, to):
    p = m.path(frm, to)
    if p is None:
        return "path=none"
    if len(p) == 1:
        return "path=self"
    ups = sum(1 for u, v in zip(p[:-1], p[1:]) if m.parent.get(u) == v)
    downs = len(p) - 1 - ups
    d = "down" if ups == 0 else ("up" if downs == 0 else "mixed")
    return "path=%s_%s" % ("edge" if len(p) == 2 else "long", d)


def observe_get(run, g, to, frm, default_from=False, item=False):
    """-> ('ok', matrix, geometry, served_from_cache) | ('raise', name) | ('error', name)"""
    key = (frm, to)
    had = g._cache.cache.get(key)
    try:
        if item:
            res = g[to]
        elif default_from:
            res = g.get(to)
        else:
            res = g.get(to, frm)
    except (ValueError, KeyError) as e:
        return ("raise", type(e).__name__)
    except Exception as e:  # AssertionError etc: the internals are confused
        return ("error", type(e).__name__)
    run.count("get_calls")
    served = had is not None and res is had
    if served:
        run.count("get_served_from_SceneGraph._cache")
    try:
        M, geo = res
        M = np.asarray(M, dtype=np.float64)
    except Exception:
        return ("error", "bad_return")
    return ("ok", M, geo, served)


def within(E, R, tol):
    R = np.asarray(R, dtype=np.float64)
    if R.shape != E.shape or not np.isfinite(R).all():
        return False
    return bool(float(np.abs(E - R).max()) <= tol * max(1.0, float(np.abs(E).max())))


def law_tolerance(exact, matrices):
    """
    Width at which the three laws are judged on the real answers.  Edges of single-precision accuracy
    ('noise') put get() into its repair window on a graph with the default repair_rigid: each answer
    may then be repaired or not, up to 1e-5 from the raw product.  Everything else - and every graph
    built with repair_rigid=None - is judged at the tolerance of the monitor.
    """
    if not exact and any(band_kind(M) == "noise" for M in matrices if M is not None):
        return 1e-4
    return 10 * TOL


class ModelTable:
    """
    The expected answers of ONE state of the reference forest, memoised for the duration of a sweep
    (the same pair is judged for get, graph[node], to_flattened and the rebuilt graph): W(n) of every
    frame once, W(a)^-1 once per frame, T(a,b) = W(a)^-1 . W(b) - the very operations of Forest.T.
    """

    def __init__(self, m):
        self.m = m
        self.info = {n: m.root_world(n) for n in m.nodes}
        self.inv = {}
        self.memo = {}

    def expected(self, frm, to):
        """(E or None when not connected / absent, E is inside the repair window)"""
        key = (frm, to)
        hit = self.memo.get(key)
        if hit is not None:
            return hit
        a, b = self.info.get(frm), self.info.get(to)
        if a is None or b is None or a[0] != b[0]:
            res = (None, False)
        elif frm == to:
            res = (np.eye(4), False)
        else:
            if frm not in self.inv:
                self.inv[frm] = np.linalg.inv(a[1])
            E = self.inv[frm] @ b[1]
            res = (E, in_repair_band(E))
        self.memo[key] = res
        return res


def judge_pair(m, frm, to, obs, exact=False, tab=None):
    """-> None | (symptom, expected); exact: the graph was built with repair_rigid=None"""
    if tab is not None:
        E, band = tab.expected(frm, to)
    else:
        try:
            E = m.T(frm, to)
        except Disconnected:
            E = None
        band = E is not None and in_repair_band(E)
    if obs[0] == "error":
        return ("exception:%s" % obs[1], E)
    if E is None:
        if obs[0] == "ok":
            if frm == to and frm not in m.nodes:
                return None  # T(z,z) of a frame that does not exist: not judged
            return ("returned_disconnected", None)
        return None
    if obs[0] == "raise":
        return ("raised_connected", E)
    if band and not exact:
        # fix_rigid (repair_rigid=1e-5) may replace the product by the nearest orthogonal matrix,
        # which it documents to lie within 1e-5 of it: the answer is still judged, at that width
        # (a mirrored product must stay mirrored, a repaired one must stay next to the product)
        R = np.asarray(obs[1], dtype=np.float64)
        if R.shape != E.shape or not np.isfinite(R).all() or \
                float(np.abs(E - R).max()) > 3e-5 * max(1.0, float(np.abs(E).max())):
            return ("wrong_matrix_repair_band", E)
        if obs[2] != m.geometry.get(to):
            return ("wrong_geometry", E)
        return None
    if not close(E, obs[1]):
        return ("wrong_matrix", E)
    if obs[2] != m.geometry.get(to):
        return ("wrong_geometry", E)
    return None


def report_pair(run, st, m, query, frm, to, obs, verdict, case, extra=""):
    sym, E = verdict
    ex = explain(st, m, frm, to, sym)
    feats = [ex]
    if ex == "former_edge=none":
        feats.append(path_class(m, frm, to))
    if ex in ("former_edge=none", "former_edge=alive rel=other") and obs[0] == "ok":
        # a dead edge record can give the forest the very content (hence hash) of an earlier state,
        # so under `former_edge=alive` a stale SceneGraph._cache entry may come back for any pair
        feats.append("served=%s" % ("cache" if obs[3] else "computed"))
    if getattr(st, "names", "str") != "str":
        # histories under another class of frame names: the class is the structural feature (the same
        # histories run under plain strings with the detailed features)
        feats = ["names=%s" % st.names] + (["served=%s" % ("cache" if obs[3] else "computed")] if obs[0] == "ok" else [])
    if getattr(st, "exact", False) and sym == "wrong_matrix" and obs[0] == "ok" and E is not None \
            and in_repair_band(E) and within(E, obs[1], 3e-5):
        # repair_rigid=None was asked for and the answer is the product moved by less than the repair window
        sym = "repaired_although_repair_rigid_None"
        feats = ["hist=%s" % ("copy" if st.copied else "no_copy")]
    key = "query=%s sym=%s %s%s" % (query, sym, " ".join(feats), extra)
    what = {
        "wrong_matrix": "transform differs from the product of the current edges along the path",
        "repaired_although_repair_rigid_None": "the graph was built with repair_rigid=None but the answer is a repaired "
                                               "matrix, not the product of the current edges",
        "wrong_geometry": "geometry returned for the frame differs from the one currently attached",
        "returned_disconnected": "a transform was returned for two frames that are not connected",
        "raised_connected": "query raised although the frames are connected",
    }.get(sym, "query failed with an unexpected exception")
    run.violation(
        key, what,
        dict(case, query=query, frame_from=frm, frame_to=to,
             observed=(obs[1] if obs[0] == "ok" else obs), observed_geometry=(obs[2] if obs[0] == "ok" else None),
             expected=E, expected_geometry=m.geometry.get(to)),
    )


def sweep(run, st, g, m, ghost, geom_removed, order, case, where="main", absent=True):
    """Full observation of graph `g` against model `m`.  Returns number of mismatches."""
    with plain_reads():
        return _sweep(run, st, g, m, ghost, geom_removed, order, case, where, absent)


def _sweep(run, st, g, m, ghost, geom_removed, order, case, where="main", absent=True):
    run.count("sweeps")
    names = list(m.nodes)
    view = _View(st, ghost, geom_removed)
    view.tab = tab = ModelTable(m)
    bad = 0
    real = {}

    def do_pairs():
        nonlocal bad
        pairs = [(a, b) for a in names for b in names]
        if order % 2:
            pairs.reverse()
        if order % 3 == 1:
            pairs.sort(key=lambda ab: (repr(ab[1]), repr(ab[0])))
        for frm, to in pairs:
            obs = observe_get(run, g, to, frm)
            real[(frm, to)] = obs
            v = judge_pair(m, frm, to, obs, view.exact, tab)
            if v is not None:
                bad += 1
                report_pair(run, view, m, "get", frm, to, obs, v, case)

    def do_items():
        nonlocal bad
        for to in names:
            obs = observe_get(run, g, to, m.base, item=True)
            v = judge_pair(m, m.base, to, obs, view.exact, tab)
            if v is None:
                continue
            bad += 1
            same = real.get((m.base, to)) or observe_get(run, g, to, m.base)
            if _same_obs(same, obs):
                run.count("getitem_mismatch_same_as_get")
                continue
            report_pair(run, view, m, "getitem", m.base, to, obs, v, case)

    def do_flatten():
        nonlocal bad
        base = m.base
        all_connected = all(m.connected(base, n) for n in names) if names else True
        try:
            flat = g.to_flattened()
        except (ValueError, KeyError) as e:
            if all_connected:
                bad += 1
                if ghost & (set(_raw_nodes(g)) | _listed(g)):
                    feats = "hist=absent_frame_queried"
                else:
                    feats = explain(view, m, pairwise=False)
                run.violation("query=to_flattened sym=raised_all_connected %s" % feats,
                              "to_flattened raised although every frame is connected to the base frame",
                              dict(case, error=repr(e)[:200], base=base))
            else:
                run.count("to_flattened_refused_disconnected")
            return
        except Exception as e:
            bad += 1
            run.violation("query=to_flattened sym=exception:%s" % type(e).__name__, "to_flattened failed",
                          dict(case, error=repr(e)[:200]))
            return
        for n in names:
            if n == base:
                continue
            conn = m.connected(base, n)
            if n not in flat:
                if conn:
                    bad += 1
                    run.violation("query=to_flattened sym=missing_connected_frame %s" % explain(view, m, base, n),
                                  "to_flattened omits a frame connected to the base frame", dict(case, frame=n))
                continue
            obs = ("ok", np.array(flat[n]["transform"], dtype=np.float64), flat[n]["geometry"], False)
            v = judge_pair(m, base, n, obs, view.exact, tab)
            if v is None:
                continue
            bad += 1
            same = real.get((base, n)) or observe_get(run, g, n, base)
            if _same_obs(same, obs):
                run.count("to_flattened_mismatch_same_as_get")
                continue
            report_pair(run, view, m, "to_flattened", base, n, obs, v, case)
        extra = set(flat) - set(names)
        if extra:
            bad += 1
            hist = " hist=absent_frame_queried" if extra <= ghost else ""
            run.violation("query=to_flattened sym=extra_frame%s" % hist, "to_flattened lists a frame that does not exist",
                          dict(case, extra=sorted(map(str, extra))))

    def do_props():
        nonlocal bad
        try:
            rn = set(g.nodes)
            rng_ = set(g.nodes_geometry)
            rgn = {k: set(v) for k, v in g.geometry_nodes.items() if len(v)}
            cont = {n: (n in g) for n in names}
        except Exception as e:
            bad += 1
            run.violation("query=listings sym=exception:%s" % type(e).__name__, "a listing failed",
                          dict(case, error=repr(e)[:200]))
            return
        en = set(names)
        if rn != en:
            bad += 1
            extra, missing = rn - en, en - rn
            if extra:
                hist = " hist=absent_frame_queried" if extra <= ghost else ""
                run.violation("query=nodes sym=extra_node%s" % hist, "graph.nodes lists a frame that does not exist",
                              dict(case, extra=sorted(map(str, extra))))
            if missing:
                run.violation("query=nodes sym=missing_node %s" % explain(view, m, pairwise=False),
                              "graph.nodes omits an existing frame", dict(case, missing=sorted(map(str, missing))))
        if rng_ != m.nodes_geometry():
            bad += 1
            run.violation("query=nodes_geometry sym=wrong_set %s" % explain(view, m, pairwise=False),
                          "nodes_geometry differs from the frames that currently carry geometry",
                          dict(case, observed=sorted(rng_, key=repr), expected=sorted(m.nodes_geometry(), key=repr)))
        if rgn != m.geometry_nodes():
            bad += 1
            run.violation("query=geometry_nodes sym=wrong_map %s" % explain(view, m, pairwise=False),
                          "geometry_nodes differs from the current geometry -> frames map",
                          dict(case, observed={k: sorted(v, key=repr) for k, v in rgn.items()},
                               expected={k: sorted(v, key=repr) for k, v in m.geometry_nodes().items()}))
        if not all(cont.values()):
            bad += 1
            run.violation("query=contains sym=false_for_existing", "`frame in graph` is False for an existing frame",
                          dict(case, contains=cont))

    def do_edgelist():
        nonlocal bad
        bad += check_edgelist(run, view, g, m, case)

    groups = [do_pairs, do_items, do_flatten, do_props, do_edgelist]
    k = order % len(groups)
    groups = groups[k:] + groups[:k]
    if (order // len(groups)) % 2:
        groups.reverse()
    for fn in groups:
        fn()

    # laws of the statement on the real answers alone
    ok_pairs = {k2: v for k2, v in real.items() if v[0] == "ok"}
    # edges of single-precision accuracy put get() into its repair band: each answer may then sit
    # up to 1e-5 from the raw product, and the laws are judged at that width
    # (an edge that is an exact similarity with a scale next to one is NOT noise: each answer is compared
    # with the model at the width of the repair window, but the answers must agree with each other)
    law_bad = check_laws(names, ok_pairs, law_tolerance(view.exact, m.matrix.values()))
    run.count("law_checks", law_bad[1])
    if law_bad[0]:
        if bad:
            run.count("law_failures_explained_by_query_mismatch", len(law_bad[0]))
        else:
            near = (not view.exact) and any(band_kind(M) == "similarity" for M in m.matrix.values() if M is not None)
            if near and not check_laws(names, ok_pairs, 1e-4)[0]:
                # the answers disagree by less than the repair window: some were "repaired" (an intended
                # scale next to one dropped), others - products that left the window - were not
                for law in sorted({law for law, _ in law_bad[0]}):
                    trip = next(t for l2, t in law_bad[0] if l2 == law)
                    run.violation("law=%s edges=near_unit_similarity sym=answers_disagree_within_repair_window" % law,
                                  "T(a,c) != T(a,b).T(b,c) on the real answers: the rigid repair acted on some "
                                  "answers and not on others",
                                  dict(case, frames=trip,
                                       answers={repr(k3): ok_pairs[k3][1] for k3 in
                                                [(trip[0], trip[1]), (trip[1], trip[-1]), (trip[0], trip[-1])]
                                                if k3 in ok_pairs}))
            else:
                opt = " option=repair_rigid_None" if view.exact else ""
                for law, trip in law_bad[0][:2]:
                    run.violation("law=%s %s%s" % (law, explain(view, m, pairwise=False), opt),
                                  "the real answers violate a law of the statement although each matches the model",
                                  dict(case, frames=trip))
            bad += 1

    # frames that do not exist: asked last so that the ghost they may leave cannot disturb the above
    for frm, to in ((m.base, ABSENT), (ABSENT, names[0] if names else m.base), (ABSENT, ABSENT)) if absent else ():
        obs = observe_get(run, g, to, frm)
        v = judge_pair(m, frm, to, obs, view.exact, tab)
        if v is not None:
            bad += 1
            report_pair(run, view, m, "get", frm, to, obs, v, case, extra=" frame=absent")
    return bad


class _View:
    """history features as seen by one sweep (a frozen copy has its own)"""

    def __init__(self, st, ghost, geom_removed):
        self.ghost, self.geom_removed = ghost, geom_removed
        self.exact, self.copied, self.names = st.exact, st.copied, st.names
        self.tab = None  # ModelTable of the sweep this view belongs to


def _same_obs(a, b):
    if a[0] != b[0]:
        return False
    if a[0] != "ok":
        return True
    return a[1].shape == b[1].shape and bool(np.abs(a[1] - b[1]).max() <= 1e-12 * max(1.0, np.abs(a[1]).max())) and a[2] == b[2]


def _raw_nodes(g):
    return list(g.transforms.node_data.keys())


def _listed(g):
    try:
        return set(g.nodes)
    except Exception:
        return set()


def check_laws(names, ok, tol=10 * TOL):
    """-> ([(law, frames)], number of checks) on the real answers only."""
    out, n = [], 0
    mats = {k: v[1] for k, v in ok.items()}
    for a in names:
        if (a, a) in mats:
            n += 1
            if not close(_I, mats[(a, a)]) and np.abs(_I - mats[(a, a)]).max() > tol:
                out.append(("identity", [a]))
    for (a, b), Mab in mats.items():
        if a == b:
            continue
        Mba = mats.get((b, a))
        if Mba is None:
            continue
        n += 1
        s = max(1.0, float(np.abs(Mab).max())) * max(1.0, float(np.abs(Mba).max()))
        if np.abs(Mab @ Mba - _I).max() > tol * s:
            out.append(("inverse", [a, b]))
    for (a, b), Mab in mats.items():
        if a == b:
            continue
        for c in names:
            if c == a or c == b:
                continue
            Mbc, Mac = mats.get((b, c)), mats.get((a, c))
            if Mbc is None or Mac is None:
                continue
            n += 1
            s = max(1.0, float(np.abs(Mab).max())) * max(1.0, float(np.abs(Mbc).max()))
            if np.abs(Mab @ Mbc - Mac).max() > tol * s:
                out.append(("compose", [a, b, c]))
    return out, n


def check_edgelist(run, view, g, m, case):
    """to_edgelist against the model's edges, then from_edgelist rebuild against the model."""
    from trimesh.scene.transforms import SceneGraph

    bad = 0
    try:
        edges = g.to_edgelist()
    except Exception as e:
        run.violation("query=to_edgelist sym=exception:%s" % type(e).__name__, "to_edgelist failed",
                      dict(case, error=repr(e)[:200]))
        return 1
    run.count("edgelist_exports")
    want = {(p, c) for c, p in m.parent.items()}
    have = {}
    for e in edges:
        have[(e[0], e[1])] = e[2] if len(e) > 2 else {}
    ex = explain(view, m, pairwise=False)
    extra = set(have) - want
    if extra:
        bad += 1
        rel = "extra=former_edge" if extra <= m.former else "extra=other"
        run.violation("query=to_edgelist sym=extra_edge %s %s" % (ex, rel),
                      "edge list contains an edge that is not a current edge of the forest",
                      dict(case, extra=sorted(map(repr, extra))))
    if want - set(have):
        bad += 1
        run.violation("query=to_edgelist sym=missing_edge %s" % ex, "edge list omits a current edge",
                      dict(case, missing=sorted(map(repr, want - set(have)))))
    for (p, c), attr in have.items():
        if (p, c) not in want:
            continue
        M = np.array(attr.get("matrix", np.eye(4)), dtype=np.float64)
        if not close(m.matrix[c], M):
            bad += 1
            run.violation("query=to_edgelist sym=wrong_matrix %s" % ex, "edge list carries a matrix that is not the current one",
                          dict(case, edge=[p, c], observed=M, expected=m.matrix[c]))
        if attr.get("geometry") != m.geometry.get(c):
            bad += 1
            run.violation("query=to_edgelist sym=wrong_geometry %s" % explain(view, m, p, c, "wrong_geometry", pairwise=False),
                          "edge list carries a geometry reference that is not the frame's current one",
                          dict(case, edge=[p, c], observed=attr.get("geometry"), expected=m.geometry.get(c)))
    # ---- rebuild
    saved = CTX["op"]
    CTX["op"] = None  # contract breaches inside the rebuilt graph are judged by the comparison below
    try:
        g2 = SceneGraph(base_frame=g.base_frame)
        try:
            g2.from_edgelist(copy.deepcopy(edges))
        except Exception as e:
            run.violation("query=rebuild sym=exception:%s %s" % (type(e).__name__, ex), "from_edgelist(to_edgelist()) raised",
                          dict(case, error=repr(e)[:200]))
            return bad + 1
        run.count("rebuilds")
        iso = set(m.isolated())
        if iso:
            run.count("rebuild_skipped_frames_without_edges", len(iso))
        names = [n for n in m.nodes if n not in iso]
        reported = set()
        for frm in names:
            for to in names:
                obs = observe_get(run, g2, to, frm)
                v = judge_pair(m, frm, to, obs, False, getattr(view, "tab", None))
                if v is None:
                    continue
                bad += 1
                if v[0] == "wrong_geometry" and to not in m.parent:
                    # a frame without an edge into it: its geometry has no place in an edge list
                    run.count("rebuild_root_geometry_unrepresentable")
                    bad -= 1
                    continue
                feats = explain(view, m, frm, to, v[0], pairwise=False)
                key = "query=rebuild sym=%s %s" % (v[0], feats)
                if key in reported:
                    continue
                reported.add(key)
                run.violation(key, "graph rebuilt from the exported edge list is not equivalent to the original",
                              dict(case, frame_from=frm, frame_to=to, observed=(obs[1] if obs[0] == "ok" else obs),
                                   observed_geometry=(obs[2] if obs[0] == "ok" else None), expected=v[1],
                                   expected_geometry=m.geometry.get(to)))
    finally:
        CTX["op"] = saved
    return bad


def explicit_query(run, st, op, case):
    """A query that is part of the history: executed on the real graph, checked, caches perturbed."""
    g, m = st.g, st.m
    view = _View(st, st.ghost, st.geom_removed)
    k = op["op"]
    run.count("explicit_queries")
    if k in ("get", "getitem", "get_absent"):
        if k == "getitem":
            frm, to = m.base, op["key"]
            obs = observe_get(run, g, to, frm, item=True)
        else:
            to = op["to"]
            frm = op.get("from")
            obs = observe_get(run, g, to, frm if frm is not None else m.base, default_from=frm is None)
            frm = frm if frm is not None else m.base
        if to not in m.nodes:
            st.ghost.add(to)
        v = judge_pair(m, frm, to, obs, view.exact)
        if v is not None:
            report_pair(run, view, m, "get", frm, to, obs, v, case,
                        extra=" frame=absent" if (to not in m.nodes or frm not in m.nodes) else "")
    elif k == "flatten":
        try:
            g.to_flattened()
        except Exception:
            pass  # judged by the sweep that follows
    elif k == "props":
        try:
            list(g.nodes), list(g.nodes_geometry), dict(g.geometry_nodes)
        except Exception:
            pass
    elif k == "edgelist":
        check_edgelist(run, view, g, m, case)


# ----------------------------------------------------------------------------
# running histories


def run_history(run, ops, order, sweep_every, tag, prefix=None, names="str", repair="default", loops=False):
    """
    Execute one history; returns (state, applied ops, mismatches) or None when pruned.
    prefix = (name, warm): a fixed initial forest built first, optionally followed by a full
    observation of the real graph (every cache warm) before the history proper starts.
    names  = class of frame names the (symbolic) history is executed under, see NAME_CLASSES;
    repair = "default" | None: the repair_rigid option the graph is built with;
    loops  = updates that would close a loop are executed (closing_update) instead of pruned.
    """
    nm = NAME_CLASSES[names]
    st = State(base=(nm["world"] if nm else "world"), repair=repair, loops=loops)
    st.names = names
    case = {"history": [_jsonable_op(o) for o in ops], "order": order, "sweep_every": bool(sweep_every),
            "prefix": list(prefix) if prefix else None, "names": names,
            "repair_rigid": "default" if repair == "default" else repair, "loops": bool(loops)}
    ops = [rename_op(o, nm) for o in ops]
    CTX["case"] = case
    applied = 0
    bad = 0
    try:
        if prefix:
            case["step"] = -1
            for op in PREFIXES[prefix[0]]():
                apply(run, st, rename_op(op, nm), case)
            st.snap = model_edgelist(st.m)  # "the state as it was saved", for `restore`
            if prefix[1]:
                bad += sweep(run, st, st.g, st.m, st.ghost, st.geom_removed, order + 2, case, "warm", absent=False)
        for i, op in enumerate(ops):
            case["step"] = i
            if not apply(run, st, op, case):
                if not sweep_every:
                    return None  # enumerated: equal to a shorter history
                continue
            applied += 1
            run.count("op:" + op["op"])
            run.state("forest_shape", st.m.shape())
            if sweep_every and op["op"] not in QUERY_OPS and op["op"] != "snapshot":
                clone = clone_graph(st.g)
                bad += sweep(run, st, clone, st.m, set(st.ghost), st.geom_removed, order + i, case, "clone")
                if bad > 20:
                    break
        case["step"] = len(ops)
        bad += sweep(run, st, st.g, st.m, st.ghost, st.geom_removed, order, case)
        for g0, m0, gh0, gr0 in st.frozen:
            # the graph a copy was taken from must still answer as it did
            case2 = dict(case, frozen_original=True)
            n0 = sweep(run, st, g0, m0, gh0, gr0, order + 1, case2)
            run.count("frozen_original_sweeps")
            if n0 and not bad:
                run.count("frozen_original_mismatch")
            bad += n0
    except _Abort:
        bad += 1
    except _Stop:
        pass
    finally:
        CTX["case"] = None
    return st, applied, bad


def _jsonable_op(op):
    o = dict(op)
    if "kw" in o:
        o["kw"] = _jsonable_kw(o["kw"])
    if "matrix" in o:
        o["matrix"] = np.asarray(o["matrix"]).tolist()
    if o.get("edges"):
        o["edges"] = [[e[0], e[1], dict(e[2], matrix=np.asarray(e[2]["matrix"], dtype=np.float64).tolist())]
                      for e in o["edges"]]
    o.pop("cls", None)
    return o


def _op_from_json(o):
    o = dict(o)
    if "kw" in o:
        o["kw"] = _kw_from_json(o["kw"])
    if "matrix" in o:
        o["matrix"] = np.array(o["matrix"], dtype=np.float64)
    return o


def op_digest(op):
    """Structural identity of an operation (names, kwargs kinds, matrix class) - no values."""
    k = op["op"]
    if k == "update":
        return (k, op["to"], op.get("from"), op.get("cls") or tuple(sorted(op["kw"])), "geometry" in op["kw"])
    if k == "setitem":
        return (k, op["key"], op.get("cls"))
    if k in ("load", "restore"):
        shape = op.get("cls") or tuple((e[0], e[1], "geometry" in e[2]) for e in op.get("edges") or ())
        return (k, op.get("via") or "from_edgelist", bool(op.get("arrays")), bool(op.get("tuples")), shape)
    return tuple([k] + [repr(op[x]) for x in sorted(op) if x not in ("op", "cls")])


def _far(nudge):
    M = np.eye(4)
    c, s_ = np.cos(0.3), np.sin(0.3)
    M[:2, :2] = [[c, -s_], [s_, c]]
    M[:3, 3] = [2500.0 + 0.01 * nudge, -4.0e5 + 1.0 * nudge, 100.0]
    return M


def alphabet():
    M1, M2, M3, M4, M5 = fixed_matrices()
    q = _unit([0.9, 0.1, -0.3, 0.2])
    A = [
        {"op": "update", "to": "a", "from": "world", "kw": {"matrix": M1}, "cls": "M1"},
        {"op": "update", "to": "b", "from": "a", "kw": {"quaternion": q, "translation": [0.5, -1.0, 2.0]}, "cls": "q+t"},
        {"op": "update", "to": "c", "from": "b", "kw": {"axis": _unit([1, -1, 2]), "angle": 1.3, "geometry": "g1"}, "cls": "aa"},
        {"op": "update", "to": "b", "from": "world", "kw": {"matrix": M2}, "cls": "M2sim"},
        {"op": "update", "to": "c", "from": "a", "kw": {"translation": [0.0, 2.0, -1.0]}, "cls": "t"},
        {"op": "update", "to": "a", "from": "world", "kw": {"matrix": M3}, "cls": "M3"},
        {"op": "update", "to": "a", "from": "c", "kw": {"matrix": M5}, "cls": "M5sim"},
        {"op": "update", "to": "a", "from": None, "kw": {"geometry": "g2"}, "cls": "geometry_only"},
        # an edge far from the origin, then the same edge moved by an amount that is tiny
        # RELATIVE to what is stored (1e-6 .. 4e-6) but far above the documented 1e-8 "unchanged"
        # tolerance: the update must not be swallowed by a relative comparison
        {"op": "update", "to": "a", "from": "world", "kw": {"matrix": _far(0.0)}, "cls": "M_far"},
        {"op": "update", "to": "a", "from": "world", "kw": {"matrix": _far(1.0)}, "cls": "M_far_nudged"},
        # re-parenting that keeps the local transform byte-identical (same grasp offset under
        # another parent): only the PARENT of the edge changes, so anything that identifies an
        # edge by its child or by its matrix alone cannot see it
        {"op": "update", "to": "b", "from": "world", "kw": {"quaternion": q, "translation": [0.5, -1.0, 2.0]}, "cls": "q+t_same_as_under_a"},
        {"op": "update", "to": "c", "from": "a", "kw": {"axis": _unit([1, -1, 2]), "angle": 1.3, "geometry": "g1"}, "cls": "aa_same_as_under_b"},
        {"op": "remove_node", "node": "a"},
        {"op": "remove_node", "node": "b"},
        {"op": "remove_geometries", "names": ["g1"]},
        {"op": "base", "name": "a"},
        {"op": "setitem", "key": "c", "matrix": M4, "cls": "M4"},
        {"op": "clear"},
        {"op": "copy"},
        {"op": "get", "to": "c", "from": None},
        {"op": "get", "to": "a", "from": "c"},
        {"op": "get", "to": "c", "from": "b"},
        {"op": "flatten"},
        {"op": "props"},
        {"op": "edgelist"},
        {"op": "getitem", "key": "c"},
        {"op": "get_absent", "to": ABSENT, "from": None},
    ]
    return A


def _prefix_chain():
    A = alphabet()
    return [A[0], A[1], A[2]]  # world -> a -> b -> c(g1)


def _prefix_tree():
    A = alphabet()
    return [A[0], A[3], A[4]]  # world -> a -> c, world -> b


def _prefix_near_chain():
    N = near_alphabet()
    return [N[0], N[1], N[2]]  # world -> a -> b -> c(g1), every edge an exact similarity with a scale next to one


PREFIXES = {"chain": _prefix_chain, "tree": _prefix_tree, "near_chain": _prefix_near_chain}


def _edge(u, v, M, geometry=None):
    attr = {"matrix": np.asarray(M, dtype=np.float64).tolist()}
    if geometry is not None:
        attr["geometry"] = geometry
    return [u, v, attr]


def load_alphabet():
    """
    Edge lists loaded into a graph that ALREADY EXISTS and has been queried (restore a saved
    state, merge a sub-tree, re-read a file into the same scene): `from_edgelist` / `load` are
    a batch of updates, so every answer given before the load that depends on a loaded edge has
    to change with it.  The lists change a matrix (E_chain: the chain world-a-b-c with every
    matrix different), a parent (E_move: b under world, c under a) of what the prefixes and the
    first three operations build; `restore` loads back the edges the initial forest had when it
    was complete (`snapshot` operations, used by the sampled histories, record the current edges
    of the reference forest) - whatever was edited, removed or asked in between.
    One more update class rides along: the edge world->a set to M1 and then to M1 with the
    SAME amount added to every entry of its three upper rows (a difference matrix that is
    constant over all free entries must not be mistaken for 'unchanged').
    """
    A = alphabet()
    M1, M2, M3, M4, M5 = fixed_matrices()
    shifted = M1.copy()
    shifted[:3] += 0.5
    T = np.eye(4)
    T[:3, 3] = [0.25, -4.0, 1.5]
    return [
        A[0],  # world -> a  M1
        A[1],  # a -> b      q+t
        A[2],  # b -> c      aa, g1
        {"op": "update", "to": "a", "from": "world", "kw": {"matrix": shifted}, "cls": "M1_upper_rows_shifted_uniformly"},
        {"op": "remove_node", "node": "b"},
        {"op": "get", "to": "c", "from": None},
        {"op": "get", "to": "a", "from": "c"},
        {"op": "load", "via": "from_edgelist", "arrays": True, "cls": "E_chain_other_matrices",
         "edges": [_edge("world", "a", M3), _edge("a", "b", M2), _edge("b", "c", M4, "g1")]},
        {"op": "load", "via": "load", "tuples": True, "cls": "E_move_b_and_c",
         "edges": [_edge("world", "b", M5), _edge("a", "c", T, "g3")]},
        # the state recorded when the initial forest was complete (run_history takes that snapshot;
        # without an initial forest there is nothing to restore and the history is pruned)
        {"op": "restore", "via": "load"},
    ]


def names_alphabet():
    """
    Operations run under every class of frame names: the chain, the two re-parents that keep the local
    transform and the geometry byte-identical (only the NAME of the parent changes), a removal, a
    base-frame change, two queries.
    """
    A = alphabet()
    return [A[0], A[1], A[2], A[10], A[11], A[13], A[15], A[19], A[20]]


def loop_alphabet():
    """
    Updates that name an ancestor of the parent frame - or the frame itself - as the child (the same
    edge given the other way round, a re-parent below an own descendant, a self edge on a frame that
    has a parent), mixed with ordinary edits and queries; run from the initial forests, where every
    one of them meets a structure in which it closes a loop.
    """
    A = alphabet()
    M1, M2, M3, M4, M5 = fixed_matrices()
    return [
        {"op": "update", "to": "world", "from": "a", "kw": {"matrix": M4}, "cls": "M4_world_seen_from_a"},
        {"op": "update", "to": "a", "from": "b", "kw": {"matrix": M3}, "cls": "M3_a_under_b"},
        A[6],  # a under c, similarity
        {"op": "update", "to": "a", "from": "a", "kw": {"matrix": M3}, "cls": "M3_self_edge"},
        {"op": "update", "to": "b", "from": "b", "kw": {"matrix": np.eye(4)}, "cls": "identity_self_edge"},
        A[1], A[4], A[13], A[19], A[20],
    ]


def near_alphabet():
    """
    Edges that are exact similarities with an INTENDED scale next to one (1 + 4e-6, 1 + 2e-6): every
    single edge lies inside the window in which get() repairs an answer, products of two or three leave
    it.  Run on a graph with the default repair_rigid and on one built with repair_rigid=None (which
    `copy` has to carry over).
    """
    M1, M2, M3, M4, M5 = fixed_matrices()
    S = np.eye(4)
    S[:3, 3] = [0.5, 0.0, -1.0]
    return [
        {"op": "update", "to": "a", "from": "world", "kw": {"matrix": near_unit(M1, 4e-6)}, "cls": "M1_near_unit"},
        {"op": "update", "to": "b", "from": "a", "kw": {"matrix": near_unit(M3, 4e-6)}, "cls": "M3_near_unit"},
        {"op": "update", "to": "c", "from": "b", "kw": {"matrix": near_unit(M4, 2e-6), "geometry": "g1"}, "cls": "M4_near_unit"},
        {"op": "update", "to": "c", "from": "a", "kw": {"matrix": near_unit(M4, 4e-6)}, "cls": "M4_near_unit_under_a"},
        {"op": "update", "to": "b", "from": "world", "kw": {"matrix": near_unit(S, 4e-6)}, "cls": "pure_scale_near_unit"},
        {"op": "copy"},
        {"op": "get", "to": "c", "from": None},
    ]


def _chain_edge(i, e, kind):
    M = _rigid(_unit([1.0, float(i % 3), float((i * 7) % 5 - 2)]), 0.3 + 0.1 * (i % 7), [float(i % 4), -float(i % 3), 0.5])
    return as_f32(M) if kind == "rigid_f32" else near_unit(M, e)


def deep_chain(run, k, e, kind, repair):
    """
    One history: a chain world - n1 - ... - nk of k edges of one kind, then the direct answer
    T(world, nk), the answers over every single edge, and three triples.  Judged: each answer against
    the reference forest; T(world, nk) against the product of the answers over its edges (the
    composition law applied along the path) at 1e-4 - ten repair windows - on a default graph.
    """
    from trimesh.scene.transforms import SceneGraph

    exact = repair is None
    case = {"deep_chain": {"k": k, "e": e, "kind": kind, "repair": repair}}
    if exact:
        run = _Suffixed(run, " option=repair_rigid_None")
    g = SceneGraph() if not exact else SceneGraph(repair_rigid=None)
    m = Forest("world")
    names = ["world"] + ["n%d" % i for i in range(1, k + 1)]
    for i in range(k):
        M = _chain_edge(i, e, kind)
        g.update(names[i + 1], names[i], matrix=M.copy())
        m.update(names[i + 1], names[i], M)
    mid = names[k // 2]
    ask = [(names[0], names[-1]), (names[-1], names[0]), (names[0], mid), (mid, names[-1]),
           (names[1], names[-1]), (names[0], names[-2])] + list(zip(names[:-1], names[1:]))
    real, bad = {}, 0
    for frm, to in ask:
        obs = real[(frm, to)] = observe_get(run, g, to, frm)
        v = judge_pair(m, frm, to, obs, exact)
        if v is not None:
            bad += 1
            run.violation("query=get sym=%s depth=deep edges=%s path=%s" % (v[0], kind, "edge" if (frm, to) in ask[6:] else "long"),
                          "transform over a deep chain differs from the product of the current edges",
                          dict(case, frame_from=frm, frame_to=to, observed=obs[1] if obs[0] == "ok" else obs, expected=v[1]))
    ok = {p2: v for p2, v in real.items() if v[0] == "ok"}
    if not bad and len(ok) == len(real):
        D = ok[(names[0], names[-1])][1]
        P = np.eye(4)
        for frm, to in zip(names[:-1], names[1:]):
            P = P @ ok[(frm, to)][1]
        run.count("law_checks")
        if not within(D, P, 10 * TOL if exact else 1e-4):
            bad += 1
            run.violation("law=compose_along_path edges=%s depth=deep sym=product_of_edge_answers_differs_from_direct_answer" % kind,
                          "T(world, nk) differs from T(world,n1).T(n1,n2)...T(nk-1,nk) by more than ten repair windows",
                          dict(case, direct=D, stepwise=P))
        five = [names[0], names[1], mid, names[-2], names[-1]]
        failed, n = check_laws(five, ok,
                               law_tolerance(exact, [_chain_edge(0, e, kind)]))
        run.count("law_checks", n)
        if failed and not bad:
            soft = kind == "near_unit_similarity" and not exact and not check_laws(five, ok, 1e-4)[0]
            for law in sorted({law for law, _ in failed}):
                run.violation(("law=%s edges=near_unit_similarity sym=answers_disagree_within_repair_window" % law) if soft
                              else "law=%s depth=deep edges=%s" % (law, kind),
                              "the real answers over a deep chain violate a law of the statement",
                              dict(case, frames=next(t for l2, t in failed if l2 == law)))
            bad += 1
    run.case("deep_chain:%s" % kind, k, e, repr(repair))
    return bad


# ----------------------------------------------------------------------------
# round 5: an edge that is set again and again to a matrix CLOSE TO THE STORED ONE (a jog)

# a rotation all of whose entries are 1/3 or 2/3 in magnitude: a turn by d changes no entry by more than
# d, i.e. by less than 1e-5 of the entry for d <= 3e-6 (no entry next to zero gives a small turn away)
_Q = np.array([[2.0, -1.0, 2.0], [2.0, 2.0, -1.0], [-1.0, 2.0, 2.0]]) / 3.0


def _pose(L, t):
    M = np.eye(4)
    M[:3, :3] = L
    M[:3, 3] = t
    return M


def assign_alphabet():
    """
    The edge world->a assigned (`graph[a] = M`) / updated to matrices that are close to the one it holds:
    the translation (hundreds of thousands of units out) moved by 5e-6 of itself, the frame turned by 2e-6
    rad - every entry within 1e-5 of its stored value RELATIVELY, none within 1e-8 absolutely - with a
    frame b hanging 1e6 units out on a, so that each of the steps moves T(world, b) by 14 .. 20 times the
    tolerance of the monitor.  Judged like every other update: the sweep that follows compares every
    answer with the reference forest.
    """
    t = np.array([2500.0, -4.0e5, 100.0])
    P0 = _pose(_Q, t)
    P1 = _pose(_Q, t * (1.0 + 5e-6))
    P2 = _pose(_Q @ _rigid([0, 0, 1], 2e-6, [0, 0, 0])[:3, :3], t)
    lever = _pose(np.eye(3), [1.0e6, 0.0, 0.0])
    return [
        {"op": "setitem", "key": "a", "matrix": P0, "cls": "P_far"},
        {"op": "setitem", "key": "a", "matrix": P1, "cls": "P_far_translation_5e-6_relative"},
        {"op": "setitem", "key": "a", "matrix": P2, "cls": "P_far_turned_2e-6"},
        {"op": "update", "to": "a", "from": "world", "kw": {"matrix": P1}, "cls": "P_far_translation_5e-6_relative"},
        {"op": "update", "to": "a", "from": None, "kw": {"matrix": P2}, "cls": "P_far_turned_2e-6"},
        {"op": "update", "to": "b", "from": "a", "kw": {"matrix": lever}, "cls": "lever_1e6"},
        {"op": "get", "to": "b", "from": None},
        {"op": "get", "to": "world", "from": "b"},
        {"op": "copy"},
    ]


JOG_ROUTES = ("setitem", "update_matrix", "update_matrix_from", "update_kwargs", "load", "scene_camera_transform")
JOG_CLASSES = ("far_translation", "small_turn_long_lever", "tiny_scene", "ordinary")


def jog_plan(rng, route, cls):
    """
    A jog: the first pose of the frame `arm`, the keyword arguments of every further step (each CLOSE to
    the pose before it, except in class `ordinary`), the frames hanging on it.  Poses close to the stored
    one: `far_translation` - translation 1e2 .. 1e6 units out, moved by 1e-6 .. 1e-4 of itself;
    `small_turn_long_lever` - a turn by 1e-9 .. 3e-6 rad of a frame that carries another one 1e4 .. 1e7
    units out; `tiny_scene` - a scene modelled in units of 1e-9 (every matrix differs from every other by
    a few 1e-9 absolutely).  Rotations are exact in double precision (outside the repair window of get()).
    """
    kwargs_route = route == "update_kwargs"
    n = int(rng.integers(3, 7))
    axis = _unit(rng.normal(size=3))
    angle = float(rng.uniform(0.3, 2.5))

    def kw_of(ang, t):
        if kwargs_route:
            return {"axis": axis.copy(), "angle": float(ang), "translation": [float(v) for v in t]}
        M = _rigid(axis, float(ang), [float(v) for v in t])
        return {"matrix": M}

    steps = []
    tool = _rigid(_unit(rng.normal(size=3)), float(rng.uniform(0.3, 2.5)), rng.uniform(-2, 2, size=3))
    tip = _rigid(_unit(rng.normal(size=3)), float(rng.uniform(0.3, 2.5)), rng.uniform(-2, 2, size=3))
    if cls == "far_translation":
        t = rng.uniform(0.2, 1.0, size=3) * rng.choice([-1.0, 1.0], size=3) * 10.0 ** float(rng.uniform(2, 6))
        for _ in range(n):
            steps.append(kw_of(angle, t))
            r = 10.0 ** float(rng.uniform(-6, -4))
            t = t * (1.0 + r * rng.choice([-1.0, 1.0, 1.0], size=3))
    elif cls == "small_turn_long_lever":
        if rng.random() < 0.4:
            angle = 0.0  # starts at the identity: a turn by 2e-9 is within 1e-8 of it absolutely
        t = rng.uniform(-3, 3, size=3)
        tool = _pose(np.eye(3), _unit(rng.normal(size=3)) * 10.0 ** float(rng.uniform(4, 7)))
        # the lever has to stand across the axis for the turn to move its far end
        tool[:3, 3] -= 0.9 * axis * float(axis @ tool[:3, 3])
        for _ in range(n):
            steps.append(kw_of(angle, t))
            angle = angle + float(rng.choice([-1.0, 1.0])) * 10.0 ** float(rng.uniform(-9, -5.5))
    elif cls == "tiny_scene":
        angle = float(rng.choice([0.0, np.pi / 2]))
        axis = np.array([0.0, 0.0, 1.0])
        tool = _pose(np.eye(3), rng.integers(-9, 10, size=3) * 1e-9)
        tip = _pose(np.eye(3), rng.integers(-9, 10, size=3) * 1e-9)
        for _ in range(n):
            steps.append(kw_of(angle, rng.integers(-9, 10, size=3) * 1e-9 + 1e-9))
    else:
        for _ in range(n):
            axis = _unit(rng.normal(size=3))
            steps.append(kw_of(float(rng.uniform(0.3, 2.5)), rng.uniform(-5, 5, size=3)))
    return {"route": route, "cls": cls, "steps": [_jsonable_kw(s) for s in steps], "tool": tool.tolist(), "tip": tip.tolist(),
            "silent": [bool(rng.random() < 0.25) for _ in steps], "repair": None if rng.random() < 0.2 else "default",
            "base": "world" if rng.random() < 0.7 else "floor"}


def jog(run, plan):
    """
    One history: base -> arm -> tool -> tip; the edge base->arm is set again and again through ONE route
    (graph[arm] = M, update(arm, matrix=M), update(arm, base, matrix=M), update(arm, axis=, angle=,
    translation=), an edge list loaded into the graph, scene.camera_transform = M), every answer that
    depends on it is read after each step (some steps pass unobserved: small steps have to add up) and
    compared with the plain numpy product of the matrices last set.  The width of the comparison follows
    from the step: an answer may differ from the product by a tenth of what the step changed in it (plus
    1e-12 of its largest entry for the arithmetic) - `a change to any edge is visible in every dependent
    query immediately`.
    """
    from trimesh.scene.transforms import SceneGraph

    route, cls, base = plan["route"], plan["cls"], plan["base"]
    case = {"jog": plan}
    exact = plan["repair"] is None
    tool, tip = np.array(plan["tool"], dtype=np.float64), np.array(plan["tip"], dtype=np.float64)
    steps = [_kw_from_json(s) for s in plan["steps"]]
    scene = None
    if route == "scene_camera_transform":
        import trimesh

        scene = trimesh.Scene(base_frame=base)
        g = scene.graph
        arm = scene.camera.name
    else:
        g = SceneGraph(base_frame=base, **({"repair_rigid": None} if exact else {}))
        arm = "arm"

    def send(kw):
        kw = {k: (np.array(v, dtype=np.float64) if isinstance(v, np.ndarray) else v) for k, v in kw.items()}
        if route == "setitem":
            g[arm] = kw["matrix"]
        elif route == "update_matrix":
            g.update(arm, matrix=kw["matrix"])
        elif route == "update_matrix_from":
            g.update(arm, base, matrix=kw["matrix"])
        elif route == "update_kwargs":
            g.update(arm, **kw)
        elif route == "load":
            g.from_edgelist([[base, arm, {"matrix": kw["matrix"].tolist()}]])
        else:
            scene.camera_transform = kw["matrix"]

    def expected(P):
        W = {arm: P, "tool": P @ tool, "tip": P @ tool @ tip}
        return {
            ("get_edge", base, arm): W[arm], ("get_dependent", base, "tool"): W["tool"], ("get_dependent", base, "tip"): W["tip"],
            ("get_inverse", arm, base): np.linalg.inv(W[arm]), ("get_inverse", "tip", base): np.linalg.inv(W["tip"]),
            ("get_unaffected", arm, "tip"): tool @ tip,
        }

    bad = 0
    E_old = None
    P = None
    try:
        for i, kw in enumerate(steps):
            P_new = kwargs_matrix(kw)
            CTX["op"] = "jog"
            try:
                send(kw)
                if i == 0:
                    g.update("tool", arm, matrix=tool.copy())
                    g.update("tip", "tool", matrix=tip.copy(), geometry="g1")
            finally:
                CTX["op"] = None
            P = P_new
            E = expected(P)
            if i and plan["silent"][i] and i + 1 < len(steps):
                run.count("jog_steps_unobserved")
                E_old = E
                continue
            reads = []
            with plain_reads():
                for (q, frm, to) in E:
                    reads.append((q, frm, to, observe_get(run, g, to, frm)))
                reads.append(("getitem", base, "tool", observe_get(run, g, "tool", base, item=True)))
                try:
                    flat = g.to_flattened()
                    reads.append(("to_flattened", base, "tip", ("ok", np.array(flat["tip"]["transform"], dtype=np.float64), None, False)))
                except Exception as e:
                    reads.append(("to_flattened", base, "tip", ("error", type(e).__name__)))
                try:
                    el = {(e[0], e[1]): e[2] for e in g.to_edgelist()}
                    reads.append(("to_edgelist", base, arm, ("ok", np.array(el[(base, arm)].get("matrix", np.eye(4)), dtype=np.float64), None, False)))
                except Exception as e:
                    reads.append(("to_edgelist", base, arm, ("error", type(e).__name__)))
                if scene is not None:
                    try:
                        reads.append(("scene.camera_transform", base, arm, ("ok", np.array(scene.camera_transform, dtype=np.float64), None, False)))
                    except Exception as e:
                        reads.append(("scene.camera_transform", base, arm, ("error", type(e).__name__)))
            alias = {"getitem": ("get_dependent", base, "tool"), "to_flattened": ("get_dependent", base, "tip"),
                     "to_edgelist": ("get_edge", base, arm), "scene.camera_transform": ("get_edge", base, arm)}
            for q, frm, to, obs in reads:
                k3 = alias.get(q, (q, frm, to))
                En = E[k3]
                run.count("jog_reads")
                if obs[0] != "ok":
                    sym = "raised_connected" if obs[0] == "raise" else "exception:%s" % obs[1]
                else:
                    R = obs[1]
                    scale = max(1.0, float(np.abs(En).max()))
                    effect = float(np.abs(En - E_old[k3]).max()) if E_old is not None else 0.0
                    floor = 1e-12 * scale
                    if R.shape != En.shape or not np.isfinite(R).all():
                        sym = "wrong_matrix"
                    elif effect < 1e3 * floor:
                        # the first pose, or a step that does not show in this answer (or drowns in its
                        # arithmetic): judged at the tolerance of the monitor
                        sym = None if within(En, R, TOL) else "wrong_matrix"
                    else:
                        run.count("jog_reads_judged_at_a_tenth_of_the_step")
                        err = float(np.abs(R - En).max())
                        if err <= 0.1 * effect + floor:
                            sym = None
                        elif float(np.abs(R - E_old[k3]).max()) <= 0.1 * effect + floor:
                            sym = "answer_is_the_pose_before_the_step"
                        else:
                            sym = "wrong_matrix"
                if sym is not None:
                    bad += 1
                    run.violation("jog route=%s step=%s query=%s sym=%s%s" % (route, cls if i else "first", q, sym,
                                                                            " option=repair_rigid_None" if exact and scene is None else ""),
                                  "an edge was set to a new matrix and an answer that depends on it does not show the new matrix",
                                  dict(case, step=i, query=q, frame_from=frm, frame_to=to,
                                       observed=obs[1] if obs[0] == "ok" else obs, expected=En,
                                       expected_before_the_step=None if E_old is None else E_old[k3]))
                    break  # one key per jog: the first answer (in reading order) that is wrong
            E_old = E
            if bad:
                break
    except Exception as e:
        bad += 1
        run.violation("jog route=%s step=%s sym=exception:%s" % (route, cls, type(e).__name__), "a scene-graph edit raised",
                      dict(case, error=repr(e)[:200]))
    run.case("jog:%s:%s" % (route, cls), repr(plan["steps"]), plan["base"], repr(plan["repair"]), repr(plan["silent"]))
    run.count("jogs")
    return bad


NAMES = ["world", "a", "b", "c", "d", "e"]
GEOMS = ["g1", "g2", "g3"]


def random_history(rng, pyrng, n):
    """Random operations; applicability (loops) is decided when the history runs."""
    ops = []
    for _ in range(n):
        r = pyrng.random()
        if r < 0.07:
            r2 = pyrng.random()
            if r2 < 0.15:
                ops.append({"op": "snapshot"})
            elif r2 < 0.6:
                # save the state somewhere earlier in the history, put it back now
                ops.insert(pyrng.randrange(len(ops) + 1), {"op": "snapshot"})
                ops.append({"op": "restore", "via": pyrng.choice(["load", "from_edgelist"])})
            else:
                edges, classes = [], []
                for _e in range(pyrng.choice([1, 1, 2, 3, 4])):
                    v = pyrng.choice(NAMES[1:])
                    u = pyrng.choice([x for x in NAMES if x != v])
                    cls, kw = random_kwargs(rng)
                    edges.append(_edge(u, v, kwargs_matrix(kw), pyrng.choice([None, None] + GEOMS)))
                    classes.append(cls)
                ops.append({"op": "load", "via": pyrng.choice(["load", "from_edgelist"]),
                            "arrays": pyrng.random() < 0.5, "tuples": pyrng.random() < 0.3,
                            "edges": edges, "cls": tuple(classes)})
        elif r < 0.42:
            to = pyrng.choice(NAMES[1:] if pyrng.random() < 0.9 else NAMES)
            frm = pyrng.choice([None, None] + NAMES)
            cls, kw = random_kwargs(rng)
            g = pyrng.random()
            if g < 0.25:
                kw["geometry"] = pyrng.choice(GEOMS)
            elif g < 0.30:
                cls, kw = "geometry_only", {"geometry": pyrng.choice(GEOMS)}
            ops.append({"op": "update", "to": to, "from": frm, "kw": kw, "cls": cls})
        elif r < 0.50:
            ops.append({"op": "remove_node", "node": pyrng.choice(NAMES)})
        elif r < 0.54:
            ops.append({"op": "remove_geometries", "names": pyrng.sample(GEOMS, pyrng.choice([1, 1, 2]))})
        elif r < 0.60:
            ops.append({"op": "base", "name": pyrng.choice(NAMES)})
        elif r < 0.66:
            cls, kw = random_kwargs(rng)
            ops.append({"op": "setitem", "key": pyrng.choice(NAMES[1:]), "matrix": kwargs_matrix(kw), "cls": cls})
        elif r < 0.68:
            ops.append({"op": "clear"})
        elif r < 0.72:
            ops.append({"op": "copy"})
        elif r < 0.86:
            ops.append({"op": "get", "to": pyrng.choice(NAMES), "from": pyrng.choice([None] + NAMES)})
        elif r < 0.89:
            ops.append({"op": "getitem", "key": pyrng.choice(NAMES)})
        elif r < 0.92:
            ops.append({"op": "flatten"})
        elif r < 0.95:
            ops.append({"op": "props"})
        elif r < 0.98:
            ops.append({"op": "edgelist"})
        else:
            ops.append({"op": "get_absent", "to": ABSENT, "from": pyrng.choice([None, "a"])})
    return ops


def record(run, tag, ops, res, prefix=None, variant=None):
    st, applied, bad = res
    nt = st.changed > (3 if prefix else 0)
    run.case(tag, tuple(op_digest(o) for o in ops), prefix, *([variant] if variant else []), nontrivial=nt,
             sample={"history": [_jsonable_op(o) for o in ops]} if nt and run.evaluations % 1499 == 0 else None)
    if st.query_before_mutation:
        run.count("histories_with_query_before_mutation")
    if st.m.former:
        run.count("histories_ending_with_a_former_edge")
    if st.m.reparented_onto_former:
        run.count("histories_reparenting_onto_a_former_edge")
    if st.ghost:
        run.count("histories_with_absent_frame_query")
    if any(o["op"] in ("load", "restore") for o in ops):
        run.count("histories_loading_an_edge_list")


def workload(run):
    CTX["run"] = run
    for k in CONTRACT:
        CONTRACT[k] = 0
    uninstall = install_contracts(run)
    try:
        _workload(run)
    finally:
        CTX["run"] = None
        if uninstall:
            uninstall()
    run.note("contract_evaluations", dict(CONTRACT))
    if uninstall is not None:
        for name in ("edges_match_parents", "hash_memo_fresh"):
            if CONTRACT[name] == 0:
                run.inconclusive("class invariant %s was never evaluated" % name)


def _workload(run):
    A = alphabet()
    run.note("alphabet", [str(op_digest(o)) for o in A])
    idx = 0
    done_enum = True
    # edge lists loaded into an existing, already queried graph (cheap: runs first so that a slow
    # machine cannot squeeze it out)
    L = load_alphabet()
    run.note("load_alphabet", [str(op_digest(o)) for o in L])
    for prefix in (None, ("chain", True), ("tree", True), ("chain", False)):
        for n in ((1, 2, 3) if prefix is None else (1, 2)):
            for combo in itertools.product(range(len(L)), repeat=n):
                idx += 1
                if not run.mine(idx):
                    continue
                if run.out_of_time(0.5):
                    done_enum = False
                    break
                ops = [L[i] for i in combo]
                res = run_history(run, ops, idx, False, "enum", prefix=prefix)
                if res is None:
                    run.count("enumerated_histories_pruned_not_applicable")
                    continue
                tag = "len%d" % n if prefix is None else "%s_%s+len%d" % (prefix[0], "warm" if prefix[1] else "cold", n)
                record(run, "enum_load:" + tag, ops, res, prefix)
    run.note("load_enumeration_seconds", round(run.elapsed(), 1))
    # ---- classes added in round 4 (cheap, seed independent, run before the big enumeration)
    t0 = run.elapsed()
    # (a) other classes of frame names
    NA = names_alphabet()
    run.note("names_alphabet", [str(op_digest(o)) for o in NA])
    for names in ("int_equal_hash", "tuple_equal_hash", "same_text"):
        for prefix, lens in ((("chain", True), (1, 2)), (("tree", True), (1,)), (None, (1,))):
            for n in lens:
                for combo in itertools.product(range(len(NA)), repeat=n):
                    idx += 1
                    if not run.mine(idx):
                        continue
                    if run.out_of_time(0.5):
                        done_enum = False
                        break
                    ops = [NA[i] for i in combo]
                    res = run_history(run, ops, idx, False, "enum", prefix=prefix, names=names)
                    if res is None:
                        run.count("enumerated_histories_pruned_not_applicable")
                        continue
                    run.count("histories_under_name_class:" + names)
                    record(run, "enum_names:%s" % names, ops, res, prefix, variant=names)
    # (b) updates that would close a loop
    LA = loop_alphabet()
    run.note("loop_alphabet", [str(op_digest(o)) for o in LA])
    for prefix, lens in ((("chain", True), (1, 2)), (("tree", True), (1,)), (("chain", False), (1,))):
        for n in lens:
            for combo in itertools.product(range(len(LA)), repeat=n):
                idx += 1
                if not run.mine(idx):
                    continue
                if run.out_of_time(0.5):
                    done_enum = False
                    break
                ops = [LA[i] for i in combo]
                res = run_history(run, ops, idx, False, "enum", prefix=prefix, loops=True)
                if res is None:
                    run.count("enumerated_histories_pruned_not_applicable")
                    continue
                record(run, "enum_loops:%s_%s+len%d" % (prefix[0], "warm" if prefix[1] else "cold", n), ops, res, prefix,
                       variant="loops")
    # (c) intended scales next to one, default repair_rigid and repair_rigid=None
    NU = near_alphabet()
    run.note("near_unit_alphabet", [str(op_digest(o)) for o in NU])
    for repair in ("default", None):
        for prefix, lens in ((None, (1, 2)), (("near_chain", True), (1, 2))):
            for n in lens:
                for combo in itertools.product(range(len(NU)), repeat=n):
                    idx += 1
                    if not run.mine(idx):
                        continue
                    if run.out_of_time(0.5):
                        done_enum = False
                        break
                    ops = [NU[i] for i in combo]
                    res = run_history(run, ops, idx, False, "enum", prefix=prefix, repair=repair)
                    if res is None:
                        run.count("enumerated_histories_pruned_not_applicable")
                        continue
                    record(run, "enum_near_unit:repair_rigid=%s" % repair, ops, res, prefix, variant=repr(repair))
    # (d) deep chains
    j = 0
    # (64 edges: the library's multi_dot spends O(n^3) on the order of a chain product)
    for kind, k, e, repair in (("near_unit_similarity", 64, 4e-6, "default"), ("near_unit_similarity", 64, 4e-6, None),
                               ("rigid_f32", 64, 0.0, "default")):
        j += 1
        if run.mine(j):
            deep_chain(run, k, e, kind, repair)
    run.note("round4_enumeration_seconds", round(run.elapsed() - t0, 1))
    # ---- classes added in round 5 (cheap; the fixed part is seed independent)
    t0 = run.elapsed()
    # (e) graph[a] = M / update with a matrix close to the stored one, a frame on a long lever below
    AA = assign_alphabet()
    run.note("assign_alphabet", [str(op_digest(o)) for o in AA])
    run_a = _Suffixed(run, "hist=assign_near_stored")
    for prefix, lens in ((None, (1, 2, 3)),):
        for n in lens:
            for combo in itertools.product(range(len(AA)), repeat=n):
                idx += 1
                if not run.mine(idx):
                    continue
                if run.out_of_time(0.5):
                    done_enum = False
                    break
                ops = [AA[i] for i in combo]
                res = run_history(run_a, ops, idx, False, "enum", prefix=prefix)
                if res is None:
                    run.count("enumerated_histories_pruned_not_applicable")
                    continue
                record(run, "enum_assign_near_stored:len%d" % n, ops, res, prefix)
    # (f) jogs: every route x every class of step, from a fixed generator
    fixed = np.random.default_rng(20240905)
    j = 0
    for rep in range(2 if run.tier == "quick" else 6):
        for route in JOG_ROUTES:
            for cls in JOG_CLASSES:
                plan = jog_plan(fixed, route, cls)
                j += 1
                if run.mine(j) and not run.out_of_time(0.5):
                    jog(run, plan)
    run.note("round5_enumeration_seconds", round(run.elapsed() - t0, 1))
    # the enumeration is the seed-independent core: it may use nearly the whole budget on a slow
    # machine (the sampled histories then get what is left); not finishing it is inconclusive
    frac = 0.93 if run.tier == "quick" else 0.5
    for n in (1, 2, 3):
        for combo in itertools.product(range(len(A)), repeat=n):
            idx += 1
            if not run.mine(idx):
                continue
            if run.out_of_time(frac):
                done_enum = False
                break
            ops = [A[i] for i in combo]
            res = run_history(run, ops, idx, False, "enum")
            if res is None:
                run.count("enumerated_histories_pruned_not_applicable")
                continue
            record(run, "enum:len%d" % n, ops, res)
        if not done_enum:
            break
    # the same alphabet from non-empty initial forests (deep paths exist, caches warm or cold)
    for prefix in (("chain", True), ("tree", True), ("chain", False)):
        if not done_enum:
            break
        for n in (1, 2):
            for combo in itertools.product(range(len(A)), repeat=n):
                idx += 1
                if not run.mine(idx):
                    continue
                if run.out_of_time(frac):
                    done_enum = False
                    break
                ops = [A[i] for i in combo]
                res = run_history(run, ops, idx, False, "enum", prefix=prefix)
                if res is None:
                    run.count("enumerated_histories_pruned_not_applicable")
                    continue
                record(run, "enum:%s_%s+len%d" % (prefix[0], "warm" if prefix[1] else "cold", n), ops, res, prefix)
            if not done_enum:
                break
    # single-precision edges (rigid and mirrored): every answer through them lies in get()'s repair band
    M1, M2, M3, M4, M5 = fixed_matrices()
    Fm = M3.copy()
    Fm[:3, 1] *= -1.0
    Fn = M4.copy()
    Fn[:3, 0] *= -1.0
    B = [
        {"op": "update", "to": "a", "from": "world", "kw": {"matrix": as_f32(M1)}, "cls": "matrix_rigid_f32"},
        {"op": "update", "to": "b", "from": "a", "kw": {"matrix": as_f32(Fm)}, "cls": "matrix_mirror_f32"},
        {"op": "update", "to": "c", "from": "b", "kw": {"matrix": as_f32(M4)}, "cls": "matrix_rigid_f32"},
        {"op": "update", "to": "c", "from": "world", "kw": {"matrix": as_f32(Fn), "geometry": "g1"}, "cls": "matrix_mirror_f32"},
        {"op": "update", "to": "b", "from": "world", "kw": {"matrix": M3}, "cls": "M3"},
        {"op": "get", "to": "c", "from": "a"},
        {"op": "copy"},
    ]
    for n in (1, 2, 3):
        for combo in itertools.product(range(len(B)), repeat=n):
            idx += 1
            if not run.mine(idx) or run.out_of_time(0.96):
                continue
            ops = [B[i] for i in combo]
            res = run_history(run, ops, idx, False, "enum")
            if res is None:
                run.count("enumerated_histories_pruned_not_applicable")
                continue
            record(run, "enum_f32:len%d" % n, ops, res)
    run.note("enumeration_complete", done_enum)
    run.note("enumeration_seconds", round(run.elapsed(), 1))
    if not done_enum:
        run.inconclusive("enumeration of the length<=3 histories did not finish within the budget")
    maxlen = 8 if run.tier == "quick" else 12
    k = 0
    while not run.out_of_time(0.95):
        k += 1
        if k % 5 == 0:
            jog(run, jog_plan(run.rng, JOG_ROUTES[int(run.rng.integers(len(JOG_ROUTES)))],
                              JOG_CLASSES[int(run.rng.integers(len(JOG_CLASSES)))]))
            continue
        n = int(run.rng.integers(4, maxlen + 1))
        ops = random_history(run.rng, run.pyrng, n)
        r = run.pyrng.random()
        names = "str" if r < 0.7 else ("int_equal_hash" if r < 0.8 else ("tuple_equal_hash" if r < 0.9 else "same_text"))
        repair = None if run.pyrng.random() < 0.15 else "default"
        loops = run.pyrng.random() < 0.5
        res = run_history(run, ops, k, True, "random", names=names, repair=repair, loops=loops)
        if names != "str":
            run.count("histories_under_name_class:" + names)
        if repair is None:
            run.count("histories_on_graph_with_repair_rigid_None")
        record(run, "random:len%d" % n, ops, res, variant=(names, repr(repair), loops))


def replay(run, case):
    CTX["run"] = run
    uninstall = install_contracts(run)
    try:
        if case.get("deep_chain"):
            deep_chain(run, **case["deep_chain"])
            return
        if case.get("jog"):
            jog(run, case["jog"])
            return
        ops = [_op_from_json(o) for o in case["history"]]
        prefix = tuple(case["prefix"]) if case.get("prefix") else None
        res = run_history(run, ops, int(case.get("order", 0)), bool(case.get("sweep_every", True)), "replay", prefix=prefix,
                          names=case.get("names") or "str",
                          repair=None if case.get("repair_rigid", "default") is None else "default",
                          loops=bool(case.get("loops")))
        if res is not None:
            run.case("replay", tuple(op_digest(o) for o in ops))
    finally:
        CTX["run"] = None
        if uninstall:
            uninstall()
