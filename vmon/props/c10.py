"""
C10 - scene-level quantities equal explicit placement of every instance.

Oracle = explicit placement.  A reference model of the scene (the dict forest of
vmon/oracle/forest.py + plain copies of every geometry's arrays) is stepped alongside the real
`trimesh.Scene`.  For every frame that references a geometry the world matrix W comes from the
reference forest, the geometry's vertices are placed with W.p (2-D paths lifted to z = 0) and
everything else is plain numpy on the placed points:

  bounds / extents / centroid   min / max / box centre over all placed vertices
  area                          sum of placed triangle areas (+ polygon area of a 2-D path times
                                the area factor |W e1 x W e2| of the plane z = 0)
  volume                        sum of det(a, b, c) / 6 over placed triangles
  triangles, triangles_node     placed triangles, as a multiset per node
  convex_hull                   scipy hull of the placed points: same volume, mutual containment
  dump / to_mesh / to_geometry  placed vertex arrays per node / concatenated triangles

Histories: build a scene (G-scene), read (so that Scene._cache and the graph caches are warm),
edit the graph and the geometries (incl. in-place vertex writes to a shared geometry), read
again after every edit; finally derive scenes (copy, scaled uniform / per axis, rezero,
convert_units, apply_transform, +, append_scenes with name clashes, subscene): the placements
of the derived scene - recomputed from its RAW graph records and geometry arrays, not through
any scene read - must be the source placements scaled / moved accordingly, its own cached reads
must agree, and a deep snapshot of the source (array bytes, raw graph records) must not change.

Round 5: the in-place convenience routes `apply_translation` (a vector of a few units of the scene - at most 1e-8 per
component in the `small` regime -, a step that is small next to the scene but a hundred times the tolerance) and
`apply_scale` (one factor, per axis, within 1e-5 of one) are derived operations too; and the derived operations RUN
TWICE with a frame added in between (`derive_again`: everything derived once incl. the sub-scene of the base frame, a
new instance / geometry hung below the base frame or an inner frame, often a second one below the first, then
sub-scenes / apply_transform / apply_translation / copy / + again).  A key of the second round carries
`history=derived_operations_then_new_frame_then_derived_again` when the same operation on the same scene rebuilt from
scratch (same edits, nothing derived before) is judged right.

Regimes (set per scenario, see `regime()`): exact float64 matrices and coordinates of order 1 (absolute
1e-6 x size); `lowprec` - rotation factors of rigid / similarity edges as a float32 or six-decimal source
delivers them (judged at the documented repair_rigid = 1e-5 x size: re-orthogonalising a rigid world matrix is
allowed, losing the scale of a similarity is not); `small` - vertices and translations in a unit of 1e-9, so
that world / edge matrices within 1e-8 of the identity occur (tolerance relative to the coordinates: an
absolute `is identity` shortcut is then an error of several times the size of the geometry).

The `kinds` family (one special geometry class per scene, next to ordinary meshes / point clouds): a Trimesh /
Path2D / Path3D with a vertex nothing references, paths with arcs (a full circle given by control points on one
half, a 240 degree arc), Box / Cylinder primitives, a VoxelGrid.  Their bounds are those of the placed geometry
(referenced vertices, the arc itself to within the sagitta of its discretisation, the voxel box), not of a raw
array; keys of this family end in ` special=<class>` unless the graph alone explains the symptom.

Histories may end with `scene.graph.base_frame = <another frame of the tree>` (reads only are judged in that state:
the derived operations are written for a base frame that is the root of its tree).

A subscene is every instance at or below the requested frame, relative to that frame - the instance that sits on
the frame itself included (round 4: `successors(node)` contains `node`, the docstring says "the part of the scene
that succeeds the node", and for a leaf frame nothing else could be meant).

Not judged (statement silent): scenes whose geometry frames are not connected to the base
frame; triangles / to_mesh / convex_hull of a scene without any triangle / vertex (may refuse);
geometry kept in `scene.geometry` without any frame;
center_mass / moment_inertia on scenes that contain anything but closed meshes; per-axis `scaled` of a scene with a
primitive (a Box / Cylinder cannot take it and stay one: ValueError accepted); NOT_JUDGED_SPECIAL below.
When the real scene graph itself answers differently from the reference forest (property C09)
this is reported once under its own key and the scene reads are then judged against the
graph's own answers, so that C10 keys describe scene-level mechanisms only.
"""

from __future__ import annotations

import itertools
import json

import numpy as np

from vmon.gen import mesh as gmesh
from vmon.oracle.forest import Forest, axis_angle_to_matrix

PROP = "C10"
LEVEL = "exploration"
RULE = (
    "G-scene: forests of 1-8 frames (depth <= 4) under the base frame with rigid or similarity edges "
    "(identity / axis-aligned / general rotations), 1-4 geometries of kinds Trimesh, PointCloud, Path3D, "
    "Path2D instanced 0 / 1 / many times; a fixed battery (kind x edge class x depth x instancing) plus "
    "random scenes; each scene: reads, 0-4 edits (edge update, re-parent, leaf removal, new instance, new "
    "geometry, delete_geometry, in-place vertex writes, geometry transform / replacement) with reads after "
    "each, then every derived-scene operation (incl. a copy that is edited afterwards). Two more regimes of the "
    "same scenes: `lowprec` (rotation factors of rigid / similarity edges in single precision or six decimals, judged "
    "at the documented repair_rigid = 1e-5 x size) and `small` (vertices and translations in a unit of 1e-9, "
    "translation-only edges frequent, Trimesh / PointCloud / Path3D, tolerance relative to the coordinates). A `kinds` "
    "family (battery + 1 random scene in 8): one of {mesh / path with an unreferenced vertex, paths with arcs, Box / "
    "Cylinder primitive, VoxelGrid} instanced 1-3 times next to ordinary geometry, graph edits and geometry transforms "
    "only. Histories may end with the base frame moved to another frame of the tree (reads only); derived operations "
    "include scale factors within 1e-5 of one and the subscene of inner and leaf frames that carry an instance, the "
    "apply_translation / apply_scale routes (vectors <= 1e-8 per component in the small regime, steps of 1e-4 x size), and - "
    "every other battery scene, 40 % of the random ones - a second round of derived operations after a new frame (or a chain "
    "of two) was added. A case is one (scene, edits, derived op) execution; distinct = "
    "distinct (forest shape, kinds per frame, edge classes, edit kinds, operation, option class); non-trivial "
    "= the scene has at least one placed instance whose world matrix is not the identity."
)
ANCHORS = [
    "trimesh/scene/scene.py:Scene.bounds_corners",
    "trimesh/scene/scene.py:Scene.bounds",
    "trimesh/scene/scene.py:Scene.extents",
    "trimesh/scene/scene.py:Scene.centroid",
    "trimesh/scene/scene.py:Scene.area",
    "trimesh/scene/scene.py:Scene.volume",
    "trimesh/scene/scene.py:Scene.triangles",
    "trimesh/scene/scene.py:Scene.triangles_node",
    "trimesh/scene/scene.py:Scene.convex_hull",
    "trimesh/scene/scene.py:Scene.dump",
    "trimesh/scene/scene.py:Scene.to_mesh",
    "trimesh/scene/scene.py:Scene.to_geometry",
    "trimesh/scene/scene.py:Scene.center_mass",
    "trimesh/scene/scene.py:Scene.moment_inertia",
    "trimesh/inertia.py:scene_inertia",
    "trimesh/scene/scene.py:Scene.scaled",
    "trimesh/scene/scene.py:Scene.convert_units",
    "trimesh/scene/scene.py:Scene.copy",
    "trimesh/scene/scene.py:Scene.rezero",
    "trimesh/scene/scene.py:Scene.apply_transform",
    "trimesh/scene/scene.py:Scene.subscene",
    "trimesh/scene/scene.py:Scene.__add__",
    "trimesh/scene/scene.py:append_scenes",
    "trimesh/scene/scene.py:Scene.add_geometry",
    "trimesh/scene/scene.py:Scene.delete_geometry",
    "trimesh/scene/scene.py:Scene.__hash__",
    "trimesh/util.py:concatenate",
    "trimesh/units.py:unit_conversion",
]
SHARDS = {"quick": 1, "thorough": 8}
BUDGET = {"quick": 70, "thorough": 300}
MIN_EVENTS = {"quick": 400, "thorough": 3000}
ASSUMPTIONS = [
    "the reference forest of C09 gives the world matrix of a frame (product of the current edges)",
    "scipy.spatial.ConvexHull is used as the reference hull of the placed points",
    "Scene.centroid is the centre of the bounding box (as documented), not a mass centroid",
    "SceneGraph(repair_rigid=1e-5) may move a world matrix that is rigid to within 1e-5 by up to 1e-5 per entry "
    "(low-precision regime only); in the small-unit regime convex_hull / center_mass / moment_inertia are not judged "
    "(qhull and the mass properties of a bare mesh of size 1e-9 have absolute thresholds of their own)",
    "the raw records of a derived scene (parents, edge_data[(parent, child)]['matrix'], node_data geometry, "
    "geometry arrays) define its placements; no scene read of the derived scene is trusted for that",
]
EXHAUSTIVE = {"quick": False, "thorough": False}

RTOL = 1e-7


class _Tol:
    """
    Tolerance regime of the scene being judged (set per scenario by `regime()`):
      r      relative tolerance (x10 x magnitude of the placed coordinates)
      floor  smallest magnitude the tolerance is relative to.  1.0 for ordinary scenes (i.e. an
             absolute 1e-6); the unit of length of a `small` scene, where rounding is relative
             to coordinates of that size and nothing else excuses an error
      w      allowed |graph world matrix - product of the edges| per entry
    """

    r = RTOL
    floor = 1.0
    w = RTOL


TOL = _Tol()
# documented constant: SceneGraph(repair_rigid=1e-5) re-orthogonalises world matrices that are rigid to
# within 1e-5; generated low-precision rotations deviate by <= 2e-6, results are judged at 1e-5 x size
REPAIR_RIGID = 1e-5
SMALL_UNIT = 1e-9
NEAR_IDENTITY = 1e-8  # `is identity` shortcuts of transform_points / apply_transform
NI_DROPPED = "near_identity_world_transform_dropped"


def regime(name):
    if name == "lowprec":
        TOL.r, TOL.floor, TOL.w = REPAIR_RIGID / 10.0, 1.0, REPAIR_RIGID
    elif name == "small":
        TOL.r, TOL.floor, TOL.w = RTOL, SMALL_UNIT, RTOL
    else:
        TOL.r, TOL.floor, TOL.w = RTOL, 1.0, RTOL
KINDS = ("mesh", "cloud", "path3", "path2")
SCALES = (0.5, 2.0, 0.8, 1.25)


# ----------------------------------------------------------------------------
# geometry: real object + plain reference copy


class GeomModel:
    """
    kind   mesh | cloud | path3 | path2 | voxel
    sub    None (every row of V is used by the geometry and bounds it), or - scenes of the `kinds` family -
           "stray"  a Trimesh / Path with one vertex nothing references,
           "arc"    a Path whose entities include Arcs (recipe["entities"]: ["line", idx] | ["arc", idx3, closed]),
           "prim"   a Box / Cylinder primitive (recipe: type, parameters, transform; V, F its tessellation),
           "voxel"  a VoxelGrid (recipe: dense, transform; V the centres of the filled cells)
    """

    __slots__ = ("kind", "V", "F", "sub", "recipe")

    def __init__(self, kind, V, F=None, sub=None, recipe=None):
        self.kind = kind
        self.V = np.array(V, dtype=np.float64)
        self.F = None if F is None else np.array(F, dtype=np.int64)
        self.sub = sub
        self.recipe = None if recipe is None else json.loads(json.dumps(recipe))

    def copy(self):
        return GeomModel(self.kind, self.V, self.F, self.sub, self.recipe)

    def lifted(self):
        if self.V.shape[1] == 2:
            return np.column_stack([self.V, np.zeros(len(self.V))])
        return self.V

    def special(self):
        if self.sub is None:
            return None
        if self.sub == "stray":
            return "mesh_unreferenced_vertex" if self.kind == "mesh" else "path_unreferenced_vertex"
        return {"arc": "path_arc", "prim": "primitive", "voxel": "voxel"}[self.sub]

    def referenced(self):
        """rows of V that the geometry uses"""
        if self.sub == "stray":
            return np.unique(self.F) if self.kind == "mesh" else np.array(self.recipe["referenced"], dtype=np.int64)
        return np.arange(len(self.V))

    def bounding(self, W):
        """
        (points whose AABB is the AABB of the geometry placed with W, AABB of what a reader of the raw
        arrays would take for it: every row of the vertex array / the two corners of the geometry's own AABB)
        """
        L, t = W[:3, :3], W[:3, 3]
        P = self.lifted() @ L.T + t
        raw = P
        if self.sub == "stray":
            return P[self.referenced()], raw
        if self.sub == "arc":
            pts = []
            for e in self.recipe["entities"]:
                if e[0] == "line":
                    pts.append(P[e[1]])
                else:
                    pts.append(arc_bounding_points(P[e[1]], bool(e[2])))
            return np.vstack(pts), raw
        if self.kind == "voxel":
            T = np.array(self.recipe["transform"], dtype=np.float64)
            idx = np.argwhere(np.array(self.recipe["dense"], dtype=bool))
            lo, hi = idx.min(axis=0) - 0.5, idx.max(axis=0) + 0.5
            C = np.array(list(itertools.product(*zip(lo, hi))))
            C = C @ T[:3, :3].T + T[:3, 3]
            own = np.array([C.min(axis=0), C.max(axis=0)])  # VoxelGrid.bounds in the geometry's frame
            return C @ L.T + t, own @ L.T + t
        return P, raw

    def curve_radius(self, W):
        """largest radius of a placed arc (the library discretises arcs: bounds are exact to a chord sagitta)"""
        if self.sub != "arc":
            return 0.0
        P = self.lifted() @ W[:3, :3].T + W[:3, 3]
        return max([arc_circle(P[e[1]])[1] for e in self.recipe["entities"] if e[0] == "arc"] or [0.0])


def arc_circle(ABC):
    """centre, radius, in-plane orthonormal basis (u towards A, v so that A -> B -> C runs counter-clockwise)"""
    A, B, C = ABC
    a, b = A - C, B - C
    n = np.cross(a, b)
    c = C + np.cross(np.dot(a, a) * b - np.dot(b, b) * a, n) / (2.0 * np.dot(n, n))
    r = float(np.linalg.norm(A - c))
    u = (A - c) / r
    v = np.cross(n / np.linalg.norm(n), u)

    def ang(X):
        return float(np.arctan2(np.dot(X - c, v), np.dot(X - c, u)) % (2 * np.pi))

    if ang(B) > ang(C):
        v = -v
    return c, r, u, v, ang(C)


def arc_bounding_points(ABC, closed):
    """end points of the arc A -> B -> C (or nothing, for a full circle) and its axis-extreme points"""
    c, r, u, v, end = arc_circle(ABC)
    if closed:
        end = 2 * np.pi
    pts = [ABC[0], ABC[2]] if not closed else []
    for i in range(3):
        th = float(np.arctan2(v[i], u[i]) % (2 * np.pi))
        for cand in (th, (th + np.pi) % (2 * np.pi)):
            if cand <= end:
                pts.append(c + r * (np.cos(cand) * u + np.sin(cand) * v))
    return np.array(pts)


def make_real(gm):
    import trimesh
    from trimesh.path.entities import Arc, Line

    if gm.sub == "prim":
        rc = gm.recipe
        T = np.array(rc["transform"], dtype=np.float64)
        if rc["type"] == "box":
            return trimesh.primitives.Box(extents=rc["extents"], transform=T)
        return trimesh.primitives.Cylinder(radius=rc["radius"], height=rc["height"], sections=rc["sections"], transform=T)
    if gm.kind == "voxel":
        return trimesh.voxel.VoxelGrid(np.array(gm.recipe["dense"], dtype=bool), transform=np.array(gm.recipe["transform"], dtype=np.float64))
    if gm.sub == "arc":
        ents = [Line(list(e[1])) if e[0] == "line" else Arc(list(e[1]), closed=bool(e[2])) for e in gm.recipe["entities"]]
        cls = trimesh.path.Path2D if gm.kind == "path2" else trimesh.path.Path3D
        return cls(entities=ents, vertices=gm.V.copy(), process=False)
    if gm.kind == "mesh":
        return trimesh.Trimesh(vertices=gm.V.copy(), faces=gm.F.copy(), process=False)
    if gm.kind == "cloud":
        return trimesh.PointCloud(gm.V.copy())
    n = len(gm.referenced())
    if gm.kind == "path3":
        return trimesh.path.Path3D(entities=[Line(np.arange(n))], vertices=gm.V.copy(), process=False)
    if gm.kind == "path2":
        idx = list(range(n)) + [0]
        return trimesh.path.Path2D(entities=[Line(idx)], vertices=gm.V.copy(), process=False)
    raise KeyError(gm.kind)


SPECIALS = ("mesh_stray", "path2_stray", "path3_stray", "path2_circle", "path2_arc", "path3_arc", "box", "cylinder", "voxel")


def special_geom(rng, which):
    """
    One geometry of the `kinds` family (rng None: the fixed one).  Classes whose bounds are not the AABB of
    their vertex array (a vertex nothing references; arcs: control points on one side of the circle; a voxel
    grid: no vertex array at all) and primitives (parameters + transform, tessellated on demand).
    """
    def jit(lo, hi, size=None, fixed=None):
        if rng is None:
            return np.array(fixed, dtype=np.float64) if size else float(fixed)
        return np.round(rng.uniform(lo, hi, size=size), 3) if size else float(np.round(rng.uniform(lo, hi), 3))

    far = jit(6.0, 9.0, 3, [7.0, 8.0, 6.5]) * np.array([1.0, -1.0, 1.0])
    if which == "mesh_stray":
        gm = _fixed_geom("mesh") if rng is None else _random_geom(rng, "mesh")
        return GeomModel("mesh", np.vstack([gm.V, far]), gm.F, sub="stray")
    if which == "path3_stray":
        gm = _fixed_geom("path3") if rng is None else _random_geom(rng, "path3")
        return GeomModel("path3", np.vstack([gm.V, far]), sub="stray", recipe={"referenced": list(range(len(gm.V)))})
    if which == "path2_stray":
        gm = _fixed_geom("path2") if rng is None else _random_geom(rng, "path2")
        return GeomModel("path2", np.vstack([gm.V, far[:2]]), sub="stray", recipe={"referenced": list(range(len(gm.V)))})
    if which in ("path2_circle", "path2_arc", "path3_arc"):
        r = jit(1.0, 3.0, None, 2.0)
        c = jit(-2.0, 2.0, 2, [0.5, -1.0])
        if which == "path2_circle":
            # a full circle given by three control points on its upper half, and a chord
            ang = [0.0, np.pi / 2, np.pi]
            ents = [["arc", [0, 1, 2], True], ["line", [0, 2]]]
        else:
            # an arc of 240 degrees from 30 degrees on (its extremes at 90, 180 and 270 degrees are not
            # control points), closed by a chord
            ang = [np.pi / 6, 5 * np.pi / 6, 3 * np.pi / 2]
            ents = [["arc", [0, 1, 2], False], ["line", [2, 0]]]
        V = np.column_stack([np.cos(ang), np.sin(ang)]) * r + c
        if which == "path3_arc":
            return GeomModel("path3", np.column_stack([V, np.full(3, jit(-1.0, 1.0, None, 0.5))]), sub="arc", recipe={"entities": ents})
        return GeomModel("path2", V, sub="arc", recipe={"entities": ents})
    T = axis_angle_to_matrix(_unit([1, -1, 2]), 0.8 if rng is None else float(rng.uniform(0.3, 2.5)))
    T[:3, 3] = jit(-2.0, 2.0, 3, [1.0, -0.5, 2.0])
    if which in ("box", "cylinder"):
        if which == "box":
            rc = {"type": "box", "extents": jit(1.0, 3.0, 3, [1.0, 2.0, 3.0]).tolist(), "transform": T.tolist()}
        else:
            rc = {"type": "cylinder", "radius": jit(0.5, 1.5, None, 0.75), "height": jit(1.0, 3.0, None, 2.0),
                  "sections": 8, "transform": T.tolist()}
        gm = GeomModel("mesh", np.zeros((0, 3)), np.zeros((0, 3)), sub="prim", recipe=rc)
        real = make_real(gm)
        gm.V, gm.F = np.array(real.vertices, dtype=np.float64), np.array(real.faces, dtype=np.int64)
        return gm
    if which == "voxel":
        dense = np.ones((3, 2, 2), dtype=bool)
        if rng is not None and rng.random() < 0.5:
            dense = np.ones((3, 3, 2), dtype=bool)
            dense[1, 1, :] = False
        G = np.eye(4)
        G[:3, :3] *= 0.5 if rng is None else float(rng.choice([0.25, 0.5, 1.0]))
        G[:3, 3] = jit(-2.0, 2.0, 3, [1.0, 0.0, -0.5])
        if rng is not None and rng.random() < 0.3:
            G = T @ G  # a grid that is rotated in its own geometry frame
        idx = np.argwhere(dense)
        return GeomModel("voxel", idx @ G[:3, :3].T + G[:3, 3], sub="voxel", recipe={"dense": dense.tolist(), "transform": G.tolist()})
    raise KeyError(which)


def random_geom(rng, kind, unit=1.0):
    gm = _random_geom(rng, kind)
    if unit != 1.0:
        gm.V = gm.V * unit
    return gm


def _random_geom(rng, kind):
    if kind == "mesh":
        r = int(rng.integers(0, 4))
        if r == 0:
            V, F = gmesh.tetra(rng, -4, 4)
        elif r == 1:
            V, F = gmesh.box_int(tuple(int(v) for v in rng.integers(1, 5, size=3)), tuple(int(v) for v in rng.integers(-2, 3, size=3)))
        elif r == 2:
            V, F = gmesh.octahedron(tuple(int(v) for v in rng.integers(1, 5, size=3)))
            V = V + rng.integers(-2, 3, size=3)
        else:
            V, F = gmesh.l_prism()
        return GeomModel("mesh", V, F)
    if kind == "cloud":
        return GeomModel("cloud", np.round(rng.uniform(-3, 3, size=(int(rng.integers(4, 9)), 3)), 3))
    if kind == "path3":
        return GeomModel("path3", np.round(rng.uniform(-3, 3, size=(int(rng.integers(3, 7)), 3)), 3))
    # convex polygon, counter-clockwise, off-centre
    n = int(rng.integers(3, 7))
    ang = np.sort(rng.uniform(0, 2 * np.pi, size=n))
    while np.min(np.diff(np.concatenate([ang, [ang[0] + 2 * np.pi]]))) < 0.3:
        ang = np.sort(rng.uniform(0, 2 * np.pi, size=n))
    r = rng.uniform(1.0, 3.0)
    c = rng.uniform(-2, 2, size=2)
    return GeomModel("path2", np.round(np.column_stack([np.cos(ang), np.sin(ang)]) * r + c, 3))


def fixed_geom(kind, unit=1.0):
    gm = _fixed_geom(kind)
    if unit != 1.0:
        gm.V = gm.V * unit
    return gm


def _fixed_geom(kind):
    if kind == "mesh":
        V, F = gmesh.box_int((1, 2, 3), (1, 0, -1))
        return GeomModel("mesh", V, F)
    if kind == "cloud":
        return GeomModel("cloud", [[0, 0, 0], [1, 0, 0], [0, 2, 0], [0, 0, 3], [1, 2, 3], [-1, 0.5, 2]])
    if kind == "path3":
        return GeomModel("path3", [[0, 0, 0], [2, 0, 1], [2, 1, -1], [0, 3, 2]])
    return GeomModel("path2", [[0, 0], [3, 0], [3, 1], [1, 2]])


# ----------------------------------------------------------------------------
# matrices


def _unit(v):
    v = np.asarray(v, dtype=np.float64)
    return v / np.linalg.norm(v)


def degrade(M, precision):
    """
    The rotation factor of a similarity matrix as a low-precision source delivers it: stored in single
    precision or written with six decimals (R R^T - I between 1e-8 and 2e-6), times the exact scale.
    """
    if precision in (None, "exact"):
        return M
    s = lin_scale(M)
    R = M[:3, :3] / s
    R = R.astype(np.float32).astype(np.float64) if precision == "float32" else np.round(R, 6)
    out = M.copy()
    out[:3, :3] = R * s
    return out


def edge_matrix(rng, rot_class, scale, translate=True, unit=1.0, precision=None):
    """rot_class: none | aligned | general"""
    return degrade(_edge_matrix(rng, rot_class, scale, translate, unit), precision)


def _edge_matrix(rng, rot_class, scale, translate, unit):
    if rot_class == "none":
        M = np.eye(4)
    elif rot_class == "aligned":
        axis = [[1, 0, 0], [0, 1, 0], [0, 0, 1]][int(rng.integers(3))]
        M = axis_angle_to_matrix(axis, (np.pi / 2) * int(rng.integers(1, 4)))
        M[:3, :3] = np.round(M[:3, :3])
    else:
        ang = float(rng.uniform(0.3, 2.8)) * (1 if rng.random() < 0.5 else -1)
        M = axis_angle_to_matrix(_unit(rng.normal(size=3)), ang)
    M[:3, :3] *= scale
    if translate:
        M[:3, 3] = np.round(rng.uniform(-5, 5, size=3), 3) * unit
    return M


def worlds_differ(M, W):
    """the graph's world matrix M is not the product of the edges W (within the regime's tolerance)"""
    if TOL.floor >= 1.0:
        return bool(np.abs(M - W).max() > TOL.w * max(1.0, np.abs(W).max()))
    # small scenes: the translation column is judged relative to its own magnitude
    return bool(np.abs(M[:3, :3] - W[:3, :3]).max() > TOL.w * max(1.0, np.abs(W[:3, :3]).max())
                or np.abs(M[:3, 3] - W[:3, 3]).max() > TOL.w * max(TOL.floor, np.abs(W[:3, 3]).max())
                or np.abs(M[3] - W[3]).max() > 0)


def lin_scale(W):
    return float(abs(np.linalg.det(W[:3, :3])) ** (1.0 / 3.0))


def is_aligned(L):
    """linear part is a scaled signed permutation (commutes with axis scaling up to relabelling)"""
    s = abs(np.linalg.det(L)) ** (1.0 / 3.0)
    A = np.abs(L / s)
    return bool(np.allclose(np.sort(A, axis=1)[:, :2], 0, atol=1e-9) and np.allclose(A.max(axis=1), 1, atol=1e-9))


def is_diag(L):
    return bool(np.allclose(L - np.diag(np.diag(L)), 0, atol=1e-9 * max(1.0, np.abs(L).max())))


# ----------------------------------------------------------------------------
# the model of one scene


class SceneModel:
    def __init__(self):
        self.forest = Forest("world")
        self.geoms = {}  # name -> GeomModel
        self.hist = []  # edit kinds applied
        self.deleted_geometry = False
        self.unit = 1.0  # unit of length of the generated coordinates (SMALL_UNIT for `small` scenes)
        self.regime = None

    def copy(self):
        c = SceneModel()
        c.unit, c.regime = self.unit, self.regime
        c.forest = self.forest.copy()
        c.geoms = {k: v.copy() for k, v in self.geoms.items()}
        c.hist = list(self.hist)
        c.deleted_geometry = self.deleted_geometry
        return c

    def placements(self, worlds=None):
        """[(node, geometry name, kind, W, placed (n,3) vertices, faces)] for every connected instance."""
        out = []
        for node, gname, W in self.forest.instances():
            gm = self.geoms.get(gname)
            if gm is None:
                continue
            if worlds is not None:
                W = worlds[node]
            P = gm.lifted() @ W[:3, :3].T + W[:3, 3]
            out.append((node, gname, gm.kind, W, P, gm.F))
        return out

    def all_connected(self):
        return all(self.forest.world(n) is not None for n in self.forest.nodes_geometry())

    def edge_class(self):
        for node, gname, W in self.forest.instances():
            if abs(lin_scale(W) - 1.0) > 1e-9:
                return "similarity"
        return "rigid"

    def kinds_present(self):
        return sorted({self.geoms[g].kind for _, g, _ in self.forest.instances() if g in self.geoms})

    def special(self):
        """the special geometry class of a `kinds` scene (one per scene), else None"""
        for gm in self.geoms.values():
            if gm.sub is not None:
                return gm.special()
        return None

    def nontrivial(self):
        return any(np.abs(W - np.eye(4)).max() > 1e-9 * self.unit for _, _, W in self.forest.instances())

    def near_identity_nodes(self, worlds=None):
        """instances whose world matrix is within the `is identity` shortcut (1e-8) of I without being I"""
        out = []
        for node, gname, W in self.forest.instances():
            if worlds is not None:
                W = worlds[node]
            d = float(np.abs(W - np.eye(4)).max())
            if 0.0 < d < NEAR_IDENTITY:
                out.append(node)
        return out

    def digest(self):
        f = self.forest
        per_node = tuple(
            (f.depth(n), _kind_tag(self.geoms[f.geometry[n]]) if f.geometry.get(n) in self.geoms else "-",
             _edge_tag(f.matrix.get(n)))
            for n in f.nodes
        )
        return (f.shape(), per_node, tuple(self.hist), self.regime)


def _kind_tag(gm):
    return gm.kind if gm.sub is None else "%s:%s" % (gm.kind, gm.sub)


def _edge_tag(M):
    if M is None:
        return "root"
    L = M[:3, :3]
    s = lin_scale(M)
    r = "none" if is_diag(L) else ("aligned" if is_aligned(L) else "general")
    return "%s%s%s" % (r, "" if abs(s - 1) < 1e-9 else "*s", "+t" if np.abs(M[:3, 3]).max() > 0 else "")


# ----------------------------------------------------------------------------
# numpy aggregates over placements


def tri_area(T):
    return 0.5 * np.linalg.norm(np.cross(T[:, 1] - T[:, 0], T[:, 2] - T[:, 0]), axis=1)


def tri_volume(T):
    return float(np.einsum("ij,ij->i", T[:, 0], np.cross(T[:, 1], T[:, 2])).sum() / 6.0)


def shoelace(V):
    x, y = V[:, 0], V[:, 1]
    return 0.5 * float(np.sum(x * np.roll(y, -1) - np.roll(x, -1) * y))


class Expect:
    """Everything the statement lists, computed from explicit placement."""

    def __init__(self, sm, worlds=None):
        self.P = sm.placements(worlds)
        pts = [p[4] for p in self.P if len(p[4])]
        self.points = np.vstack(pts) if pts else np.zeros((0, 3))
        # bounds: the AABB of every placed geometry (of the vertices it uses, of its arcs, of its voxels);
        # bounds_raw: what the AABB of the raw arrays would give (symptom classification only)
        bpts, rpts, self.curve_slack = [], [], 0.0
        for node, gname, kind, W, P, F in self.P:
            b, raw = sm.geoms[gname].bounding(W)
            if len(b):
                bpts.append(b)
            if len(raw):
                rpts.append(raw)
            self.curve_slack = max(self.curve_slack, 1e-3 * sm.geoms[gname].curve_radius(W))
        self.bounds = self.extents = self.centroid = self.bounds_raw = None
        if bpts:
            bp = np.vstack(bpts)
            self.bounds = np.array([bp.min(axis=0), bp.max(axis=0)])
            self.extents = self.bounds[1] - self.bounds[0]
            self.centroid = self.bounds.mean(axis=0)
            rp = np.vstack(rpts)
            self.bounds_raw = np.array([rp.min(axis=0), rp.max(axis=0)])
        tris, tnode = [], []
        area = vol = 0.0
        area_unscaled = vol_unscaled = 0.0
        for node, gname, kind, W, P, F in self.P:
            gm = sm.geoms[gname]
            if kind == "mesh":
                T = P[F]
                tris.append(T)
                tnode += [node] * len(T)
                area += float(tri_area(T).sum())
                T0 = gm.V[F]
                area_unscaled += float(tri_area(T0).sum())
                if gm.sub == "prim" and gm.recipe["type"] == "cylinder":
                    # the volume of a Cylinder is that of the cylinder, not of its tessellation
                    v0 = float(np.pi * gm.recipe["radius"] ** 2 * gm.recipe["height"])
                    vol += v0 * lin_scale(W) ** 3
                    vol_unscaled += v0
                else:
                    vol += tri_volume(T)
                    vol_unscaled += tri_volume(T0)
            elif kind == "path2" and gm.sub != "arc":
                a0 = abs(shoelace(gm.V[gm.referenced()]))
                area += a0 * float(np.linalg.norm(np.cross(W[:3, 0], W[:3, 1])))
                area_unscaled += a0
        self.triangles = np.vstack(tris) if tris else np.zeros((0, 3, 3))
        self.triangles_node = tnode
        self.area, self.volume = area, vol
        self.area_unscaled, self.volume_unscaled = area_unscaled, vol_unscaled
        self.scale = max(TOL.floor, float(np.abs(self.points).max())) if len(self.points) else TOL.floor

    def hull_volume(self):
        from scipy.spatial import ConvexHull

        return float(ConvexHull(self.points).volume)


def close(a, b, scale=1.0, power=1):
    a, b = np.asarray(a, dtype=np.float64), np.asarray(b, dtype=np.float64)
    if a.shape != b.shape or not np.isfinite(b).all():
        return False
    if a.size == 0:
        return True
    return bool(np.abs(a - b).max() <= TOL.r * max(TOL.floor, scale) ** power * 10)


def same_point_multiset(A, B, scale):
    """rows of A and B (n,k) are the same multiset within tolerance"""
    from scipy.spatial import cKDTree

    A, B = np.asarray(A, dtype=np.float64), np.asarray(B, dtype=np.float64)
    if A.shape != B.shape:
        return False
    if len(A) == 0:
        return True
    tol = TOL.r * max(TOL.floor, scale) * 10 * np.sqrt(A.shape[1])
    da, _ = cKDTree(B).query(A)
    db, _ = cKDTree(A).query(B)
    return bool(da.max() <= tol and db.max() <= tol)


# ----------------------------------------------------------------------------
# building scenes (real + model together)


def build(spec):
    """
    spec: {"geoms": {name: GeomModel}, "frames": [(name, parent|None, matrix, geometry|None)],
           "unplaced": [names kept in scene.geometry without a frame]}
    """
    import trimesh

    sm = SceneModel()
    sm.unit, sm.regime = float(spec.get("unit", 1.0)), spec.get("regime")
    scene = trimesh.Scene(base_frame="world")
    used = set()
    for name, gm in spec["geoms"].items():
        sm.geoms[name] = gm.copy()
    for fname, parent, M, gname in spec["frames"]:
        if gname is None:
            scene.graph.update(fname, parent if parent is not None else "world", matrix=M.copy())
            sm.forest.update(fname, parent, M)
        elif gname not in used:
            used.add(gname)
            scene.add_geometry(make_real(spec["geoms"][gname]), node_name=fname, geom_name=gname,
                               parent_node_name=parent, transform=M.copy())
            sm.forest.update(fname, parent, M, geometry=gname)
        else:
            scene.graph.update(fname, parent if parent is not None else "world", matrix=M.copy(), geometry=gname)
            sm.forest.update(fname, parent, M, geometry=gname)
    for gname in spec.get("unplaced", ()):
        scene.geometry[gname] = make_real(spec["geoms"][gname])
    for gname in list(sm.geoms):
        if gname not in used and gname not in spec.get("unplaced", ()):
            del sm.geoms[gname]
    return scene, sm


def spec_to_json(spec):
    return {
        "geoms": {k: {"kind": g.kind, "V": g.V.tolist(), "F": None if g.F is None else g.F.tolist(), "sub": g.sub, "recipe": g.recipe}
                  for k, g in spec["geoms"].items()},
        "frames": [[n, p, M.tolist(), g] for n, p, M, g in spec["frames"]],
        "unplaced": list(spec.get("unplaced", ())),
        "unit": float(spec.get("unit", 1.0)), "regime": spec.get("regime"),
    }


def spec_from_json(j):
    return {
        "geoms": {k: GeomModel(g["kind"], g["V"], g["F"], g.get("sub"), g.get("recipe")) for k, g in j["geoms"].items()},
        "frames": [(n, p, np.array(M, dtype=np.float64), g) for n, p, M, g in j["frames"]],
        "unplaced": list(j.get("unplaced", ())),
        "unit": float(j.get("unit", 1.0)), "regime": j.get("regime"),
    }


def random_spec(rng, pyrng, regime=None, special=None):
    """
    special: one of SPECIALS - a scene of the `kinds` family: geometry g0 is of that class (instanced at least
             once), the other geometries are ordinary meshes / point clouds

    regime None:      exact float64 edge matrices, coordinates of order 1
           "lowprec": rotation factors in single precision / six decimals (similarity edges mostly)
           "small":   the same scenes in a unit of 1e-9 (vertices and translations), translation-only edges
                      frequent, so that world matrices within 1e-8 of the identity occur; no Path2D
                      (polygon processing has absolute tolerances of its own, not a scene mechanism)
    """
    unit = SMALL_UNIT if regime == "small" else 1.0
    modes = ["mesh", "mesh", "mesh+cloud", "mesh+path3", "mesh+path2", "all", "all", "nomesh"]
    if regime == "small":
        modes = ["mesh", "mesh", "mesh+cloud", "mesh+path3", "all3", "nomesh3"]
    kinds_mode = pyrng.choice(modes)
    pool_kinds = {
        "mesh": ["mesh"], "mesh+cloud": ["mesh", "cloud"], "mesh+path3": ["mesh", "path3"],
        "mesh+path2": ["mesh", "path2"], "all": list(KINDS), "nomesh": ["cloud", "path3", "path2"],
        "all3": ["mesh", "cloud", "path3"], "nomesh3": ["cloud", "path3"],
    }[kinds_mode]
    if special is not None:
        pool_kinds = pyrng.choice([["mesh"], ["mesh", "cloud"]])
    ng = int(rng.integers(1, 5))
    geoms = {}
    for i in range(ng):
        k = pool_kinds[i] if i < len(pool_kinds) else pyrng.choice(pool_kinds)
        geoms["g%d" % i] = random_geom(rng, k, unit)
    if special is not None:
        geoms["g0"] = special_geom(rng, special)
    edge_mode = pyrng.choice(["rigid", "rigid", "similarity", "mixed"])
    rot_mode = pyrng.choice(["general", "general", "aligned", "none", "mixed"])
    if regime == "lowprec":
        edge_mode = pyrng.choice(["similarity", "similarity", "mixed", "rigid"])
        rot_mode = pyrng.choice(["general", "general", "mixed"])
    elif regime == "small":
        edge_mode = pyrng.choice(["rigid", "rigid", "rigid", "mixed"])
        rot_mode = pyrng.choice(["none", "none", "mixed", "mixed", "general"])
    nframes = int(rng.integers(1, 9))
    frames, depth = [], {None: 0}
    for i in range(nframes):
        name = "f%d" % i
        cands = [None] + [f[0] for f in frames if depth[f[0]] < 4]
        parent = pyrng.choice(cands) if pyrng.random() < 0.75 else None
        depth[name] = depth[parent] + 1
        s = 1.0
        if edge_mode == "similarity" or (edge_mode == "mixed" and pyrng.random() < 0.5):
            s = pyrng.choice(SCALES)
        rc = rot_mode if rot_mode != "mixed" else pyrng.choice(["general", "aligned", "none"])
        precision = None
        if regime == "lowprec" and pyrng.random() < 0.8:
            precision = pyrng.choice(["float32", "decimal6"])
        M = edge_matrix(rng, rc, s, translate=pyrng.random() < 0.9, unit=unit, precision=precision)
        g = pyrng.choice(list(geoms)) if pyrng.random() < 0.7 else None
        if special is not None and g is not None and pyrng.random() < 0.4:
            g = "g0"
        frames.append((name, parent, M, g))
    if special is not None:
        if not any(f[3] == "g0" for f in frames):
            n, p, M, _ = frames[0]
            frames[0] = (n, p, M, "g0")
    elif not any(f[3] for f in frames):
        n, p, M, _ = frames[-1]
        frames[-1] = (n, p, M, "g0")
    placed = {f[3] for f in frames if f[3]}
    unplaced = [g for g in geoms if g not in placed and pyrng.random() < 0.5]
    geoms = {k: v for k, v in geoms.items() if k in placed or k in unplaced}
    return {"geoms": geoms, "frames": frames, "unplaced": unplaced, "unit": unit, "regime": regime}


def regime_battery_specs():
    """
    Seed-independent scenes of the two extra regimes.
    lowprec: a rig frame with a similarity (or rigid) edge whose rotation is float32 / six-decimal, instances
             below it and beside it (depth 1-2), scales 2.5 / 0.4 / 3.0 / 1.0.
    small:   parts of a few 1e-9 placed by translations of a few 1e-9 (world matrix within 1e-8 of I) at depth
             1-2, next to a rotated instance, kinds mesh / cloud / path3.
    """
    out = []
    A1 = axis_angle_to_matrix([0, 0, 1], 0.7)
    A1[:3, 3] = [1.0, 2.0, 3.0]
    A2 = axis_angle_to_matrix(_unit([1, 1, 0]), 1.1)
    A2[:3, 3] = [0.0, -3.0, 1.0]
    A3 = axis_angle_to_matrix([0, 1, 0], -0.4)
    A3[:3, 3] = [-6.0, 0.0, 0.0]
    Tr = np.eye(4)
    Tr[:3, 3] = [4.0, 0.0, 0.0]

    def scaled_by(M, k):
        M = M.copy()
        M[:3, :3] *= k
        return M

    combos = list(itertools.product(("float32", "decimal6"), ((2.5, 0.4, 3.0), (1.0, 1.0, 1.0), (2.0, 0.5, 1.25))))
    # exact similarity edges whose scale is close to 1 (s^2 - 1 >= 1e-3, 100 x the repair_rigid threshold)
    combos.append((None, (1.0005, 0.999, 1.004)))
    # ... and scales a calibration / shrinkage factor has: s^2 - 1 inside the window repair_rigid acts on
    combos.append((None, (1.000004, 1.000003, 0.999996)))
    for precision, (s1, s2, s3) in combos:
        if precision is None:
            frames = [("rig", None, scaled_by(A1, s1), None), ("box_a", "rig", Tr.copy(), "g0"),
                      ("ball_a", "rig", scaled_by(A2, s2), "g1"), ("box_b", None, scaled_by(A3, s3), "g0")]
            out.append(("battery:scale_near_one" if abs(s1 - 1) > 1e-4 else "battery:scale_within_1e-5_of_one",
                        {"geoms": {"g0": fixed_geom("mesh"), "g1": fixed_geom("cloud")},
                         "frames": frames, "unplaced": [], "unit": 1.0, "regime": None}))
            continue
        frames = [
            ("rig", None, degrade(scaled_by(A1, s1), precision), None),
            ("box_a", "rig", Tr.copy(), "g0"),
            ("ball_a", "rig", degrade(scaled_by(A2, s2), precision), "g1"),
            ("box_b", None, degrade(scaled_by(A3, s3), precision), "g0"),
        ]
        geoms = {"g0": fixed_geom("mesh"), "g1": fixed_geom("cloud")}
        out.append(("battery:lowprec:%s:%s" % (precision, "rigid" if s1 == 1.0 else "similarity"),
                    {"geoms": geoms, "frames": frames, "unplaced": [], "unit": 1.0, "regime": "lowprec"}))
    u = SMALL_UNIT
    for kind, depth in itertools.product(("mesh", "cloud", "path3"), (1, 2)):
        T1 = np.eye(4)
        T1[:3, 3] = [5 * u, 0.0, 0.0]
        T2 = np.eye(4)
        T2[:3, 3] = [0.0, -3 * u, 2 * u]
        R = axis_angle_to_matrix(_unit([1, 2, 3]), 0.9)
        R[:3, 3] = [1 * u, -2 * u, 4 * u]
        frames = [("f0", None, T1, "g0" if depth == 1 else None)]
        if depth == 2:
            frames.append(("f1", "f0", T2, "g0"))
        frames.append(("r0", None, R, "gm"))
        geoms = {"g0": fixed_geom(kind, u), "gm": fixed_geom("mesh", u)}
        out.append(("battery:small:%s:depth%d" % (kind, depth),
                    {"geoms": geoms, "frames": frames, "unplaced": [], "unit": u, "regime": "small"}))
    # a 2-D drawing of a few 1e-9 lifted out of its plane by a few 1e-9 (directly / by the frame above it)
    for depth in (1, 2):
        T1 = np.eye(4)
        T1[:3, 3] = [5 * u, 0.0, 3 * u]
        T2 = np.eye(4)
        T2[:3, 3] = [0.0, -3 * u, 0.0]
        R = axis_angle_to_matrix(_unit([1, 2, 3]), 0.9)
        R[:3, 3] = [1 * u, -2 * u, 4 * u]
        R2 = axis_angle_to_matrix(_unit([0, 1, 1]), -0.5)
        R2[:3, 3] = [-4 * u, 2 * u, 1 * u]
        frames = [("f0", None, T1, "g0" if depth == 1 else None)]
        if depth == 2:
            frames.append(("f1", "f0", T2, "g0"))
        frames += [("r0", None, R, "gm"), ("r1", None, R2, "gm")]
        geoms = {"g0": fixed_geom("path2", u), "gm": fixed_geom("mesh", u)}
        out.append(("battery:small:path2_lifted:depth%d" % depth,
                    {"geoms": geoms, "frames": frames, "unplaced": [], "unit": u, "regime": "small"}))
        if depth == 2:
            # most instances are paths: `to_geometry` concatenates the dumped paths
            T3 = np.eye(4)
            T3[:3, 3] = [-2 * u, 1 * u, -4 * u]
            frames = frames[:3] + [("f2", None, T3, "g0")]
            out.append(("battery:small:path2_lifted:paths_majority",
                        {"geoms": geoms, "frames": frames, "unplaced": [], "unit": u, "regime": "small"}))
    return out


def kinds_battery_specs():
    """
    Seed-independent scenes of the `kinds` family: one special geometry class per scene, instanced on an inner
    frame (rigid edge) and on a frame below it (similarity edge), next to an ordinary mesh.
    """
    R1 = axis_angle_to_matrix(_unit([1, 2, 3]), 0.9)
    R1[:3, 3] = [1.0, -2.0, 0.5]
    R2 = axis_angle_to_matrix(_unit([-1, 0.5, 2]), -1.3)
    R2[:3, :3] *= 2.0
    R2[:3, 3] = [0.5, 3.0, -1.0]
    R3 = axis_angle_to_matrix([0, 0, 1], np.pi / 4)
    R3[:3, 3] = [-2.0, 0.0, 1.5]
    out = []
    for which in SPECIALS:
        geoms = {"g0": special_geom(None, which), "gm": fixed_geom("mesh")}
        frames = [("a", None, R1.copy(), "g0"), ("b", "a", R2.copy(), "g0"), ("c", None, R3.copy(), "g0"), ("m0", "a", R3.copy(), "gm")]
        out.append(("battery:kinds:%s" % which, {"geoms": geoms, "frames": frames, "unplaced": []}))
    return out


def battery_specs():
    """Seed-independent scenes: kind x edge class x depth x instancing, general rotations."""
    R1 = axis_angle_to_matrix(_unit([1, 2, 3]), 0.9)
    R1[:3, 3] = [1.0, -2.0, 0.5]
    R2 = axis_angle_to_matrix(_unit([-1, 0.5, 2]), -1.3)
    R2[:3, 3] = [0.5, 3.0, -1.0]
    R3 = axis_angle_to_matrix([0, 0, 1], 0.6)
    R3[:3, 3] = [-2.0, 0.0, 1.5]
    R4 = axis_angle_to_matrix([0, 1, 0], np.pi / 2)
    R4[:3, :3] = np.round(R4[:3, :3])
    R4[:3, 3] = [2.0, 1.0, 0.0]
    out = []
    for kind, ec, depth, inst, rot in itertools.product(KINDS, ("rigid", "similarity"), (1, 2, 3), (1, 2), ("general", "aligned")):
        mats = [m.copy() for m in ((R1, R2, R3) if rot == "general" else (R4, R4.T.copy(), R4))]
        if rot == "aligned":
            mats[1][:3, 3] = [0.0, -1.0, 2.0]
            mats[1][3, :3] = 0
        if ec == "similarity":
            mats[0][:3, :3] *= 2.0
            if depth > 1:
                mats[depth - 1][:3, :3] *= 0.5
        geoms = {"g0": fixed_geom(kind), "gm": fixed_geom("mesh")}
        frames, parent = [], None
        for d in range(depth):
            last = d == depth - 1
            frames.append(("f%d" % d, parent, mats[d], "g0" if last else None))
            parent = "f%d" % d
        if inst == 2:
            frames.append(("i1", "f0" if depth > 1 else None, mats[(depth + 1) % 3].copy(), "g0"))
        frames.append(("m0", "f0", R3.copy(), "gm"))
        out.append(("battery:%s:%s:depth%d:inst%d:%s" % (kind, ec, depth, inst, rot), {"geoms": geoms, "frames": frames, "unplaced": []}))
    return out


# ----------------------------------------------------------------------------
# reads


READS = ("bounds", "extents", "centroid", "area", "volume", "triangles", "triangles_node", "convex_hull",
         "dump", "to_mesh", "to_geometry", "center_mass", "moment_inertia")
CACHED = {"bounds", "extents", "centroid", "area", "volume", "triangles", "triangles_node", "convex_hull",
          "center_mass", "moment_inertia"}


# reads that are executed but not judged for a special geometry class (statement silent / the library's own
# per-geometry value is not defined or only approximate): the area of a discretised arc, hulls that would have to
# decide whether a vertex nothing references belongs to the geometry, the concatenation of a scene whose paths are
# not polylines, anything but bounds / dump of a voxel grid
NOT_JUDGED_SPECIAL = {
    "path_arc": {"area", "convex_hull", "to_geometry"},
    "path_unreferenced_vertex": {"convex_hull", "to_geometry"},
    "mesh_unreferenced_vertex": {"convex_hull"},
    "voxel": {"area", "volume", "convex_hull", "to_geometry", "center_mass", "moment_inertia"},
    "primitive": set(),
}
RAW_BOUNDED = ("mesh_unreferenced_vertex", "path_unreferenced_vertex", "path_arc", "voxel")  # bounds != AABB of the arrays
STALE_AFTER_BASE_FRAME = "read=cached_scene_quantity sym=entry_cached_before_the_edit_served after=set_base_frame"


def dropped_expectations(sm, worlds, near):
    """
    Explicit placement with the near-identity world matrices replaced by the identity: for every such
    instance (the max-abs test of transform_points / Path.apply_transform), and for those that also pass the
    peak-to-peak test of Trimesh.apply_transform only.
    """
    out = []
    kind_of = {n: sm.geoms[g].kind for n, g, _ in sm.forest.instances() if g in sm.geoms}
    ptp = [n for n in near if kind_of.get(n) != "mesh" or float(np.ptp(worlds[n] - np.eye(4))) < NEAR_IDENTITY]
    for sel in ([near] if ptp == near else [near, ptp]):
        wd = dict(worlds)
        for n_ in sel:
            wd[n_] = np.eye(4)
        out.append(Expect(sm, wd))
    return out


def flattened_worlds(sm, worlds):
    """world matrices with the out-of-plane part of a 2-D path's matrix removed where it is below 1e-8"""
    out = {}
    for node, gname, W in sm.forest.instances():
        W = np.array(worlds.get(node, W), dtype=np.float64)
        if gname in sm.geoms and sm.geoms[gname].kind == "path2":
            chk = np.abs(W - np.eye(4)) <= NEAR_IDENTITY
            chk[:2, :3] = True
            if chk.all():
                W[2] = [0.0, 0.0, 1.0, 0.0]
                W[:2, 2] = 0.0
        out[node] = W
    return out


def near_identity(M):
    d = float(np.abs(np.asarray(M, dtype=np.float64) - np.eye(4)).max())
    return 0.0 < d <= NEAR_IDENTITY


def ignored_small_updates(scene, sm):
    """some raw edge record is not the matrix last written to it, and differs from it by less than 1e-8"""
    t = scene.graph.transforms
    for n, p in sm.forest.parent.items():
        rec = t.edge_data.get((p, n))
        if rec is None or "matrix" not in rec:
            continue
        d = np.abs(np.asarray(rec["matrix"], dtype=np.float64) - sm.forest.matrix[n])
        if 0.0 < d.max() <= NEAR_IDENTITY:
            return True
    return False


def world_skipping_near_identity(f, node):
    """product of the edges from the base frame to `node`, near-identity factors of a 2+ edge path left out"""
    mats = []
    n = node
    while n in f.parent:
        mats.append(f.matrix[n])
        n = f.parent[n]
    mats = mats[::-1]
    if len(mats) >= 2:
        mats = [m for m in mats if np.abs(m - np.eye(4)).max() > NEAR_IDENTITY]
    W = np.eye(4)
    for m in mats:
        W = W @ m
    return W


def real_worlds(run, scene, sm, case):
    """
    World matrices as the real graph reports them; compared with the forest.  Returns
    (worlds dict or None, consistent_with_forest).
    """
    worlds, ok, broken = {}, True, False
    for node, gname, W in sm.forest.instances():
        try:
            M, g = scene.graph.get(node)
            M = np.asarray(M, dtype=np.float64)
        except Exception as e:
            ok, broken = False, True
            M, g = None, None
        if M is not None:
            worlds[node] = M
            if worlds_differ(M, W) or g != gname:
                ok = False
    if not ok:
        former = "alive" if (sm.forest.former or sm.forest.reparented_onto_former) else "none"
        # a world matrix whose uniform scale is not the product of the edge scales (key feature)
        lost = any(node in worlds and abs(lin_scale(worlds[node]) - lin_scale(W)) > 1e-3 * lin_scale(W)
                   for node, gname, W in sm.forest.instances())
        # a world matrix that is rigid although the product of the (exact) edges has a scale within 1e-5 of one
        near_unit = sm.regime != "lowprec" and any(
            node in worlds and abs(lin_scale(worlds[node]) - 1.0) < 1e-12 and 1e-9 < abs(lin_scale(W) - 1.0) < REPAIR_RIGID
            for node, gname, W in sm.forest.instances())
        sym = ""
        if lost:
            sym = " sym=uniform_scale_differs edge_precision=%s" % ("low" if sm.regime == "lowprec" else "exact")
        elif near_unit:
            sym = " sym=scale_within_1e-5_of_one_dropped"
        elif ignored_small_updates(scene, sm):
            sym = " sym=edge_update_below_1e-8_ignored"
        elif worlds and all(not worlds_differ(M, world_skipping_near_identity(sm.forest, n)) for n, M in worlds.items()):
            sym = " sym=near_identity_edge_dropped_from_path"
        run.violation(("graph_world_transform=differs_from_forest former_edge=%s%s" % (former, sym))
                      if "1e-8" not in sym and "near_identity" not in sym and "1e-5" not in sym
                      else "graph_world_transform=differs_from_forest%s" % sym,
                      "scene.graph.get(node) is not the product of the current edges (property C09); scene reads "
                      "are judged against the graph's own answer for this state",
                      dict(case, worlds={k: v for k, v in worlds.items()}))
    return (None if broken else worlds), ok


def do_reads(run, scene, sm, reads, case, after="build", edited=False, pre_edit=None):
    """Execute scene reads and judge each against explicit placement."""
    if not sm.all_connected():
        run.skip("geometry frame not connected to the base frame")
        return 0
    worlds, consistent = real_worlds(run, scene, sm, case)
    if worlds is None:
        run.skip("scene graph cannot resolve a frame the forest can (C09)")
        return 0
    ex = Expect(sm, None if consistent else worlds)
    # class of the world matrices the expectation was built from
    ec = "similarity" if any(abs(lin_scale(p[3]) - 1.0) > 1e-9 for p in ex.P) else "rigid"
    kinds = sm.kinds_present()
    has2 = any(g.kind == "path2" for g in sm.geoms.values())  # placed or not: reads walk scene.geometry
    only_mesh = kinds == ["mesh"]
    special = sm.special()
    sfx = (" special=%s" % special) if special else ""
    near = sm.near_identity_nodes(worlds)
    if near:
        run.count("reads_with_a_world_matrix_within_1e-8_of_identity")
    ex_dropped = None
    bad = 0
    for r in reads:
        cached_before = scene._cache.cache.get(r) if r in CACHED else None
        try:
            val = getattr(scene, r)
            if r in ("dump", "to_mesh", "to_geometry"):
                val = val()
        except Exception as e:
            refuse_ok = (
                (r in ("triangles", "triangles_node", "to_mesh") and len(ex.triangles) == 0)
                or (r == "convex_hull" and (len(ex.points) < 4 or not np.all(ex.extents > 0)))
                or (r in ("center_mass", "moment_inertia") and not only_mesh)
                or (r == "to_geometry" and len(ex.triangles) == 0)
                or (sm.regime == "small" and r in ("center_mass", "moment_inertia", "convex_hull"))
                # the library defines no hull of a voxel grid (no vertices): what it contributes is not stated
                or (special == "voxel" and r == "convex_hull")
            )
            if refuse_ok:
                run.count("read_refused:%s" % r)
                continue
            bad += 1
            run.violation("read=%s sym=exception:%s path2_present=%s%s" % (r, type(e).__name__, "yes" if has2 else "no", sfx),
                          "a scene-level read raised", dict(case, read=r, error=repr(e)[:300], after=after, kinds=kinds))
            continue
        run.count("reads")
        served = cached_before is not None and val is cached_before
        if served:
            run.count("reads_served_from_Scene._cache")
        if edited:
            run.count("reads_after_an_edit")
        if r in ("center_mass", "moment_inertia") and ec != "rigid":
            # not among the quantities the statement names; judged on rigid all-mesh scenes only
            run.count("read_not_judged:%s:similarity" % r)
            continue
        if sm.regime == "small" and r in ("center_mass", "moment_inertia", "convex_hull"):
            # mass properties / qhull of a geometry of size 1e-9 have absolute thresholds of their own
            # (a bare Trimesh of that size behaves the same): not a scene-level mechanism
            run.count("read_not_judged:%s:small" % r)
            continue
        if sm.regime == "small" and has2 and r == "area":
            # polygon processing of a 2-D path (shapely) has absolute tolerances of its own
            run.count("read_not_judged:area:small_path2")
            continue
        if special and r in NOT_JUDGED_SPECIAL[special]:
            run.count("read_not_judged:%s:%s" % (r, special))
            continue
        sym = judge_read(run, r, val, ex, sm, only_mesh)
        if sym is None:
            continue
        bad += 1
        if near:
            # is the value what explicit placement gives when the near-identity world matrices are
            # replaced by the identity (the instance left where the geometry is defined)?
            if ex_dropped is None:
                ex_dropped = dropped_expectations(sm, worlds, near)
            if any(judge_read(run, r, val, e_, sm, only_mesh) is None for e_ in ex_dropped):
                sym = NI_DROPPED
        if sm.regime == "small" and has2 and r in ("dump", "to_geometry") and sym != NI_DROPPED:
            # is the value explicit placement with the 2-D paths kept in their plane wherever the matrix is
            # within 1e-8 of an in-plane one?
            if judge_read(run, r, val, Expect(sm, flattened_worlds(sm, worlds)), sm, only_mesh) is None:
                sym = "planar_dump_of_out_of_plane_instance"
        key = "read=%s sym=%s edge_class=%s%s" % (r, sym, ec, sfx)
        if sym == NI_DROPPED:
            key = "read=%s sym=%s" % (r, sym)  # neither the other edges nor the cache take part
        elif after == "set_base_frame" and r in CACHED and pre_edit and any(
                isinstance(v, np.ndarray) and scene._cache.cache.get(k) is v for k, v in pre_edit.items()):
            # one mechanism (the key of Scene._cache does not know the base frame), whatever the read
            key = STALE_AFTER_BASE_FRAME
        elif pre_edit is not None and r in pre_edit and val is pre_edit[r]:
            # the very object cached before the last edit came back
            key += " served=entry_cached_before_the_edit after=%s" % after
        elif sym in ("aabb_of_raw_vertex_array", "aabb_of_two_transformed_corners"):
            # extents and centroid are read off the same per-node corners
            key = "read=bounds/extents/centroid sym=%s%s" % (sym, sfx)
        elif sym == "planar_dump_of_out_of_plane_instance" and sm.regime == "small":
            key = "read=%s sym=%s out_of_plane_offset=below_1e-8" % (r, sym)
        run.violation(key, "scene-level quantity differs from explicit placement of every instance",
                      dict(case, read=r, after=after, kinds=kinds, observed=_short(val), expected=_short(getattr(ex, r, None))))
    return bad


def _short(v):
    if isinstance(v, np.ndarray) and v.size > 60:
        return {"shape": list(v.shape), "head": v.ravel()[:30].tolist()}
    if isinstance(v, (list, tuple)) and len(v) > 30:
        return repr(v[:30])
    if isinstance(v, (np.ndarray, float, int, list, tuple, type(None))):
        return v
    return repr(v)[:200]


def judge_read(run, r, val, ex, sm, only_mesh):
    """-> None or symptom"""
    S = ex.scale
    if r in ("bounds", "extents", "centroid"):
        want = getattr(ex, r)
        if want is None:
            return None if val is None else "value_for_empty_scene"
        if val is None:
            return "none_returned"
        if close(want, val, S):
            return None
        val = np.asarray(val, dtype=np.float64)
        if ex.curve_slack and val.shape == want.shape and np.abs(val - want).max() <= ex.curve_slack * 2:
            return None  # arcs are bounded through their discretisation
        raw = ex.bounds_raw
        raw = {"bounds": raw, "extents": raw[1] - raw[0], "centroid": raw.mean(axis=0)}[r]
        if not close(raw, want, S) and close(raw, val, S):
            return "aabb_of_two_transformed_corners" if sm.special() == "voxel" else "aabb_of_raw_vertex_array"
        return "wrong_value"
    if r in ("area", "volume"):
        want = getattr(ex, r)
        p = 2 if r == "area" else 3
        if close(want, float(val), S, p):
            return None
        unscaled = ex.area_unscaled if r == "area" else ex.volume_unscaled
        if close(unscaled, float(val), S, p):
            return "ignores_node_scale"
        return "wrong_value"
    if r == "triangles":
        val = np.asarray(val, dtype=np.float64)
        if val.shape != ex.triangles.shape:
            return "wrong_count"
        return None if same_point_multiset(ex.triangles.reshape(-1, 9), val.reshape(-1, 9), S) else "wrong_value"
    if r == "triangles_node":
        return None  # judged together with `triangles` in _tri_node
    if r == "convex_hull":
        if len(ex.points) < 4 or not np.all(ex.extents > 0):
            return None
        from scipy.spatial import ConvexHull

        try:
            want = ex.hull_volume()
        except Exception:
            return None  # degenerate (coplanar) placed points
        hv = np.asarray(val.vertices, dtype=np.float64)
        if len(hv) < 4:
            return "degenerate_hull"
        tol = 10 * TOL.r * max(TOL.floor ** 3, want)
        if TOL.r > RTOL:
            # low-precision regime: every coordinate may be off by the coordinate tolerance, the volume
            # by that much times the surface of the hull
            tol = max(tol, 2.0 * float(ConvexHull(ex.points).area) * TOL.r * 10 * S)
        try:
            v_h = float(ConvexHull(hv).volume)
            v_u = float(ConvexHull(np.vstack([hv, ex.points])).volume)
        except Exception:
            return "degenerate_hull"
        if abs(v_h - want) > tol or abs(v_u - want) > tol:
            return "hull_not_the_hull_of_placed_points"
        if abs(float(val.volume) - want) > tol:
            return "hull_mesh_volume_differs"
        return None
    if r == "dump":
        return judge_dump(val, ex)
    if r == "to_mesh":
        return judge_concat(val, ex, "mesh")
    if r == "to_geometry":
        n_mesh = sum(1 for p in ex.P if p[2] == "mesh")
        n_path = sum(1 for p in ex.P if p[2] in ("path2", "path3"))
        if n_mesh >= n_path and n_mesh > 0:
            return judge_concat(val, ex, "mesh")
        if n_path > n_mesh:
            return judge_concat(val, ex, "path")
        return None
    if r == "center_mass":
        if not only_mesh or abs(ex.volume) < 1e-9:
            return None
        T = ex.triangles
        w = np.einsum("ij,ij->i", T[:, 0], np.cross(T[:, 1], T[:, 2])) / 6.0
        want = (w[:, None] * T.sum(axis=1) / 4.0).sum(axis=0) / w.sum()
        if close(want, val, S):
            return None
        return "wrong_value"
    if r == "moment_inertia":
        if not only_mesh or abs(ex.volume) < 1e-9:
            return None
        want = inertia_about_com(ex.triangles)
        return None if close(want, val, S, 5) else "wrong_value"
    return None


def inertia_about_com(T):
    """Inertia tensor (unit density) of the solid bounded by triangles T about its centre of mass."""
    C0 = (np.ones((3, 3)) + np.eye(3)) / 120.0  # covariance of the canonical tetrahedron
    C = np.zeros((3, 3))
    vol = 0.0
    com = np.zeros(3)
    for a, b, c in T:
        A = np.column_stack([a, b, c])
        d = np.linalg.det(A)
        C += d * A @ C0 @ A.T
        vol += d / 6.0
        com += d / 6.0 * (a + b + c) / 4.0
    com /= vol
    C -= vol * np.outer(com, com)
    return np.trace(C) * np.eye(3) - C


def judge_dump(val, ex):
    if not isinstance(val, list):
        return "not_a_list"
    by_node = {}
    for g in val:
        by_node.setdefault(g.metadata.get("node"), []).append(g)
    if len(val) != len(ex.P):
        return "wrong_instance_count"
    for node, gname, kind, W, P, F in ex.P:
        got = by_node.get(node)
        if not got or len(got) != 1:
            return "instance_missing"
        g = got[0]
        V = np.asarray(g.vertices if hasattr(g, "vertices") else g.points, dtype=np.float64)
        if V.ndim == 2 and V.shape[1] == 2:
            if np.abs(P[:, 2]).max() > TOL.r * ex.scale * 10:
                return "planar_dump_of_out_of_plane_instance"
            V = np.column_stack([V, np.zeros(len(V))])
        if kind in ("path2", "path3", "voxel"):
            # to_3D() / processing may re-order path vertices: compare as a point multiset
            if not same_point_multiset(P, V, ex.scale):
                return "instance_misplaced:%s" % kind
        elif not close(P, V, ex.scale):
            return "instance_misplaced:%s" % kind
        if kind == "mesh" and not np.array_equal(np.asarray(g.faces), F):
            return "faces_changed"
    return None


def judge_concat(val, ex, what):
    if what == "mesh":
        if len(ex.triangles) == 0:
            return None
        if not hasattr(val, "faces"):
            return "not_a_mesh"
        T = np.asarray(val.vertices, dtype=np.float64)[np.asarray(val.faces)]
        if T.shape != ex.triangles.shape:
            return "wrong_count"
        return None if same_point_multiset(ex.triangles.reshape(-1, 9), T.reshape(-1, 9), ex.scale) else "wrong_value"
    # paths: compare the multiset of placed segment end points
    segs = []
    for node, gname, kind, W, P, F in ex.P:
        if kind == "path3":
            segs.append(np.hstack([P[:-1], P[1:]]))
        elif kind == "path2":
            Q = np.vstack([P, P[:1]])
            segs.append(np.hstack([Q[:-1], Q[1:]]))
    want = np.vstack(segs)
    if not hasattr(val, "entities"):
        return "not_a_path"
    V = np.asarray(val.vertices, dtype=np.float64)
    if V.shape[1] == 2:
        V = np.column_stack([V, np.zeros(len(V))])
    got = []
    for e in val.entities:
        pts = V[np.asarray(e.points)]
        got.append(np.hstack([pts[:-1], pts[1:]]))
    got = np.vstack(got) if got else np.zeros((0, 6))
    if got.shape != want.shape:
        return "wrong_count"
    # a segment may be stored in either direction
    both = np.vstack([want, want[:, [3, 4, 5, 0, 1, 2]]])
    from scipy.spatial import cKDTree

    d, _ = cKDTree(both).query(got)
    d2, _ = cKDTree(np.vstack([got, got[:, [3, 4, 5, 0, 1, 2]]])).query(want)
    tol = TOL.r * ex.scale * 30
    return None if (d.max() <= tol and d2.max() <= tol) else "wrong_value"


def judge_triangles_node(scene, ex):
    """each real triangle labelled with node n is a placed triangle of n (multiset per node)"""
    tri = np.asarray(scene.triangles, dtype=np.float64)
    lab = list(scene.triangles_node)
    if len(lab) != len(tri) or len(tri) != len(ex.triangles):
        return "wrong_count"
    want = {}
    for t, n in zip(ex.triangles, ex.triangles_node):
        want.setdefault(n, []).append(t.reshape(-1))
    got = {}
    for t, n in zip(tri, lab):
        got.setdefault(str(n), []).append(t.reshape(-1))
    if set(want) != set(got):
        return "wrong_nodes"
    for n in want:
        if not same_point_multiset(np.array(want[n]), np.array(got[n]), ex.scale):
            return "triangle_under_wrong_node"
    return None


# ----------------------------------------------------------------------------
# edits (real + model)


def leaves(f):
    return [n for n in f.nodes if n != f.base and not f.children(n) and n in f.parent]


def apply_edit(run, rng, pyrng, scene, sm, kind, serial):
    """Apply one edit to both.  Returns a JSON-able record or None when not applicable."""
    f = sm.forest
    nonroot = [n for n in f.nodes if n in f.parent]
    if kind == "edge_update":
        if not nonroot:
            return None
        n = pyrng.choice(nonroot)
        s = pyrng.choice((1.0, 1.0) + SCALES)
        M = edge_matrix(rng, pyrng.choice(["general", "aligned", "none"]), s, unit=sm.unit)
        scene.graph.update(n, f.parent[n], matrix=M.copy())
        f.update(n, f.parent[n], M)
        return {"edit": kind, "node": n, "matrix": M.tolist()}
    if kind == "edge_nudge":
        # the current edge matrix with its translation moved by a few units of the scene
        if not nonroot:
            return None
        n = pyrng.choice(nonroot)
        M = f.matrix[n].copy()
        M[:3, 3] += np.array([3.0, -1.0, 2.0]) * sm.unit
        _nudge(scene, f, n, M)
        return {"edit": kind, "node": n, "matrix": M.tolist()}
    if kind == "set_base_frame":
        # the scene is expressed in another of its frames (a plain attribute of the graph; `rezero` sets it
        # too).  Always the last edit of a history: later edits name their parent explicitly.
        cands = [n for n in f.nodes if n != f.base and f.world(n) is not None
                 and np.abs(f.world(n) - np.eye(4)).max() > 1e-3 * sm.unit]
        if not cands:
            return None
        n = pyrng.choice(cands)
        scene.graph.base_frame = n
        f.base = n
        return {"edit": kind, "node": n}
    if kind == "reparent":
        cands = [(n, p) for n in nonroot for p in f.nodes if p != f.parent[n] and not f.would_cycle(n, p) and f.depth(p) < 4
                 and f.world(p) is not None]
        if not cands:
            return None
        n, p = pyrng.choice(cands)
        M = edge_matrix(rng, "general", pyrng.choice((1.0, 1.0, 2.0, 0.5)), unit=sm.unit)
        scene.graph.update(n, p, matrix=M.copy())
        f.update(n, p, M)
        return {"edit": kind, "node": n, "parent": p, "matrix": M.tolist()}
    if kind == "remove_leaf":
        lv = leaves(f)
        if not lv:
            return None
        n = pyrng.choice(lv)
        scene.graph.transforms.remove_node(n)
        f.remove_node(n)
        return {"edit": kind, "node": n}
    if kind == "add_instance":
        if not sm.geoms:
            return None
        g = pyrng.choice(sorted(sm.geoms))
        parents = [None] + [n for n in f.nodes if n != f.base and f.depth(n) < 4 and f.world(n) is not None]
        p = pyrng.choice(parents)
        name = "x%d" % serial
        M = edge_matrix(rng, "general" if sm.regime != "small" else pyrng.choice(["general", "none"]), pyrng.choice((1.0, 1.0, 2.0)), unit=sm.unit)
        scene.graph.update(name, p if p is not None else "world", matrix=M.copy(), geometry=g)
        f.update(name, p, M, geometry=g)
        return {"edit": kind, "node": name, "parent": p, "geometry": g, "matrix": M.tolist()}
    if kind == "add_geometry":
        k = pyrng.choice(KINDS if sm.regime != "small" else KINDS[:3])
        gm = random_geom(rng, k, sm.unit)
        gname = "h%d" % serial
        parents = [None] + [n for n in f.nodes if n != f.base and f.depth(n) < 4 and f.world(n) is not None]
        p = pyrng.choice(parents)
        name = "y%d" % serial
        M = edge_matrix(rng, "general", 1.0, unit=sm.unit)
        scene.add_geometry(make_real(gm), node_name=name, geom_name=gname, parent_node_name=p, transform=M.copy())
        sm.geoms[gname] = gm
        f.update(name, p, M, geometry=gname)
        return {"edit": kind, "node": name, "parent": p, "geometry": gname, "kind": k, "V": gm.V.tolist(),
                "F": None if gm.F is None else gm.F.tolist(), "matrix": M.tolist()}
    if kind == "alias_geometry":
        # the SAME geometry object registered under a second name and instanced through it: an
        # in-place edit of the object is then an edit of every geometry name that refers to it
        placed = sorted({g for g in f.geometry.values() if g in sm.geoms})
        if not placed:
            return None
        g = pyrng.choice(placed)
        alias = "k%d" % serial
        parents = [None] + [n for n in f.nodes if n != f.base and f.depth(n) < 4 and f.world(n) is not None]
        p = pyrng.choice(parents)
        name = "z%d" % serial
        M = edge_matrix(rng, "general", 1.0, unit=sm.unit)
        scene.add_geometry(scene.geometry[g], node_name=name, geom_name=alias, parent_node_name=p, transform=M.copy())
        sm.geoms[alias] = sm.geoms[g]
        sm.prefer = g if pyrng.random() < 0.5 else alias
        f.update(name, p, M, geometry=alias)
        return {"edit": kind, "geometry": g, "alias": alias, "node": name, "parent": p, "matrix": M.tolist()}
    if kind == "swap_names":
        placed = sorted({g for g in f.geometry.values() if g in sm.geoms})
        pairs = [(a, b) for a in placed for b in placed if a < b and sm.geoms[a] is not sm.geoms[b]]
        if not pairs:
            return None
        a, b = pyrng.choice(pairs)
        scene.geometry[a], scene.geometry[b] = scene.geometry[b], scene.geometry[a]
        sm.geoms[a], sm.geoms[b] = sm.geoms[b], sm.geoms[a]
        return {"edit": kind, "a": a, "b": b}
    if kind == "delete_geometry":
        placed = sorted({g for g in f.geometry.values() if g in sm.geoms})
        if len(placed) < 2:
            return None
        g = pyrng.choice(placed)
        scene.delete_geometry(g)
        f.remove_geometries([g])
        del sm.geoms[g]
        sm.deleted_geometry = True
        return {"edit": kind, "geometry": g}
    placed = sorted({g for g in f.geometry.values() if g in sm.geoms})
    if not placed:
        return None
    g = pyrng.choice(placed)
    if getattr(sm, "prefer", None) in placed and pyrng.random() < 0.7:
        g = sm.prefer  # the object that is known under two names
    gm, real = sm.geoms[g], scene.geometry[g]
    if kind == "vertex_setitem":
        d = np.round(rng.uniform(0.5, 2.0, size=gm.V.shape[1]), 3) * sm.unit
        if gm.kind == "path2":
            # moving one corner could make the polygon self-intersect (area undefined): move them all
            real.vertices[:] += d
            gm.V[:] += d
            return {"edit": kind, "geometry": g, "index": None, "delta": d.tolist()}
        i = int(rng.integers(len(gm.V)))
        real.vertices[i] += d
        gm.V[i] += d
        return {"edit": kind, "geometry": g, "index": i, "delta": d.tolist()}
    if kind == "vertex_imul":
        k = float(pyrng.choice((2.0, 0.5, 3.0)))
        real.vertices *= k
        gm.V *= k
        return {"edit": kind, "geometry": g, "factor": k}
    if kind == "geom_transform":
        if gm.V.shape[1] == 2:
            a = float(rng.uniform(0.3, 2.5))
            M = np.eye(3)
            M[:2, :2] = [[np.cos(a), -np.sin(a)], [np.sin(a), np.cos(a)]]
            M[:2, 2] = np.round(rng.uniform(-2, 2, size=2), 3)
            real.apply_transform(M)
            gm.V = gm.V @ M[:2, :2].T + M[:2, 2]
        else:
            M = edge_matrix(rng, "general", 1.0, unit=sm.unit)
            real.apply_transform(M)
            gm.V = gm.V @ M[:3, :3].T + M[:3, 3]
            if gm.kind == "voxel":
                gm.recipe["transform"] = (M @ np.array(gm.recipe["transform"])).tolist()
        return {"edit": kind, "geometry": g, "matrix": M.tolist()}
    if kind == "geom_replace":
        new = random_geom(rng, gm.kind, sm.unit)
        if new.V.shape == gm.V.shape and np.allclose(new.V, gm.V, rtol=0, atol=1e-8 * sm.unit):
            new.V += 1.0 * sm.unit  # a replacement with identical content would be a legitimate cache hit
        scene.geometry[g] = make_real(new)
        sm.geoms[g] = new
        return {"edit": kind, "geometry": g, "kind": new.kind, "V": new.V.tolist(), "F": None if new.F is None else new.F.tolist()}
    raise KeyError(kind)


def _nudge(scene, f, n, M):
    # the frame is re-stated completely (matrix and, when it carries one, its geometry)
    if n in f.geometry:
        scene.graph.update(n, f.parent[n], matrix=M.copy(), geometry=f.geometry[n])
    else:
        scene.graph.update(n, f.parent[n], matrix=M.copy())
    f.update(n, f.parent[n], M)


def replay_edit(scene, sm, rec):
    """Re-apply a recorded edit exactly."""
    f = sm.forest
    k = rec["edit"]
    M = np.array(rec["matrix"], dtype=np.float64) if "matrix" in rec else None
    if k == "set_base_frame":
        scene.graph.base_frame = rec["node"]
        f.base = rec["node"]
    elif k == "edge_nudge":
        _nudge(scene, f, rec["node"], M)
    elif k == "edge_update":
        scene.graph.update(rec["node"], f.parent[rec["node"]], matrix=M.copy())
        f.update(rec["node"], f.parent[rec["node"]], M)
    elif k == "reparent":
        scene.graph.update(rec["node"], rec["parent"], matrix=M.copy())
        f.update(rec["node"], rec["parent"], M)
    elif k == "remove_leaf":
        scene.graph.transforms.remove_node(rec["node"])
        f.remove_node(rec["node"])
    elif k == "add_instance":
        scene.graph.update(rec["node"], rec["parent"] or "world", matrix=M.copy(), geometry=rec["geometry"])
        f.update(rec["node"], rec["parent"], M, geometry=rec["geometry"])
    elif k == "add_geometry":
        gm = GeomModel(rec["kind"], rec["V"], rec["F"])
        scene.add_geometry(make_real(gm), node_name=rec["node"], geom_name=rec["geometry"], parent_node_name=rec["parent"], transform=M.copy())
        sm.geoms[rec["geometry"]] = gm
        f.update(rec["node"], rec["parent"], M, geometry=rec["geometry"])
    elif k == "delete_geometry":
        scene.delete_geometry(rec["geometry"])
        f.remove_geometries([rec["geometry"]])
        del sm.geoms[rec["geometry"]]
        sm.deleted_geometry = True
    elif k == "alias_geometry":
        scene.add_geometry(scene.geometry[rec["geometry"]], node_name=rec["node"], geom_name=rec["alias"],
                           parent_node_name=rec["parent"], transform=M.copy())
        sm.geoms[rec["alias"]] = sm.geoms[rec["geometry"]]
        f.update(rec["node"], rec["parent"], M, geometry=rec["alias"])
    elif k == "swap_names":
        a, b = rec["a"], rec["b"]
        scene.geometry[a], scene.geometry[b] = scene.geometry[b], scene.geometry[a]
        sm.geoms[a], sm.geoms[b] = sm.geoms[b], sm.geoms[a]
    else:
        g = rec["geometry"]
        gm, real = sm.geoms[g], scene.geometry[g]
        if k == "vertex_setitem":
            d = np.array(rec["delta"])
            sel = slice(None) if rec["index"] is None else rec["index"]
            real.vertices[sel] += d
            gm.V[sel] += d
        elif k == "vertex_imul":
            real.vertices *= rec["factor"]
            gm.V *= rec["factor"]
        elif k == "geom_transform":
            real.apply_transform(M)
            d = gm.V.shape[1]
            gm.V = gm.V @ M[:d, :d].T + M[:d, d]
            if gm.kind == "voxel":
                gm.recipe["transform"] = (M @ np.array(gm.recipe["transform"])).tolist()
        elif k == "geom_replace":
            new = GeomModel(rec["kind"], rec["V"], rec["F"])
            scene.geometry[g] = make_real(new)
            sm.geoms[g] = new
    sm.hist.append(k)


# geometry of the `kinds` family is not edited in place (primitives and voxel grids have no writable vertex array)
KIND_EDITS = ("edge_update", "edge_update", "reparent", "remove_leaf", "add_instance", "add_geometry", "delete_geometry",
              "geom_transform", "geom_transform")
EDITS = ("edge_update", "edge_update", "reparent", "remove_leaf", "add_instance", "add_geometry", "delete_geometry",
         "vertex_setitem", "vertex_setitem", "vertex_imul", "geom_transform", "geom_replace",
         "alias_geometry", "alias_geometry", "swap_names")


# ----------------------------------------------------------------------------
# derived scenes


def snapshot(scene):
    geo = {}
    for k, g in scene.geometry.items():
        rec = [type(g).__name__, np.asarray(g.vertices if hasattr(g, "vertices") else g.points).tobytes()]
        if hasattr(g, "primitive"):
            rec.append(np.asarray(g.primitive.transform).tobytes())
        if hasattr(g, "faces"):
            rec.append(np.asarray(g.faces).tobytes())
        if hasattr(g, "entities"):
            rec.append(tuple(np.asarray(e.points).tobytes() for e in g.entities))
        geo[k] = tuple(rec)
    t = scene.graph.transforms
    edges = {k: (v["matrix"].tobytes() if "matrix" in v else None) for k, v in t.edge_data.items()}
    nodes = {k: v.get("geometry") for k, v in t.node_data.items()}
    return {"geometry": geo, "geometry_keys": tuple(scene.geometry.keys()), "edges": edges, "parents": dict(t.parents),
            "nodes": nodes, "base_frame": scene.graph.base_frame}


def snapshot_diff(a, b):
    return [k for k in a if a[k] != b[k]]


def raw_placements(D):
    return [a[:3] for a in raw_placements_full(D)]


def raw_placements_full(D):
    """
    Placements of a scene from its raw records only: parents + the edge record of each
    (parent, child) + node geometry names + geometry arrays, through a fresh reference forest.
    -> list of (kind, placed (n,3), faces) ; raises if a geometry frame is not connected.
    """
    t = D.graph.transforms
    f = Forest(D.graph.base_frame)
    for child, parent in t.parents.items():
        rec = t.edge_data.get((parent, child)) or {}
        f.update(child, parent, np.array(rec.get("matrix", np.eye(4)), dtype=np.float64))
    out = []
    for n, attr in t.node_data.items():
        g = attr.get("geometry")
        if g is None:
            continue
        W = f.world(n) if n in f.nodes else (np.eye(4) if n == f.base else None)
        if W is None:
            raise LookupError("frame %r not connected to the base frame" % (n,))
        if g not in D.geometry:
            raise KeyError(g)
        geom = D.geometry[g]
        V = np.asarray(geom.vertices if hasattr(geom, "vertices") else geom.points, dtype=np.float64)
        if V.shape[1] == 2:
            V = np.column_stack([V, np.zeros(len(V))])
        kind = "mesh" if hasattr(geom, "faces") else ("path" if hasattr(geom, "entities") else (
            "cloud" if hasattr(geom, "vertices") else "voxel"))
        out.append((kind, V @ W[:3, :3].T + W[:3, 3], np.asarray(geom.faces) if kind == "mesh" else None, W, V, n, f))
    return out


def derived_graph_drops_near_identity(D, full):
    """
    The derived scene's own graph answers differently from the product of its raw edge records, and leaving
    the near-identity factors out of every 2+ edge path explains every answer (the mechanism keyed
    `graph_world_transform=differs_from_forest sym=near_identity_edge_dropped_from_path` on a built scene).
    """
    differs = False
    for a in full:
        W, n, f = a[3], a[5], a[6]
        try:
            M = np.asarray(D.graph.get(n)[0], dtype=np.float64)
        except Exception:
            return False
        if worlds_differ(M, W):
            differs = True
            if worlds_differ(M, world_skipping_near_identity(f, n)):
                return False
    return differs


def match_placements(expected, actual, scale):
    """
    expected / actual: lists of (kind, P, F).  Greedy one-to-one matching by kind, shape and
    vertex positions in order.  -> (missing expected items, unmatched actual items)
    """
    used = [False] * len(actual)
    missing = []
    for kind, P, F, orig in expected:
        hit = False
        for j, (k2, Q, F2) in enumerate(actual):
            if used[j] or k2 != kind or Q.shape != P.shape:
                continue
            same = same_point_multiset(P, Q, scale) if kind in ("path", "voxel") else close(P, Q, scale)
            if same and (F is None or np.array_equal(F, F2)):
                used[j] = True
                hit = True
                break
        if not hit:
            missing.append((orig, P))
    extra = [actual[j] for j in range(len(actual)) if not used[j]]
    return missing, extra


def expected_from(sm, transform=None, worlds=None, only=None):
    out = []
    for node, gname, kind, W, P, F in sm.placements(worlds):
        if only is not None and node not in only:
            continue
        if transform is not None:
            P = P @ transform[:3, :3].T + transform[:3, 3]
        out.append(("path" if kind in ("path2", "path3") else kind, P, F, kind))
    return out


def stale_edge_geometry(scene):
    """some raw edge record still names a geometry its target frame no longer carries (C09, remove_geometries)"""
    t = scene.graph.transforms
    return any("geometry" in rec and t.node_data.get(k[1], {}).get("geometry") != rec["geometry"]
               for k, rec in t.edge_data.items())


def stale_edge(scene):
    """some raw edge record (u, v) is not the edge into v any more (C09, re-parent)"""
    t = scene.graph.transforms
    return any(t.parents.get(k[1]) != k[0] for k in t.edge_data)


def rotated_parent_translated_child(sm):
    """some instance hangs (directly or not) on an edge with a translation below a frame whose world
    linear part is not diagonal, i.e. does not commute with a per-axis scale"""
    f = sm.forest
    for node in f.nodes_geometry():
        n = node
        while n in f.parent:
            p = f.parent[n]
            if np.abs(f.matrix[n][:3, 3]).max() > 0 and p != f.base:
                Wp = f.world(p)
                if Wp is not None and not is_diag(Wp[:3, :3]):
                    return True
            n = p
    return False


def path2_moved(sm):
    f = sm.forest
    return any(sm.geoms[g].kind == "path2" and np.abs(W - np.eye(4)).max() > 1e-9 for _, g, W in f.instances() if g in sm.geoms)


def derived_ops(rng, pyrng, sm, battery):
    """[(op name, option class, parameters)]"""
    ops = [("copy", "-", {})]
    ops.append(("scaled", "uniform", {"scale": 2.0 if battery else float(pyrng.choice((0.5, 2.0, 10.0)))}))
    ops.append(("scaled", "axis", {"scale": [1.0, 2.0, 3.0] if battery else [float(v) for v in pyrng.sample([0.5, 1.0, 2.0, 3.0, 1.5], 3)]}))
    ops.append(("scaled", "axis_equal", {"scale": [2.0, 2.0, 2.0]}))
    extras = not battery or not sm.hist  # battery: once per scene (the un-edited scenario), not per history
    if sm.regime != "lowprec" and extras:
        # factors close to one: the effect (1e-5 x the coordinates) is ten times the tolerance
        k = 1.00001 if (battery or pyrng.random() < 0.5) else 0.99999
        ops.append(("scaled", "uniform_near_one", {"scale": k}))
        ops.append(("scaled", "axis_near_one", {"scale": [k, 1.0, 1.0] if (battery or pyrng.random() < 0.5) else [1.0, k, 2.0 - k]}))
    ops.append(("rezero", "-", {}))
    ops.append(("convert_units", "in->mm", {"current": "in", "desired": "mm"}))
    M = axis_angle_to_matrix(_unit([2, -1, 1]), 1.1)
    M[:3, 3] = np.array([3.0, -1.0, 2.0]) * sm.unit
    ops.append(("apply_transform", "rigid", {"matrix": M.tolist()}))
    M2 = M.copy()
    M2[:3, :3] *= 2.0
    ops.append(("apply_transform", "similarity", {"matrix": M2.tolist()}))
    if sm.regime == "small":
        M3 = np.eye(4)
        M3[:3, 3] = np.array([3.0, -1.0, 2.0]) * sm.unit
        ops.append(("apply_transform", "translation", {"matrix": M3.tolist()}))
    # the convenience routes to the same in-place transform (`Geometry.apply_translation` / `apply_scale`, which
    # `Scene` inherits): a vector of a few units of the scene (<= 1e-8 per component in the `small` regime), a step
    # that is small next to the scene but a hundred times the tolerance, factors for every axis / per axis / close
    # to one
    ops.append(("apply_translation", "vector", {"translation": (np.array([3.0, -1.0, 2.0]) * sm.unit).tolist()}))
    if extras:
        ops.append(("apply_scale", "uniform", {"scale": 2.0 if battery else float(pyrng.choice((0.5, 2.0, 10.0)))}))
        ops.append(("apply_translation", "small_step", {"rel": 1e3 * TOL.r, "direction": [1.0, -1.0, 0.5]}))
        ops.append(("apply_scale", "axis", {"scale": [1.0, 2.0, 3.0]}))
        if sm.regime != "lowprec":
            ops.append(("apply_scale", "uniform_near_one", {"scale": 1.00001 if (battery or pyrng.random() < 0.5) else 0.99999}))
    # the copy is edited afterwards (geometry reference of a node, an edge, vertices, a geometry deleted):
    # the source must not notice
    ops.append(("copy", "then_edit", {}))
    ops.append(("add", "other", {}))
    ops.append(("add", "self", {}))
    ops.append(("append_scenes", "clash3", {}))
    # a two-step derivation: the scene is re-zeroed (its base frame changes) and then added
    ops.append(("add", "rezeroed_left", {}))
    ops.append(("add", "rezeroed_right", {}))
    inner = [n for n in sm.forest.nodes if n != sm.forest.base and sm.forest.children(n) and sm.forest.world(n) is not None]
    for n in (inner[:2] if battery else pyrng.sample(inner, min(2, len(inner)))):
        ops.append(("subscene", "inner", {"node": n}))
    # a frame that carries an instance and nothing below it: the subscene is that instance alone
    leaf = [n for n in sm.forest.nodes_geometry() if not sm.forest.children(n) and n != sm.forest.base and sm.forest.world(n) is not None]
    for n in (sorted(leaf)[:1] if battery else pyrng.sample(sorted(leaf), min(1, len(leaf)))):
        if extras:
            ops.append(("subscene", "leaf", {"node": n}))
    if not battery:
        ops.append(("subscene", "base", {"node": sm.forest.base}))
    return ops


def other_scene(unit=1.0):
    """A second scene whose geometry and frame names clash with the generated ones."""
    spec = {
        "geoms": {"g0": fixed_geom("mesh", unit), "g1": fixed_geom("cloud", unit)},
        "frames": [
            ("f0", None, _fixed_M(0, unit), None),
            ("f1", "f0", _fixed_M(1, unit), "g0"),
            ("m0", None, _fixed_M(2, unit), "g1"),
        ],
        "unplaced": [],
    }
    return build(spec)


def _fixed_M(i, unit=1.0):
    M = axis_angle_to_matrix(_unit([1 + i, 2, -1]), 0.5 + 0.4 * i)
    M[:3, 3] = np.array([7.0 + i, -6.0, 5.0 - i]) * unit
    return M


def small_regime_key(key, opkey, op, par, scene, sm, exq, expected, actual, S):
    """Narrow keys for the mechanisms that only coordinates below 1e-8 reach."""
    if op == "rezero" and exq.centroid is not None and 0 < np.abs(exq.centroid).max() <= NEAR_IDENTITY:
        unmoved = expected_from(sm, None, None)
        m, e = match_placements(unmoved, actual, S)
        if not m and not e:
            return "derived=rezero sym=not_moved centroid=within_1e-8_of_origin"
    if op == "apply_transform":
        Tm = np.array(par["matrix"], dtype=np.float64)
        f = sm.forest
        for n, p in f.parent.items():
            if p == f.base and float(np.ptp(Tm @ f.matrix[n] - f.matrix[n])) < NEAR_IDENTITY:
                return "derived=apply_transform sym=misplaced edge_change=below_1e-8"
    f = sm.forest
    if "rotated_parent_translated_child=yes" in key or ("path2_among_them=yes" in key and "path2_moved=yes" in key):
        return key  # the recorded per-axis / Path2D defects explain it at any size
    if any(near_identity(M) for M in f.matrix.values()) or sm.near_identity_nodes():
        return key + " input=matrix_within_1e-8_of_identity"
    return key


def edit_the_copy(run, D, unit):
    """
    Deterministic edits of a derived scene through the public API, each of which rewrites a record that
    a shallow copy would share with the source: the matrix of an edge, the geometry reference of a node
    (re-pointed / removed with its geometry), the vertex array of a geometry, a geometry replaced.
    """
    t = D.graph.transforms
    gnodes = [n for n in D.graph.nodes_geometry]
    names = list(D.geometry.keys())
    if gnodes:
        n = gnodes[0]
        parent = t.parents.get(n)
        if parent is not None:
            M = np.array(t.edge_data[(parent, n)].get("matrix", np.eye(4)), dtype=np.float64).copy()
            M[:3, 3] += np.array([1.0, 2.0, 3.0]) * unit
            D.graph.update(n, parent, matrix=M)
            run.count("copy_edit:edge_matrix")
        g_now = t.node_data[n].get("geometry")
        others = [g for g in names if g != g_now]
        if others and parent is not None:
            D.graph.update(n, parent, geometry=others[0])
            run.count("copy_edit:node_geometry_repointed")
    if names:
        writable = [k for k in names if hasattr(D.geometry[k], "vertices") and not hasattr(D.geometry[k], "primitive")]
        if writable:
            g = D.geometry[writable[-1]]
            g.vertices *= 2.0
            run.count("copy_edit:vertices_scaled_in_place")
        D.delete_geometry(names[0])
        run.count("copy_edit:delete_geometry")


def run_derived(run, scene, sm, op, cls, par, case, worlds):
    """Execute one derived-scene operation on `scene` and judge it."""
    import trimesh

    ec = sm.edge_class()
    kinds = sm.kinds_present()
    special = sm.special()
    sfx = (" special=%s" % special) if special else ""

    def _viol(key, what, c):
        # mechanisms that are explained by the graph alone keep their key whatever the geometry class
        plain = ("rotated_parent_translated_child=yes" in key or ("path2_among_them=yes" in key and "path2_moved=yes" in key)
                 or "instances=none" in key or "cause=" in key)
        run.violation(key if plain else key + sfx, what, c)

    near_one = cls.endswith("_near_one")
    kcls = cls.replace("_near_one", "")  # a factor close to one is an option of the same operation
    opkey = op if (op in ("copy", "rezero", "apply_transform", "convert_units", "apply_translation") and cls != "then_edit") else "%s:%s" % (op, kcls)
    inst = "some" if sm.forest.instances() else "none"
    # operations that go through the edge-list export inherit a defect recorded under C09
    cause = ""
    if op in ("add", "append_scenes", "subscene") or (op == "scaled" and kcls == "axis"):
        if stale_edge_geometry(scene):
            cause = " cause=stale_edge_geometry"
        elif stale_edge(scene) and op != "scaled":
            cause = " cause=stale_edge"
    exq = Expect(sm, worlds)
    S = exq.scale
    if (op == "rezero" or cls.startswith("rezeroed")) and special in RAW_BOUNDED:
        b = scene.bounds
        if special == "path_arc" or b is None or exq.bounds is None or not close(exq.bounds, b, S):
            # re-zeroing moves the scene by its own centroid: approximate for arcs, wrong (and recorded under
            # read=bounds/extents/centroid) while the bounds count rows nothing references / two corners
            run.skip("rezero not judged: centroid of a scene whose bounds are not those of its vertex arrays")
            return 0
    src = scene
    extra_sources = []
    try:
        if op in ("rezero", "apply_transform", "apply_translation", "apply_scale"):
            src = None  # in-place operations run on a copy; the copy is what must change
            D = scene.copy()
            if op == "apply_translation":
                t = np.array(par["translation"], dtype=np.float64) if "translation" in par else (
                    par["rel"] * S * np.array(par["direction"], dtype=np.float64))
                D.apply_translation(t.tolist() if cls == "vector" else t)
                Tm = np.eye(4)
                Tm[:3, 3] = t
                expected = expected_from(sm, Tm, worlds)
            elif op == "apply_scale":
                sc = par["scale"]
                D.apply_scale(sc)
                Tm = np.eye(4)
                Tm[:3, :3] = np.diag([sc] * 3 if kcls == "uniform" else sc)
                expected = expected_from(sm, Tm, worlds)
                S = S * float(np.max(np.diag(Tm)[:3]))
            elif op == "rezero":
                D.rezero()
                c = exq.centroid if exq.centroid is not None else np.zeros(3)
                Tm = np.eye(4)
                Tm[:3, 3] = -c
                expected = expected_from(sm, Tm, worlds)
            else:
                Tm = np.array(par["matrix"], dtype=np.float64)
                D.apply_transform(Tm)
                expected = expected_from(sm, Tm, worlds)
        elif op == "copy" and cls == "then_edit":
            before = snapshot(scene)
            D = scene.copy()
            edit_the_copy(run, D, sm.unit)
            expected = None  # only the source is judged
        elif op == "copy":
            before = snapshot(scene)
            D = scene.copy()
            expected = expected_from(sm, None, worlds)
        elif op == "scaled":
            before = snapshot(scene)
            sc = par["scale"]
            D = scene.scaled(sc if kcls == "uniform" else list(sc))
            Tm = np.eye(4)
            Tm[:3, :3] = np.diag([sc] * 3 if kcls == "uniform" else sc)
            expected = expected_from(sm, Tm, worlds)
            S = S * float(np.max(np.diag(Tm)[:3]))
        elif op == "convert_units":
            src = scene.copy()
            src.units = par["current"]
            before = snapshot(src)
            D = src.convert_units(par["desired"])
            Tm = np.eye(4)
            Tm[:3, :3] *= 25.4
            expected = expected_from(sm, Tm, worlds)
            S = S * 25.4
        elif op == "add" and cls.startswith("rezeroed"):
            src = None
            D0 = scene.copy()
            try:
                D0.rezero()
            except Exception:
                run.skip("add after rezero: the rezero step itself raised (judged under derived=rezero)")
                return 0
            c = exq.centroid if exq.centroid is not None else np.zeros(3)
            if sm.regime == "small" and 0 < np.abs(c).max() <= NEAR_IDENTITY:
                run.skip("add after rezero: centroid within 1e-8 of the origin (judged under derived=rezero)")
                return 0
            Tm = np.eye(4)
            Tm[:3, 3] = -c
            o_scene, o_sm = other_scene(sm.unit)
            extra_sources.append((o_scene, snapshot(o_scene)))
            D = (D0 + o_scene) if cls == "rezeroed_left" else (o_scene + D0)
            expected = expected_from(sm, Tm, worlds) + expected_from(o_sm)
        elif op in ("add", "append_scenes"):
            before = snapshot(scene)
            if cls == "self":
                D = scene + scene
                expected = expected_from(sm, None, worlds) * 2
            else:
                o_scene, o_sm = other_scene(sm.unit)
                o_before = snapshot(o_scene)
                extra_sources.append((o_scene, o_before))
                if op == "add":
                    D = scene + o_scene
                    expected = expected_from(sm, None, worlds) + expected_from(o_sm)
                else:
                    D = trimesh.scene.scene.append_scenes([scene, o_scene, scene])
                    expected = expected_from(sm, None, worlds) * 2 + expected_from(o_sm)
        elif op == "subscene":
            before = snapshot(scene)
            node = par["node"]
            D = scene.subscene(node)
            f = sm.forest
            # every instance at or below `node` ("the part of the scene that succeeds the node"; the successors
            # of a node include it), relative to `node`
            sub = set(f.descendants(node))
            if node == f.base:
                Tm = np.eye(4)
            else:
                Wn = worlds[node] if (worlds is not None and node in worlds) else f.world(node)
                Tm = np.linalg.inv(Wn)
            expected = expected_from(sm, Tm, worlds, only=sub)
            S = max(TOL.floor, max([float(np.abs(e[1]).max()) for e in expected if len(e[1])] or [TOL.floor]))
        else:
            raise KeyError(op)
    except Exception as e:
        if special == "primitive" and op == "scaled" and kcls == "axis" and isinstance(e, ValueError):
            # a Box / Cylinder cannot take a per-axis scale and stay one: Primitive.apply_transform refuses
            run.count("derived_refused:scaled:axis:primitive")
            return 0
        key = ("derived=%s sym=not_preserved%s" % (opkey, cause)) if cause else (
            "derived=%s sym=exception:%s instances=%s" % (opkey, type(e).__name__, inst))
        if op in ("apply_translation", "apply_scale") and inst == "none" and isinstance(e, KeyError):
            # the convenience routes end in Scene.apply_transform: its recorded KeyError on a graph without edges
            key = "derived=apply_transform sym=exception:KeyError instances=none"
        if special == "voxel" and isinstance(e, AttributeError) and not cause:
            # `.vertices` of a geometry that has none: raised whether or not the grid is instanced
            key = "derived=%s sym=exception:AttributeError" % opkey
        _viol(key,
                      "a derived-scene operation raised", dict(case, op=op, option=cls, params=par, error=repr(e)[:300], kinds=kinds))
        return 1
    run.count("derived:%s:%s" % (op, cls))
    bad = 0
    # 1. the source is untouched
    if src is not None:
        for sc_, bf in [(src, before)] + extra_sources:
            diff = snapshot_diff(bf, snapshot(sc_))
            if diff:
                bad += 1
                _viol("derived=%s sym=source_modified part=%s" % (opkey, "+".join(diff)),
                              "the operation modified the scene it was derived from", dict(case, op=op, option=cls, params=par, changed=diff))
    if expected is None:
        return bad
    # 2. placements of the derived scene from its raw records
    try:
        full = raw_placements_full(D)
        actual = [a[:3] for a in full]
    except Exception as e:
        key = ("derived=%s sym=not_preserved%s" % (opkey, cause)) if cause else (
            "derived=%s sym=result_unplaceable:%s" % (opkey, type(e).__name__))
        _viol(key,
                      "the derived scene references a missing geometry or has a disconnected geometry frame",
                      dict(case, op=op, option=cls, params=par, error=repr(e)[:300]))
        return bad + 1
    missing, extra = match_placements(expected, actual, S)
    if op == "subscene" and par["node"] in sm.forest.nodes_geometry():
        run.count("subscene_of_a_frame_that_carries_an_instance")
    if missing or extra:
        bad += 1
        if cause:
            key = "derived=%s sym=not_preserved%s" % (opkey, cause)
        else:
            sym = "misplaced" if (missing and extra and len(missing) == len(extra)) else ("missing_instance" if missing else "extra_instance")
            p2 = "yes" if any(k == "path2" for k, _ in missing) else "no"
            key = "derived=%s sym=%s path2_among_them=%s" % (opkey, sym, p2)
            if op == "scaled" and kcls == "axis":
                key += " rotated_parent_translated_child=%s" % ("yes" if rotated_parent_translated_child(sm) else "no")
            if (op == "scaled" and kcls != "axis") or op == "convert_units":
                key += " path2_moved=%s" % ("yes" if path2_moved(sm) else "no")
            if near_one:
                # is the result the source, not scaled at all?
                m2, e2 = match_placements(expected_from(sm, None, worlds), actual, S)
                if not m2 and not e2:
                    key = "derived=%s sym=not_scaled factor=within_1e-5_of_one" % opkey
            if op == "apply_translation":
                # is the result the source, not moved at all?
                m2, e2 = match_placements(expected_from(sm, None, worlds), actual, S)
                if not m2 and not e2:
                    tmax = float(np.abs(Tm[:3, 3]).max())
                    key = "derived=apply_translation sym=not_moved translation=%s" % (
                        "within_1e-8" if tmax <= NEAR_IDENTITY else "small_next_to_the_scene" if cls == "small_step" else "ordinary")
            if op == "subscene" and missing and not extra and par["node"] in sm.forest.nodes_geometry():
                # is everything there but the instance that sits on the requested frame itself?
                m3, e3 = match_placements(expected_from(sm, Tm, worlds, only=sub - {par["node"]}), actual, S)
                if not m3 and not e3:
                    key = "derived=%s sym=missing_instance which=instance_on_the_requested_frame" % opkey
            if sm.regime == "small" and "factor=within_1e-5_of_one" not in key and "instance_on_the_requested_frame" not in key \
                    and "sym=not_moved translation=" not in key:
                key = small_regime_key(key, opkey, op, par, scene, sm, exq, expected, actual, S)
        if "factor=within_1e-5_of_one" in key or "instance_on_the_requested_frame" in key or "sym=not_moved translation=" in key:
            run.violation(key, "placements of the derived scene are not the source placements scaled / moved accordingly",
                          dict(case, op=op, option=cls, params=par, kinds=kinds, edge_class=ec))  # whatever the geometry class
            return bad
        _viol(key, "placements of the derived scene are not the source placements scaled / moved accordingly",
                      dict(case, op=op, option=cls, params=par, kinds=kinds, edge_class=ec,
                           missing=[(k, _short(P)) for k, P in missing[:2]], extra=[(k, _short(P)) for k, P, _ in extra[:2]]))
        return bad
    # 3. the derived scene's own reads agree with its placements
    try:
        pts = [a[1] for a in actual if len(a[1])]
        if pts and special not in RAW_BOUNDED:
            allp = np.vstack(pts)
            wb = np.array([allp.min(axis=0), allp.max(axis=0)])
            rb = D.bounds
            if rb is None or not close(wb, rb, S):
                bad += 1
                dkey = "derived=%s sym=derived_read_wrong read=bounds" % opkey
                if sm.regime == "small" and derived_graph_drops_near_identity(D, full):
                    dkey = "graph_world_transform=differs_from_forest sym=near_identity_edge_dropped_from_path"
                _viol(("derived=%s sym=not_preserved%s" % (opkey, cause)) if cause else dkey,
                              "bounds of the derived scene disagree with its own raw placements",
                              dict(case, op=op, option=cls, params=par, observed=rb, expected=wb))
        tris = [a[1][a[2]] for a in actual if a[0] == "mesh"]
        if tris:
            wt = np.vstack(tris).reshape(-1, 9)
            rt = np.asarray(D.triangles, dtype=np.float64).reshape(-1, 9)
            if not same_point_multiset(wt, rt, S):
                bad += 1
                dkey = "derived=%s sym=derived_read_wrong read=triangles" % opkey
                if sm.regime == "small" and derived_graph_drops_near_identity(D, full):
                    dkey = "graph_world_transform=differs_from_forest sym=near_identity_edge_dropped_from_path"
                elif any(near_identity(a[3]) for a in full):
                    # the read of the derived scene, not the operation: same mechanism as read=triangles
                    alt = [(a[4] if near_identity(a[3]) else a[1])[a[2]] for a in full if a[0] == "mesh"]
                    if rt.shape == wt.shape and same_point_multiset(np.vstack(alt).reshape(-1, 9), rt, S):
                        dkey = "derived_read=triangles sym=%s" % NI_DROPPED
                _viol(("derived=%s sym=not_preserved%s" % (opkey, cause)) if cause else dkey,
                              "triangles of the derived scene disagree with its own raw placements",
                              dict(case, op=op, option=cls, params=par))
    except Exception as e:
        bad += 1
        _viol(("derived=%s sym=not_preserved%s" % (opkey, cause)) if cause else "derived=%s sym=derived_read_exception:%s" % (opkey, type(e).__name__),
                      "reading the derived scene raised", dict(case, op=op, option=cls, params=par, error=repr(e)[:300]))
    return bad


# ----------------------------------------------------------------------------
# one scenario


def scenario(run, tag, spec, rng, pyrng, n_edits, battery=False, recorded_edits=None, forced=None, again=False):
    regime(spec.get("regime"))
    try:
        _scenario(run, tag, spec, rng, pyrng, n_edits, battery, recorded_edits, forced, again)
    finally:
        regime(None)


class _Collect:
    """A `run` whose violations are collected instead of reported (everything else is passed on, or dropped)."""

    def __init__(self, run, quiet=False):
        self._run, self._quiet, self.got = run, quiet, []

    def violation(self, key, what, case):
        self.got.append((key, what, case))

    def __getattr__(self, name):
        if self._quiet and name in ("count", "skip", "case", "state", "note", "sample"):
            return lambda *a, **k: None
        return getattr(self._run, name)


AGAIN = "history=derived_operations_then_new_frame_then_derived_again"
AGAIN_OPS = (("subscene", "base"), ("apply_transform", "rigid"), ("apply_translation", "vector"), ("copy", "-"), ("add", "other"))


def rebuilt(spec, edits):
    """The same scene from scratch: built, edited, nothing read or derived in between."""
    scene, sm = build(spec)
    for rec in edits:
        replay_edit(scene, sm, rec)
    return scene, sm


def derive_again(run, scene, sm, spec, case, rng, pyrng, battery, first_ops):
    """
    The derived operations RUN TWICE with a frame added in between: after every derived operation ran on the
    scene (the sub-scene of the base frame among them: whatever the graph memoises for them is warm, and a copy
    takes the graph's memo along), a new instance / a new geometry is hung below the base frame or an inner
    frame, and the operations run again.  A key gets the AGAIN suffix when the same operation on the same scene
    rebuilt from scratch (same edits, nothing derived before) is judged right.
    """
    n_first = len(case["edits"])
    serial = 100 + n_first
    rec = None
    for kind in pyrng.sample(("add_instance", "add_geometry"), 2):
        try:
            rec = apply_edit(run, rng, pyrng, scene, sm, kind, serial)
        except Exception as e:
            run.violation("edit=%s sym=exception:%s" % (kind, type(e).__name__), "a scene edit raised",
                          dict(case, edit=kind, error=repr(e)[:300]))
            return
        if rec is not None:
            sm.hist.append(kind)
            break
    if rec is None:
        return
    recs = [rec]
    if sm.geoms and sm.forest.depth(rec["node"]) < 4 and pyrng.random() < 0.6:
        # ... and a further instance below the frame that was just added (a chain of two new frames)
        g = pyrng.choice(sorted(sm.geoms))
        M = edge_matrix(rng, "general" if sm.regime != "small" else pyrng.choice(["general", "none"]), 1.0, unit=sm.unit)
        name2 = "x%d" % (serial + 1)
        scene.graph.update(name2, rec["node"], matrix=M.copy(), geometry=g)
        sm.forest.update(name2, rec["node"], M, geometry=g)
        sm.hist.append("add_instance")
        recs.append({"edit": "add_instance", "node": name2, "parent": rec["node"], "geometry": g, "matrix": M.tolist()})
        run.count("derive_again:chain_of_two_new_frames")
    case = dict(case, edits=case["edits"] + recs, n_first=n_first, derived_first=[list(o) for o in first_ops])
    run.count("edit:" + rec["edit"])
    run.count("derive_again:frame_added_below_%s" % ("the_base_frame" if rec["parent"] is None else "an_inner_frame"))
    do_reads(run, scene, sm, ["bounds", "triangles", "dump"], case, after=rec["edit"], edited=True)
    worlds, consistent = real_worlds_quiet(scene, sm)
    if worlds is None or not consistent or not sm.all_connected():
        run.skip("second round of derived operations skipped: scene graph inconsistent with its edges (C09)")
        return
    ops = [o for o in derived_ops(rng, pyrng, sm, True) if (o[0], o[1]) in AGAIN_OPS]
    ops.insert(0, ("subscene", "base", {"node": sm.forest.base}))
    if rec["parent"] is not None:
        ops.insert(1, ("subscene", "inner", {"node": rec["parent"]}))
    dig = sm.digest()
    for op, cls, par in ops:
        dcase = dict(case, derived=[op, cls, par])
        col = _Collect(run)
        run_derived(col, scene, sm, op, cls, par, dcase, None)
        run.case("derived_again:%s:%s" % (op, cls), dig, op, cls, nontrivial=sm.nontrivial())
        if not col.got:
            continue
        fresh = _Collect(run, quiet=True)
        try:
            f_scene, f_sm = rebuilt(spec, case["edits"])
            run_derived(fresh, f_scene, f_sm, op, cls, par, dcase, None)
        except Exception:
            pass
        fresh_keys = {k for k, _, _ in fresh.got}
        for key, what, c in col.got:
            # operation + symptom + history: the geometry classes and matrices of the scene take no part
            run.violation(key if key in fresh_keys else " ".join(key.split(" ")[:2]) + " " + AGAIN, what, c)


def _scenario(run, tag, spec, rng, pyrng, n_edits, battery, recorded_edits, forced, again=False):
    scene, sm = build(spec)
    case = {"spec": spec_to_json(spec), "edits": [], "tag": tag, "battery": battery}
    reads_all = list(READS)
    # first read: everything (warms Scene._cache and the graph caches)
    bad = do_reads(run, scene, sm, reads_all, case, after="build")
    bad += _tri_node(run, scene, sm, case, "build")
    serial = 0
    pre = None
    edits = recorded_edits if recorded_edits is not None else [None] * n_edits
    pool = KIND_EDITS if sm.special() else EDITS
    for rec in edits:
        serial += 1
        pre_now = dict(scene._cache.cache)  # raw entries (objects) cached before this edit
        if rec is None:
            kind = forced[serial - 1] if forced else pyrng.choice(pool)
            if kind == "set_base_frame" and serial != len(edits):
                continue  # only ever the last edit of a history
            try:
                rec = apply_edit(run, rng, pyrng, scene, sm, kind, serial)
            except Exception as e:
                run.violation("edit=%s sym=exception:%s" % (kind, type(e).__name__), "a scene edit raised",
                              dict(case, edit=kind, error=repr(e)[:300]))
                return
            if rec is None:
                continue
            sm.hist.append(kind)
        else:
            replay_edit(scene, sm, rec)
        pre = pre_now
        case["edits"].append(rec)
        run.count("edit:" + rec["edit"])
        run.state("forest_shape", sm.forest.shape())
        sub = reads_all if (battery or pyrng.random() < 0.5) else pyrng.sample(reads_all, 5)
        bad += do_reads(run, scene, sm, sub, case, after=rec["edit"], edited=True, pre_edit=pre)
        if bad > 12:
            break
    if case["edits"]:
        bad += do_reads(run, scene, sm, reads_all, case, after=case["edits"][-1]["edit"], edited=True, pre_edit=pre)
        bad += _tri_node(run, scene, sm, case, case["edits"][-1]["edit"], pre)
    run.state("kinds", "+".join(sm.kinds_present()))
    run.state("edge_class", sm.edge_class())
    run.state("regime", str(sm.regime))
    nt = sm.nontrivial()
    dig = sm.digest()
    run.case("reads:" + ("battery" if battery else "random"), dig, nontrivial=nt,
             sample={"tag": tag, "frames": len(sm.forest.nodes), "kinds": sm.kinds_present(), "edits": sm.hist} if run.evaluations % 97 == 0 else None)
    # derived scenes from the final state
    if not sm.all_connected():
        return
    worlds, consistent = real_worlds_quiet(scene, sm)
    if worlds is None:
        run.skip("derived operations skipped: graph cannot resolve a frame (C09)")
        return
    if not consistent:
        # the graph answers differently from the product of its own edge records (C09): a derived
        # scene rebuilt from those records cannot agree with the source's reads either way
        run.skip("derived operations skipped: scene graph inconsistent with its edges (C09)")
        return
    if sm.forest.base in sm.forest.parent:
        # copy / scaled / rezero / apply_transform / + are written for a base frame that is the root of its tree
        # (observed: KeyError, re-parented base frame, self-edges); only the reads are judged in that state
        run.skip("derived operations not run: the base frame is not the root of its tree (reads are judged)")
        return
    use_worlds = None
    first_ops = derived_ops(rng, pyrng, sm, battery)
    if again and not any((o[0], o[1]) == ("subscene", "base") for o in first_ops):
        first_ops.append(("subscene", "base", {"node": sm.forest.base}))
    for op, cls, par in first_ops:
        dcase = dict(case, derived=[op, cls, par])
        run_derived(run, scene, sm, op, cls, par, dcase, use_worlds)
        run.case("derived:%s:%s" % (op, cls), dig, op, cls, nontrivial=nt)
    # and the source still reads the same after all of that
    last = case["edits"][-1]["edit"] if case["edits"] else None
    do_reads(run, scene, sm, ["bounds", "area", "triangles"], case, after="derived_ops" if last != "set_base_frame" else last,
             pre_edit=pre if last == "set_base_frame" else None)
    if again and last != "set_base_frame" and not run.out_of_time(0.95):
        derive_again(run, scene, sm, spec, case, rng, pyrng, battery, first_ops)


def real_worlds_quiet(scene, sm):
    worlds, ok = {}, True
    for node, gname, W in sm.forest.instances():
        try:
            M, g = scene.graph.get(node)
        except Exception:
            return None, False
        M = np.asarray(M, dtype=np.float64)
        worlds[node] = M
        if worlds_differ(M, W) or g != gname:
            ok = False
    # frames that carry no instance take part in the derived operations too (apply_transform re-writes the
    # edges below the base frame from graph[child], subscene is relative to an inner frame)
    for n in sm.forest.nodes:
        if n in worlds or n == sm.forest.base:
            continue
        W = sm.forest.world(n)
        if W is None:
            continue
        try:
            M = np.asarray(scene.graph.get(n)[0], dtype=np.float64)
        except Exception:
            return None, False
        if worlds_differ(M, W):
            ok = False
    return worlds, ok


def _tri_node(run, scene, sm, case, after, pre_edit=None):
    if not sm.all_connected():
        return 0
    worlds, consistent = real_worlds_quiet(scene, sm)
    if worlds is None:
        return 0
    ex = Expect(sm, None if consistent else worlds)
    if len(ex.triangles) == 0:
        return 0
    try:
        sym = judge_triangles_node(scene, ex)
    except Exception as e:
        sym = "exception:%s" % type(e).__name__
    run.count("triangles_node_checks")
    near = sm.near_identity_nodes(worlds)
    if sym and near:
        try:
            if any(judge_triangles_node(scene, e_) is None for e_ in dropped_expectations(sm, worlds, near)):
                run.violation("read=triangles_node sym=%s" % NI_DROPPED,
                              "triangles_node labels triangles that were left where the geometry is defined", dict(case, after=after))
                return 1
        except Exception:
            pass
    if sym and after == "set_base_frame" and pre_edit and any(
            pre_edit.get(k) is not None and scene._cache.cache.get(k) is pre_edit.get(k) for k in ("triangles", "triangles_node")):
        run.violation(STALE_AFTER_BASE_FRAME, "triangles / triangles_node cached before the base frame changed were served", dict(case, after=after))
        return 1
    if sym:
        run.violation("read=triangles_node sym=%s edge_class=%s%s" % (sym, sm.edge_class(), (" special=%s" % sm.special()) if sm.special() else ""),
                      "triangles_node does not label each placed triangle with its frame", dict(case, after=after))
        return 1
    return 0


def workload(run):
    idx = 0
    for tag, spec in battery_specs():
        idx += 1
        if not run.mine(idx):
            continue
        if run.out_of_time(0.72):
            run.inconclusive("fixed battery did not finish within the budget")
            break
        for n_edits in (0, 2):
            # every other scene (un-edited / edited in turn): the derived operations run a second time after a frame was added
            scenario(run, tag, spec, run.rng, run.pyrng, n_edits, battery=True, again=(idx % 4 == (2 if n_edits else 0)))
        # one geometry object under two names edited in place; two geometries trading names
        F = (("alias_geometry", "vertex_imul"), ("alias_geometry", "vertex_setitem"),
             ("alias_geometry", "geom_transform"), ("swap_names",),
             ("alias_geometry", "swap_names", "vertex_imul"))
        for forced in (F[idx % 5],):
            if not run.out_of_time(0.6):
                scenario(run, tag + ":shared_object", spec, run.rng, run.pyrng, len(forced), battery=True, forced=forced)
        # the scene is expressed in another of its frames after everything was read (and cached)
        if idx % 4 == 0 and not run.out_of_time(0.6):
            forced = (("edge_update", "set_base_frame"), ("set_base_frame",))[(idx // 4) % 2]
            scenario(run, tag + ":base_frame", spec, run.rng, run.pyrng, len(forced), battery=True, forced=forced)
    run.note("battery_main_seconds", round(run.elapsed(), 1))
    # geometry classes whose bounds are not the AABB of a vertex array, primitives, voxel grids
    for tag, spec in kinds_battery_specs():
        idx += 1
        if not run.mine(idx):
            continue
        if run.out_of_time(0.8):
            run.inconclusive("kinds battery did not finish within the budget")
            break
        scenario(run, tag, spec, run.rng, run.pyrng, 0, battery=True)
        scenario(run, tag + ":edited", spec, run.rng, run.pyrng, 2, battery=True, forced=("geom_transform", "set_base_frame"))
    run.note("battery_kinds_seconds", round(run.elapsed(), 1))
    # low-precision rotation factors (world matrices that `repair_rigid` looks at) and scenes in a unit of 1e-9
    for tag, spec in regime_battery_specs():
        idx += 1
        if not run.mine(idx):
            continue
        if run.out_of_time(0.86):
            run.inconclusive("regime battery did not finish within the budget")
            break
        for n_edits in (0, 2):
            scenario(run, tag, spec, run.rng, run.pyrng, n_edits, battery=True, again=(n_edits == 2))
        scenario(run, tag + ":nudged", spec, run.rng, run.pyrng, 1, battery=True, forced=("edge_nudge",))
    run.note("battery_seconds", round(run.elapsed(), 1))
    k = 0
    while not run.out_of_time(0.93):
        k += 1
        reg = (None, None, None, None, None, None, "lowprec", "small")[k % 8]
        special = SPECIALS[(k // 8) % len(SPECIALS)] if k % 8 == 3 else None
        spec = random_spec(run.rng, run.pyrng, reg, special)
        n_edits = int(run.rng.integers(0, 5))
        forced = None
        if n_edits and run.pyrng.random() < 0.2:
            # a history that ends with the scene being expressed in another of its frames
            pool = KIND_EDITS if special else EDITS
            forced = tuple(run.pyrng.choice(pool) for _ in range(n_edits - 1)) + ("set_base_frame",)
        tag = "random" if reg is None else "random:" + reg
        scenario(run, tag if special is None else "random:kinds:" + special, spec, run.rng, run.pyrng, n_edits, forced=forced,
                 again=run.pyrng.random() < 0.4)
    run.note("random_scenes", k)


def replay(run, case):
    spec = spec_from_json(case["spec"])
    regime(spec.get("regime"))
    try:
        _replay(run, case, spec)
    finally:
        regime(None)


def _replay(run, case, spec):
    scene, sm = build(spec)
    do_reads(run, scene, sm, list(READS), case, after="build")
    last = "build"
    for i, rec in enumerate(case.get("edits", [])):
        if case.get("derived_first") and i == case.get("n_first"):
            # the derived operations that ran before this edit (their own judgement is not repeated)
            for op, cls, par in case["derived_first"]:
                try:
                    run_derived(_Collect(run, quiet=True), scene, sm, op, cls, par, case, None)
                except Exception:
                    pass
        replay_edit(scene, sm, rec)
        last = rec["edit"]
        do_reads(run, scene, sm, list(READS), case, after=last, edited=True)
    _tri_node(run, scene, sm, case, last)
    if case.get("derived"):
        op, cls, par = case["derived"]
        worlds, consistent = real_worlds_quiet(scene, sm)
        if worlds is not None and case.get("derived_first"):
            col = _Collect(run)
            run_derived(col, scene, sm, op, cls, par, case, None if consistent else worlds)
            fresh = _Collect(run, quiet=True)
            try:
                f_scene, f_sm = rebuilt(spec, case.get("edits", []))
                run_derived(fresh, f_scene, f_sm, op, cls, par, case, None)
            except Exception:
                pass
            fresh_keys = {k for k, _, _ in fresh.got}
            for key, what, c in col.got:
                run.violation(key if key in fresh_keys else " ".join(key.split(" ")[:2]) + " " + AGAIN, what, c)
        elif worlds is not None:
            run_derived(run, scene, sm, op, cls, par, case, None if consistent else worlds)
    run.case("replay", sm.digest(), str(case.get("derived")))
