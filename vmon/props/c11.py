"""
C11 - plane sections lie on the plane and on the surface; slices partition the solid.

Monitor shape: reference computation observed next to every execution.  The meshes have
integer vertices, every plane has an integer normal and a rational origin, so the exact
clipping oracle (vmon/oracle/clip.py, Fractions only) knows for every triangle
  * its sign pattern against the plane,
  * the segment the plane cuts out of it (when the plane separates two of its vertices),
  * the rational fraction of its area on the positive side (Sutherland-Hodgman),
  * the exact volume of the capped positive part.
The real functions (intersections.mesh_plane / mesh_multiplane / slice_faces_plane /
slice_mesh_plane, Trimesh.section / section_multiplane / slice_plane) are run on the same
data and every output is compared with the oracle.

Input classes beyond integer meshes x (general | exactly special) planes:
  near_vertex    plane a few microns from a vertex / an edge (> 10 tol.merge, < tol_path.merge): cut
                 points closer together than the 1e-5 grid of the 2D path / polygon code, every cap engine;
  small scale    the same mesh x 2**-17 (features below tol_path.merge), sections only;
  normal length  the same plane given by its integer normal x 2**e (never unitized by the harness);
  bool mask      a face subset presented as a boolean mask instead of indices;
  histories      several calls on ONE mesh object (parallel planes with one normal and a moving origin,
                 another normal, single-plane operations in between): every call is judged as if fresh.
  in_band        a plane tilted by about 1e-7 .. 1e-6 rad off a mesh edge: one end of the edge is <= tol.merge / 10 from the
                 plane (ON it for the library, which works with tol.merge), the other end 10 .. 100 tol.merge away;
                 judged against the exact result AND the result of the snapped classification (either is right);
  large scale    the same mesh x 2**20 / 2**30 (a metre in microns / nanometres), planes in general position:
                 everything is held to 1e-9 of the size instead of 1e-9 absolute;
  small scale    slices and caps too (mesh x 2**-17), planes exactly through vertices or >= 10 tol.merge away;
  flat faces     convex solids whose flat faces are subdivided (straight runs of outline vertices on the cap),
                 swept with planes through three mesh vertices, every engine: judged by the sentences of the
                 statement alone (halves watertight, volumes add up), no exact oracle needed.

What is asserted follows the statement:
  soundness      every reported endpoint lies on the plane and on its REPORTED source triangle
                 (always, including planes along edges / coplanar with faces);
  completeness   exactly one segment per properly crossed triangle, equal to the exact
                 segment as an unordered pair, and nothing else - only when the plane contains
                 no mesh edge (planes through vertices only are included);
  closedness     every endpoint matched an even number of times - watertight mesh, and either
                 general position or (no edge in plane and the exact section is closed);
  slices         positive side only, on the surface, same orientation, scalar area inside the
                 exact bounds (coplanar faces may go to either side), vector area exact, and
                 area(+n) + area(-n) == area(mesh);
  caps           watertight input only: volume of each half == exact, halves add up to the
                 original volume; halves of a convex solid are watertight.
"""

from __future__ import annotations

import math
from fractions import Fraction as Fr

import numpy as np

from vmon.gen import mesh as G
from vmon.oracle import clip as C

PROP = "C11"
LEVEL = "exploration"
RULE = (
    "integer meshes (convex, non-convex, genus 1, several bodies, nested cavity, open) x planes with "
    "integer normal and rational origin: general position (every vertex >= 1e-4 away) and special "
    "placements built on purpose (through 1 / 2 / 3 vertices, through a vertex and across the "
    "opposite edge, along a mesh edge, coplanar with a face from either side), x operation "
    "(mesh_plane with face-order rotations and local_faces, section, mesh_multiplane / "
    "section_multiplane at vertex heights and between, slice_plane / slice_faces_plane without cap "
    "incl. face subsets and several planes, slice_plane(cap=True) per engine); plus planes 2.4e-7..8.3e-6 from a "
    "vertex (all operations, every cap engine), the mesh scaled by 2**-17 (sections), the normal scaled by "
    "2**-27 / 2**-33 / 2**16, face subsets as boolean masks, and histories of 9-10 calls on one mesh object "
    "(parallel planes: same normal with the origin moved along / inside the plane, another normal; "
    "single-plane calls in between); planes tilted by ~1e-7 rad off a mesh edge so that one end is within tol.merge / 10 of "
    "the plane (or on it) and the other end 10 .. 100 tol.merge away (all operations, every cap engine; also on the mesh "
    "x 2**-17 with the same absolute distances); the mesh x 2**20 / 2**30 with planes in general position (sections, "
    "parallel planes, slices, caps per engine) and x 2**-17 (slices, caps); and a sweep of convex solids with subdivided "
    "flat faces by planes through a vertex with a small integer normal, capped per engine, judged by the statement's own "
    "sentences (halves watertight, volumes add up).  A case is one "
    "(operation, options, mesh, plane set); distinct = distinct digest of those; non-trivial = the "
    "plane meets the mesh (some vertex on or on both sides of the plane)."
)
ANCHORS = [
    "trimesh/intersections.py:mesh_plane",
    "trimesh/intersections.py:mesh_plane.<locals>.triangle_cases",
    "trimesh/intersections.py:mesh_plane.<locals>.handle_basic",
    "trimesh/intersections.py:mesh_plane.<locals>.handle_on_vertex",
    "trimesh/intersections.py:mesh_plane.<locals>.handle_on_edge",
    "trimesh/intersections.py:mesh_multiplane",
    "trimesh/intersections.py:plane_lines",
    "trimesh/intersections.py:slice_faces_plane",
    "trimesh/intersections.py:slice_mesh_plane",
    "trimesh/path/polygons.py:edges_to_polygons",
    "trimesh/creation.py:triangulate_polygon",
    "trimesh/base.py:Trimesh.section",
    "trimesh/base.py:Trimesh.section_multiplane",
    "trimesh/base.py:Trimesh.slice_plane",
    "trimesh/path/exchange/misc.py:lines_to_path",
]
LINE_FILES = ("trimesh/intersections.py",)
SHARDS = {"quick": 1, "thorough": 16}
BUDGET = {"quick": 45, "thorough": 420}
MIN_EVENTS = {"quick": 600, "thorough": 6000}
EXHAUSTIVE = {"quick": False, "thorough": False}
ASSUMPTIONS = [
    "float64 evaluation of the library on integer vertices / dyadic origins is accurate to 1e-9 "
    "(coordinates <= 64, vertices exactly on the plane or >= 1e-4 away), so a 1e-9 comparison with the "
    "rational oracle cannot fail for correct code",
    "the generated meshes are closed, consistently outward wound (checked by construction in vmon.gen.mesh)",
    "scipy.spatial.cKDTree (endpoint matching) and numpy are correct",
    "a Path built from a section whose endpoints can fall into one cell of the tol_path.merge = 1e-5 grid is held to "
    "2 x tol_path.merge (Hausdorff, both ways) when the section is >= 1e3 cells wide, to TOL when it is <= 10 cells "
    "wide (the grid is then no tolerance but the size of the object), not judged in between",
    "a plane normal shorter than 10 x tol.zero is not generated (the library treats it as the zero vector)",
    "a vertex off the plane by <= tol.merge / 10 may be treated as on the plane (snapped) or exactly, face by face: "
    "areas are held to the envelope of both answers, volumes to band x area, sections to band + 1e-9 off the plane; where an "
    "edge makes an angle below 1e-4 / length with the plane the position of its cut point is not compared (ill-conditioned)",
    "large-scale classes (mesh x 2**20, 2**30): every comparison is relative (1e-9 of a unit of the integer mesh); a float "
    "plane cannot pass exactly through a vertex at that size, so only general position is judged there",
    "capped results are not judged when two distinct exact vertices of the result (or two points where a later plane can "
    "cut a chord of an earlier cap) are closer than 10 x tol.merge: the library merges vertices on a tol.merge grid",
    "a face coplanar with the cutting plane may be attributed to either slice (the statement only fixes "
    "the sum); a face subset passed as face_index may be returned alone or together with the untouched rest",
]

TOL = 1e-9  # comparison with the exact oracle (library error is ~1e-14 on this data)
MATCH = 1e-8  # tol.merge: endpoint matching for closedness
GAP = 1e-4  # vertices are exactly on the plane or at least this far away
NEAR_GAP = 1e-7  # ... except in the near-vertex / small-scale classes: 10 x tol.merge
PATH_MERGE = 1e-5  # tol_path.merge: absolute grid lines_to_path merges section endpoints on
SMALL_SEXP = -17  # small-scale class: integer vertices x 2**-17 (one unit = 7.6e-6 < PATH_MERGE)
LARGE_SEXPS = (20, 30)  # large-scale classes: integer vertices x 2**20 (1.0e6) / 2**30 (1.1e9), exact in float64
BAND_IN = 1e-9  # in-band class: a vertex off the plane by no more than tol.merge / 10 is ON it for the library
SEP_MIN = 1e-7  # caps merge vertices on the tol.merge grid: two DISTINCT exact vertices of the result closer than
#                 10 x tol.merge are inside the threshold zone of that merge (may or may not be merged): not judged
# non-unit normal classes: integer normal x 2**e.  The library compares n.(p-o) with tol.merge
# without unitizing, i.e. its on-plane band is tol.merge/|n|
NORMAL_EXPS = (-27, -33, 16)

ENGINES = ("earcut", "manifold", "triangle")

MESH_CLASS = {
    "box": "convex",
    "octahedron": "convex",
    "tetra": "convex",
    "hull": "convex",
    "box_grid": "convex",
    "frame_torus": "genus1",
    "l_prism": "nonconvex",
    "polycube": "nonconvex",
    "multibody_disjoint": "multibody",
    "nested_cavity": "cavity",
    "overlapping_shells": "overlapping",
    "open_hull": "open",
    "open_grid": "open",
    "single_triangle": "open",
}

ALL_PATTERN_STATES = (
    [("---", 0), ("000", 0), ("+++", 0)]
    + [(p, k) for p in ("--0", "--+", "-00", "-++", "00+", "0++") for k in range(3)]
    + [("-0+", (z, s)) for z in range(3) for s in "+-"]
)


# ---------------------------------------------------------------------------- small geometry


def _seg_dist(P, A, B):
    AB = B - A
    den = (AB * AB).sum(axis=1)
    den = np.where(den == 0, 1.0, den)
    t = np.clip(((P - A) * AB).sum(axis=1) / den, 0.0, 1.0)
    return np.linalg.norm(P - (A + t[:, None] * AB), axis=1)


def tri_dist(P, A, B, C_):
    """Distance of points P (k,3) to triangles (A,B,C) (k,3 each); plain numpy."""
    P, A, B, C_ = (np.asarray(x, dtype=np.float64) for x in (P, A, B, C_))
    N = np.cross(B - A, C_ - A)
    nn = (N * N).sum(axis=1)
    nn_safe = np.where(nn == 0, 1.0, nn)
    w = P - A
    g = (np.cross(B - A, w) * N).sum(axis=1) / nn_safe
    b = (np.cross(w, C_ - A) * N).sum(axis=1) / nn_safe
    a = 1.0 - g - b
    inside = (a >= 0) & (b >= 0) & (g >= 0) & (nn > 0)
    dplane = np.abs((w * N).sum(axis=1)) / np.sqrt(nn_safe)
    dedge = np.minimum(np.minimum(_seg_dist(P, A, B), _seg_dist(P, B, C_)), _seg_dist(P, C_, A))
    return np.where(inside, dplane, dedge)


def surface_dist(P, Vf, F):
    """(distance, nearest face) of each point to a small mesh, brute force."""
    P = np.asarray(P, dtype=np.float64).reshape(-1, 3)
    if len(P) == 0:
        return np.zeros(0), np.zeros(0, dtype=np.int64)
    T = Vf[F]  # (m,3,3)
    k, m = len(P), len(F)
    PP = np.repeat(P, m, axis=0)
    d = tri_dist(PP, np.tile(T[:, 0], (k, 1)), np.tile(T[:, 1], (k, 1)), np.tile(T[:, 2], (k, 1))).reshape(k, m)
    return d.min(axis=1), d.argmin(axis=1)


def topo_closed(F):
    """Every directed edge once and its opposite once (watertight + consistently wound)."""
    E = {}
    for f in np.asarray(F):
        for i in range(3):
            e = (int(f[i]), int(f[(i + 1) % 3]))
            if e[0] == e[1]:
                return False
            E[e] = E.get(e, 0) + 1
    return bool(E) and all(v == 1 and E.get((e[1], e[0]), 0) == 1 for e, v in E.items())


def topo_watertight(F):
    """Every undirected edge exactly twice (what the statement calls watertight)."""
    E = {}
    for f in np.asarray(F):
        for i in range(3):
            a, b = int(f[i]), int(f[(i + 1) % 3])
            if a == b:
                return False
            e = (a, b) if a < b else (b, a)
            E[e] = E.get(e, 0) + 1
    return bool(E) and all(v == 2 for v in E.values())


def mesh_area_vec(Vf, F):
    if len(F) == 0:
        return 0.0, np.zeros(3)
    cr = np.cross(Vf[F[:, 1]] - Vf[F[:, 0]], Vf[F[:, 2]] - Vf[F[:, 0]])
    return float(np.linalg.norm(cr, axis=1).sum() / 2.0), cr.sum(axis=0) / 2.0


def volume_about(Vf, F, c):
    if len(F) == 0:
        return 0.0
    A, B, C_ = Vf[F[:, 0]] - c, Vf[F[:, 1]] - c, Vf[F[:, 2]] - c
    return float((A * np.cross(B, C_)).sum() / 6.0)


# ---------------------------------------------------------------------------- planes


def _gcd_reduce(n):
    g = 0
    for c in n:
        g = math.gcd(g, abs(int(c)))
    return tuple(int(c) // g for c in n) if g else tuple(int(c) for c in n)


def _icross(a, b):
    return (
        int(a[1]) * int(b[2]) - int(a[2]) * int(b[1]),
        int(a[2]) * int(b[0]) - int(a[0]) * int(b[2]),
        int(a[0]) * int(b[1]) - int(a[1]) * int(b[0]),
    )


def _rand_n(rng, m=5):
    while True:
        n = tuple(int(v) for v in rng.integers(-m, m + 1, size=3))
        if any(n):
            return _gcd_reduce(n)


def _edges(F):
    E = set()
    for f in F:
        for i in range(3):
            a, b = int(f[i]), int(f[(i + 1) % 3])
            E.add((min(a, b), max(a, b)))
    return sorted(E)


BANDS = ("in_band", "in_band_small")


def plane_of_class(rng, V, F, cls, s=1.0):
    """(normal ints, origin Fractions) of one plane of the requested placement class, or None.
    `s`: scale at which the library will see the mesh (in_band only: its distances are absolute)."""
    nv, nf = len(V), len(F)
    used = np.unique(F)
    pick_v = lambda: int(used[int(rng.integers(len(used)))])
    if cls == "general":
        a, b = V[pick_v()], V[pick_v()]
        o = tuple(Fr(int(a[i]) + int(b[i]), 2) + Fr(int(rng.integers(-40, 41)), 64) for i in range(3))
        return _rand_n(rng), o
    if cls == "vertex1":
        return _rand_n(rng), tuple(Fr(int(c)) for c in V[pick_v()])
    if cls == "vertex2":
        a, b = pick_v(), pick_v()
        n = _icross(V[b] - V[a], _rand_n(rng))
        if a == b or not any(n):
            return None
        return _gcd_reduce(n), tuple(Fr(int(c)) for c in V[a])
    if cls == "vertex3":
        a, b, c = pick_v(), pick_v(), pick_v()
        n = _icross(V[b] - V[a], V[c] - V[a])
        if not any(n):
            return None
        return _gcd_reduce(n), tuple(Fr(int(c_)) for c_ in V[a])
    if cls == "edge":
        E = _edges(F)
        a, b = E[int(rng.integers(len(E)))]
        n = _icross(V[b] - V[a], _rand_n(rng))
        if not any(n):
            return None
        return _gcd_reduce(n), tuple(Fr(int(c)) for c in V[a])
    if cls in ("face+", "face-"):
        f = F[int(rng.integers(nf))]
        n = _icross(V[f[1]] - V[f[0]], V[f[2]] - V[f[0]])
        if not any(n):
            return None
        n = _gcd_reduce(n)
        if cls == "face-":
            n = tuple(-c for c in n)
        return n, tuple(Fr(int(c)) for c in V[f[0]])
    if cls == "vertex_cross":
        # through vertex k of a face and a rational point of the opposite edge: pattern -0+
        f = F[int(rng.integers(nf))]
        k = int(rng.integers(3))
        v, p, q = V[f[k]], V[f[(k + 1) % 3]], V[f[(k + 2) % 3]]
        w = int(rng.integers(1, 4))  # point (w*p + (4-w)*q)/4 on the opposite edge
        d4 = w * p + (4 - w) * q - 4 * v
        n = _icross(d4, _rand_n(rng))
        if not any(n):
            return None
        return _gcd_reduce(n), tuple(Fr(int(c)) for c in v)
    if cls == "near_vertex":
        # a few microns from a vertex (or from both ends of an edge), on either side: further than
        # 10 x tol.merge, so the vertex is NOT on the plane, but inside the 1e-5 grid of the path code
        a = pick_v()
        if int(rng.integers(2)):
            E = _edges(F)
            a, b = E[int(rng.integers(len(E)))]
            n = _icross(V[b] - V[a], _rand_n(rng))
            if not any(n):
                return None
            n = _gcd_reduce(n)
        else:
            n = _rand_n(rng)
        if sum(c * c for c in n) > 75:
            return None
        t = Fr(int(rng.choice([-1, 1])), 2 ** int(rng.integers(20, 23)))
        return n, tuple(Fr(int(V[a][i])) + n[i] * t for i in range(3))
    if cls == "in_band":
        # tilted by about 1e-7 .. 1e-6 rad off the mesh edge (a, b): through a + w da, b + w db and a third point
        # (a vertex or any lattice point), w the integer normal of the untilted plane.  a ends up
        # <= 5e-10 from the plane on either side (or exactly on it), b 1.3e-7 .. 1e-6 away on either side
        # (absolute distances; for the mesh x 2**-17 that is a tilt of 1e-2 .. 1e-1 rad).
        E = _edges(F)
        a, b = E[int(rng.integers(len(E)))]
        if int(rng.integers(2)):
            a, b = b, a
        c = V[pick_v()] if int(rng.integers(2)) else V[a] + np.array(_rand_n(rng), dtype=np.int64)
        w = _icross(V[b] - V[a], c - V[a])
        if not any(w):
            return None
        wl = math.sqrt(sum(x * x for x in w)) * s
        ka = math.ceil(math.log2(wl / 5e-10))  # wl * 2**-ka in (2.5e-10, 5e-10] (absolute)
        kb = ka - int(rng.integers(9, 12))  # 512 .. 2048 times further
        da = Fr(int(rng.choice([-1, 0, 1, 1])), 2 ** ka)
        db = Fr(int(rng.choice([-1, 1])), 2 ** kb)
        p1 = tuple(Fr(int(V[a][i])) + w[i] * da for i in range(3))
        p2 = tuple(Fr(int(V[b][i])) + w[i] * db for i in range(3))
        p3 = tuple(Fr(int(c[i])) for i in range(3))
        nq = C.cross(C.sub(p2, p1), C.sub(p3, p1))
        den = 2 ** (ka + kb)
        n = tuple(int(x * den) for x in nq)
        assert all(Fr(n[i], den) == nq[i] for i in range(3))
        if not any(n):
            return None
        return _gcd_reduce(n), p3
    if cls in ("outside+", "outside-"):
        # the whole mesh strictly on the positive / negative side (a quarter of |n| beyond the extreme
        # vertex): nothing is cut, everything / nothing is kept - also of a face subset, also when
        # such a plane comes first among several (from seeded change C11-r4-1)
        n = _rand_n(rng)
        d = [sum(int(n[i]) * int(v[i]) for i in range(3)) for v in V[used]]
        k = int(np.argmin(d)) if cls == "outside+" else int(np.argmax(d))
        t = Fr(-1, 4) if cls == "outside+" else Fr(1, 4)
        return n, tuple(Fr(int(V[used][k][i])) + n[i] * t for i in range(3))
    if cls == "edge_mid":
        # through the midpoints of two edges of one face and a random direction: pattern --+ / -++
        f = F[int(rng.integers(nf))]
        k = int(rng.integers(3))
        a, b, c = V[f[k]], V[f[(k + 1) % 3]], V[f[(k + 2) % 3]]
        n = _icross(c - b, _rand_n(rng))  # parallel to the opposite edge
        if not any(n):
            return None
        o = tuple(Fr(int(a[i]) + int(b[i]), 2) for i in range(3))
        return _gcd_reduce(n), o
    raise ValueError(cls)


SPECIAL = ("vertex1", "vertex2", "vertex3", "edge", "face+", "face-", "vertex_cross", "edge_mid", "near_vertex", "in_band",
           "in_band_small", "outside+", "outside-")


def plane_record(n, o, cls):
    return {"n": [int(c) for c in n], "o": ["%d/%d" % (c.numerator, c.denominator) for c in o], "cls": cls}


def plane_from_record(rec):
    return C.Plane([int(c) for c in rec["n"]], [Fr(s) for s in rec["o"]])


def plane_floats(pl, unit):
    n = np.array([float(c) for c in pl.n], dtype=np.float64)
    if unit:
        n = n / np.linalg.norm(n)
    o = np.array([float(c) for c in pl.o], dtype=np.float64)
    return n, o


# ---------------------------------------------------------------------------- meshes


def mesh_catalogue(run):
    rng = run.rng
    fixed = [
        ("box", *G.box_int((2, 3, 4), (-1, -2, 1))),
        ("octahedron", *G.octahedron()),
        ("frame_torus", *G.frame_torus((2, 1, 3))),
        ("l_prism", *G.l_prism()),
    ]
    for i, item in enumerate(fixed):
        yield item
    # a single triangle and an open patch: "with holes" in the quantifier
    yield ("single_triangle", np.array([[0, 0, 0], [4, 1, 0], [1, 5, 2]], dtype=np.int64), np.array([[0, 1, 2]], dtype=np.int64))
    while True:
        r = int(rng.integers(0, 10))
        if r == 9:
            # convex with subdivided flat faces (straight runs of vertices on every section)
            yield ("box_grid",) + block_grid(((1, 2, 2), (1, 2, 3), (2, 2, 2))[int(rng.integers(3))])
        elif r == 0:
            yield ("tetra",) + G.tetra(rng)
        elif r in (1, 2):
            yield ("hull",) + G.hull_int(rng, int(rng.integers(5, 12)))
        elif r == 3:
            yield ("polycube",) + G.random_polycube(rng, int(rng.integers(2, 7)))
        elif r == 4:
            a = G.hull_int(rng, 7)
            b = G.tetra(rng)
            yield ("multibody_disjoint",) + G.concat([a, (G.translate(b[0], [30, 0, 0]), b[1])])
        elif r == 5:
            a = G.box_int((6, 6, 6), (-3, -3, -3))
            b = G.invert(*G.box_int((2, 2, 2), (-1, -1, -1)))
            yield ("nested_cavity",) + G.concat([a, b])
        elif r == 6:
            yield ("overlapping_shells",) + G.concat([G.box_int((4, 4, 4)), G.box_int((4, 4, 4), (2, 2, 2))])
        elif r == 7:
            V, F = G.hull_int(rng, int(rng.integers(7, 12)))
            keep = np.ones(len(F), dtype=bool)
            keep[rng.choice(len(F), size=min(3, len(F) - 2), replace=False)] = False
            yield ("open_hull", V, F[keep])
        else:
            V, F = G.open_grid(int(rng.integers(1, 4)), int(rng.integers(1, 4)))
            # lift the grid out of the z = 0 plane with an integer shear so that it is generic
            V = V.copy()
            V[:, 2] = V[:, 0] * int(rng.integers(-2, 3)) + V[:, 1] * int(rng.integers(-2, 3)) + (V[:, 0] * V[:, 1]) % 2
            yield ("open_grid", V, F)


# ---------------------------------------------------------------------------- case plumbing


def make_case(op, tag, V, F, planes, unit=True, sexp=0, **opts):
    mesh = {"tag": tag, "V": np.asarray(V).tolist(), "F": np.asarray(F).tolist()}
    if sexp:
        mesh["sexp"] = int(sexp)  # the library sees the vertices x 2**sexp (exact in float64)
    return {
        "op": op,
        "mesh": mesh,
        "planes": planes,
        "unit": bool(unit),
        "opts": opts,
    }


class Ctx:
    """Everything derived from a case dict that the judges share."""

    def __init__(self, case):
        self.case = case
        self.op = case["op"]
        self.tag = case["mesh"]["tag"]
        self.mclass = MESH_CLASS.get(self.tag, self.tag)
        self.V = np.array(case["mesh"]["V"], dtype=np.int64).reshape(-1, 3)
        self.F = np.array(case["mesh"]["F"], dtype=np.int64).reshape(-1, 3)
        roll = int(case["opts"].get("roll", 0))
        if roll:
            self.F = np.roll(self.F, roll, axis=1)
        # the oracle and the judges work in integer units; the library is given V * s and
        # planes with origin * s, its outputs are divided by s (a power of two: exact)
        self.sexp = int(case["mesh"].get("sexp", 0))
        self.s = 2.0 ** self.sexp
        self.Vf = self.V.astype(np.float64)
        self.planes = [plane_from_record(r) for r in case["planes"]]
        self.unit = case["unit"]
        self.opts = case["opts"]
        # integer normal x 2**nexp handed to the library (never unitized by the harness)
        self.nexp = int(case["opts"].get("nexp", 0))
        # in-band class: vertices <= BAND_IN off the plane are ON it for the library (tol.merge = 10 BAND_IN)
        self.band = any(r.get("cls") in BANDS for r in case["planes"])
        self.near = any(r.get("cls") in ("near_vertex",) + BANDS for r in case["planes"])
        # smallest allowed distance (absolute, as the library sees it) of an off-plane vertex; the
        # large-scale classes keep the gap of the integer mesh (1e-4 of a unit, >= 100 absolute)
        self.gap_abs = NEAR_GAP if (self.near or self.sexp < 0) else GAP * max(1.0, self.s)
        # TOL absolute, expressed in integer units; relative to the size for the large-scale classes
        self.tol = TOL / min(1.0, self.s)
        self.band_u = BAND_IN / self.s if self.band else 0.0  # integer units
        self.match = MATCH / self.s if self.s <= 1.0 else TOL  # endpoint matching radius, integer units
        self.closed = topo_closed(self.F)
        self._mp = {}
        self.shared = None  # mesh object shared by the steps of a history
        self.hist = None  # relation of this step to the earlier ones (key part)
        self.parent = None  # (history case, step index) for the witness
        self.coarse = None  # (extra key parts, symptom): input classes with ONE known mechanism

    def mesh(self):
        if self.shared is not None:
            return self.shared
        return G.to_trimesh(self.Vf * self.s if self.sexp else self.V, self.F)

    def pf(self, pl):
        """(normal, origin) floats as handed to the library."""
        if self.nexp:
            n = np.array([float(c) for c in pl.n], dtype=np.float64) * 2.0 ** self.nexp
            o = np.array([float(c) for c in pl.o], dtype=np.float64) * self.s
            return n, o
        n, o = plane_floats(pl, self.unit)
        return n, o * self.s

    def mp(self, i=0):
        """Classification as the library sees it: exact, except that in-band vertices count as on the plane."""
        if i not in self._mp:
            self._mp[i] = C.MeshPlane(self.V, self.F, self.planes[i], band=self.band_u if self.band else None)
        return self._mp[i]

    def placement(self):
        """Input class from exact facts (worst over the planes)."""
        rank = {"general": 0, "near_vertex": 1, "vertex": 2, "edge": 3, "coplanar": 4, "in_band": 5}
        best = "general"
        for i in range(len(self.planes)):
            mp = self.mp(i)
            if mp.in_band:
                p = "in_band"
            elif any(s == (0, 0, 0) for s in mp.fsign):
                p = "coplanar"
            elif mp.has_edge_in_plane():
                p = "edge"
            elif mp.has_vertex_on_plane():
                p = "vertex"
            elif self.near and mp.min_offplane_distance() < GAP:
                p = "near_vertex"
            else:
                p = "general"
            if rank[p] > rank[best]:
                best = p
        return best

    def section_graph(self, i=0):
        """
        'simple' when every point of the exact section (crossing segments plus mesh edges lying
        in the plane) is met by at most two pieces, else 'branching' (figure-eight sections
        through a mesh vertex, in-plane edge fans, coplanar faces).  Input class only.
        """
        mp = self.mp(i)
        pieces = set()
        for p, q in mp.expected_segments().values():
            pieces.add(frozenset((tuple(p), tuple(q))))
        for fi, s in enumerate(mp.fsign):
            f = self.F[fi]
            for k in range(3):
                a, b = int(f[k]), int(f[(k + 1) % 3])
                if mp.sv[a] == 0 and mp.sv[b] == 0:
                    pieces.add(frozenset((mp.V[a], mp.V[b])))
        deg = {}
        for pc in pieces:
            for pt in pc:
                deg[pt] = deg.get(pt, 0) + 1
        return "branching" if deg and max(deg.values()) > 2 else "simple"

    def key(self, route, sym, **extra):
        parts = ["op=%s" % self.op, "route=%s" % route]
        if self.coarse is not None:
            # an input class in which one mechanism of the library is known to act (the class is
            # computed exactly by the oracle): one key per route, the fine symptom goes to the witness
            kx, csym = self.coarse[:2]
            parts += ["%s=%s" % (k, v) for k, v in sorted(kx.items())]
            if len(self.coarse) > 2 and sym.startswith("raised:"):
                csym = sym  # (a class in which an exception is a mechanism of its own)
            return " ".join(parts + ["sym=%s" % csym])
        if sym == "repeated_index_face":
            # produced by one incomplete filter whatever the placement / engine
            return " ".join(parts + ["sym=%s" % sym])
        for k, v in sorted(extra.items()):
            parts.append("%s=%s" % (k, v))
        if extra.get("section_graph") != "branching":
            # (a cap whose outline branches - figure-eight through a mesh vertex, in-plane edge
            # fans - is one input class of its own: polygon recovery walks the outline graph, whatever the
            # scale, the length of the normal, the placement or the history of the object)
            if self.hist:
                parts.append("hist=%s" % self.hist)
            if self.sexp:
                parts.append("scale=%s" % ("small" if self.sexp < 0 else "large"))
            if self.nexp:
                parts.append("normal_length=%s" % ("tiny" if self.nexp < 0 else "huge"))
            parts += ["placement=%s" % self.placement(), "mesh=%s" % self.mclass]
        parts.append("sym=%s" % sym)
        return " ".join(parts)


def gap_ok(ctx):
    """
    Vertices exactly on each plane or >= the class gap away (absolute, as the library sees the
    mesh); the float signs computed with the code's own tol.merge agree with the exact ones.  A normal of tiny length: every vertex must be clearly inside (<= tol.merge/10)
    or clearly outside (>= 10 tol.merge) the band the library's un-normalised dot product gives;
    when some off-plane vertex is inside, the case belongs to the input class band=swallows_vertices.
    """
    from trimesh.constants import tol

    for i, pl in enumerate(ctx.planes):
        mp = ctx.mp(i)
        if ctx.band:
            # exactly on the plane, clearly inside the library's band (<= tol.merge / 10) or clearly outside
            dist = [abs(float(d)) / pl.nlen * ctx.s for d in mp.dv]  # absolute
            inb = set(mp.in_band)
            if any(d != 0 and k not in inb and d < ctx.gap_abs for k, d in enumerate(dist)):
                return False
            # input class (exact facts): a mesh edge with one end on the plane to tol.merge / 10 (exactly on it
            # or not) and the other end off it by 10 .. 1e4 tol.merge
            band_edge = any(
                dist[u] <= BAND_IN and NEAR_GAP <= dist[v] < GAP
                for f in ctx.F for u, v in ((f[0], f[1]), (f[1], f[0]), (f[1], f[2]), (f[2], f[1]), (f[2], f[0]), (f[0], f[2]))
            )
            if band_edge and ctx.coarse is None:
                kx = {"placement": "band_edge"}
                if ctx.sexp:
                    kx["scale"] = "small"
                ctx.coarse = (kx, "neither_exact_nor_snapped")
        elif mp.min_offplane_distance() * ctx.s < ctx.gap_abs:
            return False
        if ctx.sexp > 0 and 0 in mp.sv:
            return False  # large-scale classes: no float plane passes exactly through a vertex at that size
        if ctx.nexp < 0:
            a = [abs(float(d)) * 2.0 ** ctx.nexp for d in mp.dv if d != 0]
            if any(tol.merge / 10 < x < tol.merge * 10 for x in a):
                return False
            if any(x <= tol.merge / 10 for x in a):
                ctx.coarse = ({"normal_length": "tiny", "band": "swallows_vertices"}, "differs_from_exact")
            continue
        n, o = ctx.pf(pl)
        dots = np.dot(ctx.Vf * ctx.s - o, n)
        s = np.zeros(len(dots), dtype=int)
        s[dots < -tol.merge] = -1
        s[dots > tol.merge] = 1
        if s.tolist() != mp.sv:
            return False
    return True


def record_patterns(run, ctx, kind, faces=None, plane_index=0):
    mp = ctx.mp(plane_index)
    for fi in range(len(ctx.F)) if faces is None else faces:
        run.state(kind, mp.pattern(int(fi)))


def _viol(run, ctx, route, sym, what, **obs):
    extra = obs.pop("_key", {})
    if ctx.parent is not None:
        case = dict(ctx.parent[0])
        obs["step"] = ctx.parent[1]
    else:
        case = dict(ctx.case)
    if ctx.coarse is not None:
        obs["fine_symptom"] = sym
    case["observed"] = obs
    run.violation(ctx.key(route, sym, **extra), what, case)


# ---------------------------------------------------------------------------- judges: sections


def judge_segments(run, ctx, route, lines, face_index, plane_index=0, faces=None, plane=None):
    """
    lines (m,2,3) float and face_index (m,) as reported for plane `plane_index` restricted to
    `faces` (None = all).  Returns True when nothing was wrong.
    """
    mp = ctx.mp(plane_index) if plane is None else C.MeshPlane(ctx.V, ctx.F, plane)
    pl = mp.plane
    ok = True
    lines = np.asarray(lines, dtype=np.float64) / ctx.s  # integer units
    face_index = np.asarray(face_index)
    tol_u = ctx.tol
    if lines.ndim != 3 or lines.shape[1:] != (2, 3) or face_index.shape != (len(lines),):
        _viol(run, ctx, route, "bad_shape", "section output has the wrong shape",
              lines_shape=list(lines.shape), index_shape=list(face_index.shape))
        return False
    allowed = set(range(len(ctx.F))) if faces is None else set(int(i) for i in faces)
    if len(lines) and (face_index.dtype.kind not in "iu" or not set(face_index.tolist()) <= allowed):
        _viol(run, ctx, route, "bad_face_index", "reported source faces are not among the faces sectioned",
              face_index=face_index.tolist())
        return False
    nf = np.array([float(c) for c in pl.n])
    nf = nf / np.linalg.norm(nf)
    of = np.array([float(c) for c in pl.o])
    run.count("segments_checked", len(lines))
    if len(lines):
        # soundness: on the plane, on the reported triangle
        dpl = np.abs((lines.reshape(-1, 3) - of) @ nf)
        if dpl.max() > tol_u + ctx.band_u:
            ok = False
            _viol(run, ctx, route, "off_plane", "a section endpoint does not lie on the plane", max_dist=float(dpl.max()))
        T = ctx.Vf[ctx.F[face_index]]
        P = lines.reshape(-1, 3)
        dtri = tri_dist(P, np.repeat(T[:, 0], 2, axis=0), np.repeat(T[:, 1], 2, axis=0), np.repeat(T[:, 2], 2, axis=0))
        if dtri.max() > tol_u:
            ok = False
            _viol(run, ctx, route, "off_reported_face", "a section endpoint does not lie on the triangle reported as its source",
                  max_dist=float(dtri.max()), face=int(face_index[int(dtri.argmax()) // 2]))
    edge_in_plane = mp.has_edge_in_plane()
    if edge_in_plane:
        run.count("sections_edge_in_plane(soundness only)")
        return ok
    # completeness: exactly the exact per-triangle segments
    expected = mp.expected_segments(faces)
    run.count("sections_complete_checked")
    got = {}
    for k, fi in enumerate(face_index.tolist()):
        got.setdefault(int(fi), []).append(k)
    missing = sorted(set(expected) - set(got))
    extra = sorted(set(got) - set(expected))
    dup = sorted(fi for fi, ks in got.items() if len(ks) > 1)
    judged = None
    if ctx.band:
        # a face with a vertex inside the band may be sectioned as the exact signs or as the snapped ones
        # say (both are the section to tol.merge); where an edge makes an angle of 1e-7 rad with the plane the
        # position of the cut point ALONG the edge is ill-conditioned (rounding of the dot product / sine of the
        # angle: 3e-9 seen): segment-by-segment comparison for the faces whose vertices are all on the plane
        # or >= 1e-4 away; the others are judged for lying on the plane and on their triangle (well-conditioned)
        near = {k for k, d in enumerate(mp.dv) if d != 0 and abs(float(d)) / pl.nlen * ctx.s < GAP}
        judged = {fi for fi in range(len(ctx.F)) if not (set(int(i) for i in ctx.F[fi]) & near)}
        missing = [fi for fi in missing if fi in judged]
        extra = [fi for fi in extra if fi in judged]
        run.count("sections_in_band(faces off the band vertices compared exactly)")
    if missing:
        ok = False
        fi = missing[0]
        _viol(run, ctx, route, "missing_segment", "a triangle properly crossed by the plane has no section segment",
              face=fi, pattern=str(mp.pattern(fi)), n_missing=len(missing),
              _key={"pattern": mp.pattern(fi)[0]})
    if extra:
        ok = False
        fi = extra[0]
        _viol(run, ctx, route, "extra_segment", "a segment is reported for a triangle the plane does not cross",
              face=fi, pattern=str(mp.pattern(fi)), segment=lines[got[fi][0]].tolist(),
              _key={"pattern": mp.pattern(fi)[0]})
    if dup:
        ok = False
        _viol(run, ctx, route, "duplicate_segment", "one triangle reports more than one segment for one plane", face=dup[0])
    exp_len = 0.0
    worst, worst_face = 0.0, None
    for fi, (p, q) in expected.items():
        p, q = np.array(C.to_float(p)), np.array(C.to_float(q))
        exp_len += float(np.linalg.norm(p - q))
        if fi in got and (judged is None or fi in judged):
            s = lines[got[fi][0]]
            e = min(
                max(np.abs(s[0] - p).max(), np.abs(s[1] - q).max()),
                max(np.abs(s[0] - q).max(), np.abs(s[1] - p).max()),
            )
            if e > worst:
                worst, worst_face = float(e), fi
    if worst > tol_u:
        ok = False
        _viol(run, ctx, route, "wrong_segment", "the segment reported for a crossed triangle differs from the exact intersection",
              face=worst_face, pattern=str(mp.pattern(worst_face)), err=worst,
              expected=[C.to_float(x) for x in expected[worst_face]], got=lines[got[worst_face][0]].tolist(),
              _key={"pattern": mp.pattern(worst_face)[0]})
    got_len = float(np.linalg.norm(lines[:, 0] - lines[:, 1], axis=1).sum()) if len(lines) else 0.0
    if judged is None and abs(got_len - exp_len) > tol_u * max(1.0, exp_len) * 10:
        ok = False
        _viol(run, ctx, route, "total_length", "total section length differs from the exact intersection length",
              got=got_len, expected=exp_len)
    # closedness
    if ctx.closed and faces is None and len(lines):
        general = not mp.has_vertex_on_plane()
        if general or _closed_pairs(np.array([[C.to_float(p), C.to_float(q)] for p, q in expected.values()]), ctx.match):
            run.count("sections_closedness_checked")
            if not _closed_pairs(lines, ctx.match):
                ok = False
                _viol(run, ctx, route, "open_loop", "section of a watertight mesh has an endpoint matched an odd number of times")
    return ok


def _closed_pairs(lines, r=MATCH):
    from scipy.spatial import cKDTree

    lines = np.asarray(lines, dtype=np.float64)
    if len(lines) == 0:
        return True
    P = lines.reshape(-1, 3)
    tree = cKDTree(P)
    counts = np.array([len(x) for x in tree.query_ball_point(P, r=r)])
    return bool((counts % 2 == 0).all())


def _subset_arg(ctx, idx, nfaces):
    """A face subset in the presentation the case asks for: integer indices or a boolean mask."""
    if ctx.opts.get("subset_as") == "mask":
        mask = np.zeros(nfaces, dtype=bool)
        mask[np.asarray(idx, dtype=np.int64)] = True
        return mask
    return np.array(idx, dtype=np.int64)


def _mask_class(ctx):
    """
    A boolean mask selects the faces it marks (numpy semantics; slice_faces_plane honours them).
    The subset judged is the sorted marked faces; the documented type is integer indices, so a
    refusal (exception) is accepted, a section / slice of OTHER faces is not.
    """
    if ctx.opts.get("subset_as") == "mask" and ctx.coarse is None:
        ctx.coarse = ({"subset": "bool_mask"}, "not_the_masked_subset")
        return True
    return ctx.opts.get("subset_as") == "mask"


def op_mesh_plane(run, ctx):
    from trimesh import intersections

    m = ctx.mesh()
    n, o = ctx.pf(ctx.planes[0])
    local = ctx.opts.get("local")
    kw = {}
    masked = False
    if local is not None:
        kw["local_faces"] = _subset_arg(ctx, local, len(ctx.F))
        masked = _mask_class(ctx)
        if masked:
            local = sorted(local)
    route = "mesh_plane" + (":local_faces" if local is not None else "")
    try:
        lines, idx = intersections.mesh_plane(m, plane_normal=n, plane_origin=o, return_faces=True, **kw)
        only = intersections.mesh_plane(m, plane_normal=n, plane_origin=o, **kw)
    except Exception as e:  # noqa
        if masked:
            run.count("bool_mask_refused(accepted)")
            return
        _viol(run, ctx, route, "raised:" + type(e).__name__, "mesh_plane raised on a valid mesh/plane", error=repr(e)[:300])
        return
    if np.shape(only) != np.shape(lines) or not np.array_equal(np.asarray(only), np.asarray(lines)):
        _viol(run, ctx, route, "return_faces_changes_lines", "mesh_plane returns different lines with and without return_faces")
    record_patterns(run, ctx, "section_pattern_rot", faces=local)
    if masked:
        run.count("face_subset_as_bool_mask")
    judge_segments(run, ctx, route, lines, idx, faces=local)


def _path_points(path):
    pts = []
    for e in path.entities:
        pts.append(np.asarray(path.vertices)[e.points])
    return pts


def op_section(run, ctx):
    m = ctx.mesh()
    n, o = ctx.pf(ctx.planes[0])
    mp = ctx.mp(0)
    route = "Trimesh.section"
    local = ctx.opts.get("local")
    kw = {}
    masked = False
    if local is not None:
        route += ":local_faces"
        kw["local_faces"] = _subset_arg(ctx, local, len(ctx.F))
        masked = _mask_class(ctx)
        if masked:
            local = sorted(local)
    try:
        path = m.section(plane_normal=n, plane_origin=o, **kw)
    except Exception as e:  # noqa
        if masked:
            run.count("bool_mask_refused(accepted)")
            return
        _viol(run, ctx, route, "raised:" + type(e).__name__, "Trimesh.section raised", error=repr(e)[:300])
        return
    expected = mp.expected_segments(local)
    edge_in_plane = mp.has_edge_in_plane()
    if path is None:
        if not edge_in_plane and expected:
            _viol(run, ctx, route, "none_but_crossed", "section returned None although the plane crosses triangles",
                  n_expected=len(expected))
        return
    if not edge_in_plane and not expected:
        _viol(run, ctx, route, "path_but_not_crossed", "section returned a path although the plane crosses none of the faces",
              n_vertices=int(len(path.vertices)))
        return
    judge_path(run, ctx, route, path, mp, expected, edge_in_plane, to3d=None, faces=local)


def path_zone(ctx, expected):
    """
    Input class of a section that is turned into a Path, from the exact endpoints (absolute
    lengths, as the library sees them).  Only used for the near-vertex / small-scale classes.
      separated          no two distinct endpoints within 4 x tol_path.merge: nothing can be merged,
                         the path must be the section to TOL (what all other classes are held to)
      within_tolerance   endpoints may be merged on the 1e-5 grid, the section is >= 1e3 grid cells
                         wide: deviations of 2 x tol_path.merge are the documented path precision
      below_path_merge   the whole section is <= 10 grid cells wide: the grid is not a tolerance any
                         more (a section through a mesh of that size, or a corner cut a few microns deep)
      gray               in between: not judged
    """
    from scipy.spatial import cKDTree

    pts = sorted({tuple(p) for seg in expected.values() for p in seg})
    if len(pts) < 2:
        return "separated"
    P = np.array([C.to_float(p) for p in pts]) * ctx.s
    extent = float(np.ptp(P, axis=0).max())
    dmin = float(cKDTree(P).query(P, k=2)[0][:, 1].min())
    if dmin > 4 * PATH_MERGE:
        return "separated"
    if extent >= 1e3 * PATH_MERGE:
        return "within_tolerance"
    if extent <= 10 * PATH_MERGE:
        return "below_path_merge"
    return "gray"


def judge_path(run, ctx, route, path, mp, expected, edge_in_plane, to3d, faces=None):
    pl = mp.plane
    nf = np.array([float(c) for c in pl.n])
    nf /= np.linalg.norm(nf)
    of = np.array([float(c) for c in pl.o])
    verts = np.asarray(path.vertices, dtype=np.float64)
    if to3d is not None:
        verts3 = (np.column_stack([verts, np.zeros(len(verts)), np.ones(len(verts))]) @ np.asarray(to3d).T)[:, :3]
    else:
        verts3 = verts
    verts3 = verts3 / ctx.s  # integer units
    tol_u = ctx.tol
    used = np.unique(np.concatenate([e.points for e in path.entities])) if len(path.entities) else np.zeros(0, dtype=int)
    P = verts3[used]
    if len(P) == 0:
        _viol(run, ctx, route, "empty_path", "a path object without geometry was returned instead of None")
        return
    Fsrc = ctx.F if faces is None else ctx.F[np.asarray(faces, dtype=np.int64)]
    d = np.abs((P - of) @ nf)
    if d.max() > tol_u + ctx.band_u:
        _viol(run, ctx, route, "off_plane", "a path vertex does not lie on the section plane", max_dist=float(d.max()))
    ds, _ = surface_dist(P, ctx.Vf, Fsrc)
    if ds.max() > tol_u:
        _viol(run, ctx, route, "off_surface", "a path vertex does not lie on the mesh surface", max_dist=float(ds.max()))
    if edge_in_plane:
        return
    # the polylines are the section: every piece on the surface (midpoints), total length, closedness
    chord_tol, merged = tol_u, False
    restore = ctx.coarse
    if ctx.near or ctx.sexp:
        zone = path_zone(ctx, expected)
        run.state("path_zone", zone)
        if zone == "gray":
            run.count("path_checks_skipped(section between 10 and 1000 path-merge cells wide)")
            return
        if zone == "within_tolerance":
            chord_tol = 2 * PATH_MERGE / ctx.s
            merged = True
        elif zone == "below_path_merge" and ctx.coarse is None:
            if faces is not None:
                run.count("path_checks_skipped(sub-grid section of a face subset: judged on the all-faces route)")
                return
            ctx.coarse = ({"section_size": "below_path_merge"}, "path_not_the_section")
    try:
        _judge_polylines(run, ctx, route, path, mp, expected, verts3, Fsrc, faces, chord_tol, merged)
    finally:
        ctx.coarse = restore


def _judge_polylines(run, ctx, route, path, mp, expected, verts3, Fsrc, faces, chord_tol, merged):
    mids = []
    plen = 0.0
    for e in path.entities:
        pts = verts3[e.points]
        mids.append((pts[:-1] + pts[1:]) / 2.0)
        plen += float(np.linalg.norm(pts[1:] - pts[:-1], axis=1).sum())
    mids = np.vstack(mids)
    dm, _ = surface_dist(mids, ctx.Vf, Fsrc)
    if len(dm) and dm.max() > chord_tol:
        _viol(run, ctx, route, "chord_off_surface", "a path segment leaves the mesh surface", max_dist=float(dm.max()) * ctx.s)
        if ctx.coarse is not None:
            return
    if merged:
        # endpoints closer than the path grid may have been merged: loops / slivers narrower than
        # the grid legitimately collapse (doubled edges are dropped), so length and closedness of the
        # Path are not judged here (the raw segments of the same planes are, exactly); what is:
        # the path covers the whole exact section to the path precision
        A = np.vstack([verts3[e.points][:-1] for e in path.entities])
        B = np.vstack([verts3[e.points][1:] for e in path.entities])
        Q = []
        for p, q in expected.values():
            p, q = np.array(C.to_float(p)), np.array(C.to_float(q))
            Q += [p, q, (p + q) / 2.0]
        Q = np.array(Q)
        k, msrc = len(Q), len(A)
        dq = _seg_dist(np.repeat(Q, msrc, axis=0), np.tile(A, (k, 1)), np.tile(B, (k, 1))).reshape(k, msrc).min(axis=1)
        run.count("path_coverage_checked(path precision)")
        if dq.max() > chord_tol:
            _viol(run, ctx, route, "section_not_covered", "a piece of the exact section is further from the path than the path precision",
                  max_dist=float(dq.max()) * ctx.s)
        return
    segs = {}
    for fi, (p, q) in expected.items():
        a, b = tuple(p), tuple(q)
        segs[frozenset((a, b))] = float(np.linalg.norm(np.array(C.to_float(p)) - np.array(C.to_float(q))))
    exp_len = sum(segs.values())  # coincident segments of overlapping sheets counted once
    if ctx.band:
        run.count("path_length_skipped(in-band vertices: exact and snapped sections differ)")
    elif len(segs) == len(expected):
        if abs(plen - exp_len) > 10 * ctx.tol * max(1.0, exp_len):
            _viol(run, ctx, route, "total_length", "path length differs from the exact intersection length",
                  got=plen * ctx.s, expected=exp_len * ctx.s)
            if ctx.coarse is not None:
                return
    else:
        run.count("path_length_skipped(coincident segments)")
    if ctx.closed and faces is None and not mp.has_vertex_on_plane() and ctx.mclass != "overlapping":
        # (sheets of self-intersecting shells cross each other inside the plane: outside "general position")
        run.count("paths_closedness_checked")
        try:
            closed = bool(path.is_closed)
        except Exception as e:  # noqa
            closed = False
        if not closed:
            _viol(run, ctx, route, "open_loop", "section path of a watertight mesh in general position is not closed")


def _L(n):
    """Integer length of an integer vector or None."""
    s = sum(int(c) * int(c) for c in n)
    r = math.isqrt(s)
    return r if r * r == s else None


INT_LENGTH_NORMALS = [
    (1, 0, 0), (0, 1, 0), (0, 0, 1), (1, 2, 2), (2, 1, 2), (2, 2, 1), (2, 3, 6), (3, 6, 2), (6, 2, 3),
    (0, 3, 4), (4, 0, 3), (3, 4, 0), (1, 4, 8), (4, 4, 7), (2, 6, 9), (3, 4, 12), (2, 10, 11), (6, 6, 7),
]


def op_multiplane(run, ctx):
    """opts: heights = list of 'num/den' (integer units) along the unit normal n/|n| (|n| an integer)."""
    from trimesh import intersections

    m = ctx.mesh()
    base = ctx.planes[0]
    L = _L(base.n)
    assert L
    heights = [Fr(h) for h in ctx.opts["heights"]]
    hf = np.array([float(h) for h in heights], dtype=np.float64) * ctx.s
    n, o = ctx.pf(base)
    planes = [C.Plane(base.n, tuple(base.o[i] + base.n[i] * h / L for i in range(3))) for h in heights]
    # gap / sign agreement for every height (evaluated the way the code does it)
    from trimesh.constants import tol

    un = np.array([float(c) for c in base.n]) / L
    vd = np.dot(un, (ctx.Vf * ctx.s - o).T)
    usable = []
    for h, hfl, pl in zip(heights, hf, planes):
        mp = C.MeshPlane(ctx.V, ctx.F, pl)
        s = np.zeros(len(vd), dtype=int)
        s[vd - hfl < -tol.merge] = -1
        s[vd - hfl > tol.merge] = 1
        # (large-scale classes: no float plane passes exactly through a vertex at that size)
        usable.append(mp.min_offplane_distance() * ctx.s >= ctx.gap_abs and s.tolist() == mp.sv
                      and not (ctx.sexp > 0 and 0 in mp.sv))
    route = "mesh_multiplane"
    try:
        segs, T, fidx = intersections.mesh_multiplane(m, plane_origin=o, plane_normal=n, heights=hf)
    except Exception as e:  # noqa
        _viol(run, ctx, route, "raised:" + type(e).__name__, "mesh_multiplane raised", error=repr(e)[:300])
        return
    if not (len(segs) == len(T) == len(fidx) == len(heights)):
        _viol(run, ctx, route, "bad_shape", "mesh_multiplane does not return one entry per height")
        return
    for k, pl in enumerate(planes):
        if not usable[k]:
            run.skip("multiplane height inside the threshold band")
            continue
        s2 = np.asarray(segs[k], dtype=np.float64).reshape(-1, 2, 2)
        flat = s2.reshape(-1, 2)
        h4 = np.column_stack([flat, np.zeros(len(flat)), np.ones(len(flat))])
        lines3 = (h4 @ np.asarray(T[k]).T)[:, :3].reshape(-1, 2, 3)
        mpk = C.MeshPlane(ctx.V, ctx.F, pl)
        for fi in range(len(ctx.F)):
            run.state("section_pattern_rot", mpk.pattern(fi))
        run.state("multiplane_height_class", "vertex_height" if mpk.has_vertex_on_plane() else "between")
        judge_segments(run, ctx, route, lines3, np.asarray(fidx[k]), plane=pl)
    route = "Trimesh.section_multiplane"
    try:
        paths = m.section_multiplane(plane_origin=o, plane_normal=n, heights=hf)
    except Exception as e:  # noqa
        _viol(run, ctx, route, "raised:" + type(e).__name__, "section_multiplane raised", error=repr(e)[:300])
        return
    if len(paths) != len(heights):
        _viol(run, ctx, route, "bad_shape", "section_multiplane does not return one entry per height")
        return
    for k, pl in enumerate(planes):
        if not usable[k]:
            continue
        mpk = C.MeshPlane(ctx.V, ctx.F, pl)
        expected = mpk.expected_segments()
        eip = mpk.has_edge_in_plane()
        if paths[k] is None:
            if not eip and expected:
                _viol(run, ctx, route, "none_but_crossed", "section_multiplane gives None at a height that crosses triangles",
                      n_expected=len(expected))
            continue
        if not eip and not expected:
            _viol(run, ctx, route, "path_but_not_crossed", "section_multiplane gives a path at a height crossing nothing")
            continue
        judge_path(run, ctx, route, paths[k], mpk, expected, eip, to3d=paths[k].metadata["to_3D"])
        fi_meta = paths[k].metadata.get("face_index")
        if not eip and fi_meta is not None and sorted(np.asarray(fi_meta).tolist()) != sorted(expected):
            _viol(run, ctx, route, "face_index_metadata", "metadata['face_index'] is not the set of crossed faces")


# ---------------------------------------------------------------------------- judges: slices


def judge_slice(run, ctx, route, RV, RF, planes, faces=None, capped=False, label="", kx=None):
    """
    Result (RV, RF) of slicing the faces `faces` (None: all) by `planes` (kept: positive side
    of every plane).  Returns dict(area=..., ok=...).
    """
    RV = np.asarray(RV, dtype=np.float64).reshape(-1, 3) / ctx.s  # integer units
    RF = np.asarray(RF).reshape(-1, 3)
    ok = True
    tol_u = ctx.tol
    if len(RF) and (RF.dtype.kind not in "iu" or RF.min() < 0 or RF.max() >= len(RV)):
        _viol(run, ctx, route, "bad_faces", "slice result faces index outside its vertices")
        return {"ok": False, "area": float("nan")}
    area, avec = mesh_area_vec(RV, RF)
    used = np.unique(RF) if len(RF) else np.zeros(0, dtype=int)
    repeated = False
    if len(RF):
        rep = (RF[:, 0] == RF[:, 1]) | (RF[:, 1] == RF[:, 2]) | (RF[:, 0] == RF[:, 2])
        if rep.any():
            repeated = True
            ok = False
            _viol(run, ctx, route, "repeated_index_face", "slice result contains a face that uses one vertex twice",
                  faces=RF[rep][:4].tolist(), side=label, _key=dict(kx or {}))
    inplane_any = np.zeros(len(RF), dtype=bool)
    for pl in planes:
        nf = np.array([float(c) for c in pl.n])
        nf /= np.linalg.norm(nf)
        of = np.array([float(c) for c in pl.o])
        d = (RV - of) @ nf
        if len(used) and d[used].min() < -(tol_u + ctx.band_u):
            ok = False
            _viol(run, ctx, route, "negative_side", "slice result has a vertex on the negative side of a plane",
                  min_signed_dist=float(d[used].min()), side=label, _key=dict(kx or {}))
        if len(RF):
            inplane_any |= (np.abs(d[RF]) <= tol_u + ctx.band_u).all(axis=1)
    if len(RF):
        # every face on the surface with the orientation of the face it lies on
        # (cap faces lie in a cutting plane instead)
        T = RV[RF]
        cr = np.cross(T[:, 1] - T[:, 0], T[:, 2] - T[:, 0])
        a2 = np.linalg.norm(cr, axis=1)
        cen = T.mean(axis=1)
        check = a2 > 1e-9
        if capped or ctx.band_u:
            # (cap faces lie in the cutting plane; so may a surface face whose vertices are all inside the band)
            check &= ~inplane_any
        if check.any():
            d, near = surface_dist(cen[check], ctx.Vf, ctx.F if faces is None else ctx.F[np.asarray(faces)])
            if d.max() > tol_u:
                ok = False
                _viol(run, ctx, route, "off_surface", "a face of the slice result does not lie on the original surface",
                      max_dist=float(d.max()), side=label, _key=dict(kx or {}))
            else:
                Fsrc = ctx.F if faces is None else ctx.F[np.asarray(faces)]
                Ts = ctx.Vf[Fsrc]
                ns = np.cross(Ts[:, 1] - Ts[:, 0], Ts[:, 2] - Ts[:, 0])
                ns /= np.linalg.norm(ns, axis=1)[:, None]
                nr = cr[check] / a2[check][:, None]
                # some source triangle containing the centroid must have the same normal
                Pc = cen[check]
                k, msrc = len(Pc), len(Fsrc)
                dall = tri_dist(np.repeat(Pc, msrc, axis=0), np.tile(Ts[:, 0], (k, 1)), np.tile(Ts[:, 1], (k, 1)),
                                np.tile(Ts[:, 2], (k, 1))).reshape(k, msrc)
                same = ((nr @ ns.T) > 1.0 - 1e-6) & (dall <= tol_u)
                if not same.any(axis=1).all():
                    ok = False
                    _viol(run, ctx, route, "orientation", "a face of the slice result is wound against the surface it lies on",
                          n_bad=int((~same.any(axis=1)).sum()), side=label, _key=dict(kx or {}))
    return {"ok": ok, "area": area, "avec": avec, "inplane": inplane_any,
            "area_offplane": float(np.linalg.norm(np.cross(RV[RF[~inplane_any, 1]] - RV[RF[~inplane_any, 0]],
                                                           RV[RF[~inplane_any, 2]] - RV[RF[~inplane_any, 0]]), axis=1).sum() / 2.0)
            if len(RF) else 0.0}


def _area_bounds(ctx, planes, faces=None):
    """
    (oracle, lower, upper) for the area kept by `planes`.  In-band class: per face the smaller / larger of the
    exact answer and the answer of the snapped classification (a vertex <= tol.merge / 10 off the plane counted
    as on it) - a code working with tol.merge may give either, per face.
    """
    orc = C.SliceOracle(ctx.V, ctx.F, planes, faces=faces)
    if not ctx.band:
        return (orc,) + orc.area_bounds()
    snap = C.SliceOracle(ctx.V, ctx.F, planes, faces=faces, band=ctx.band_u)
    lo = sum(float(min(orc.ratio_lo[f], snap.ratio_lo[f])) * orc.face_area(f) for f in orc.faces)
    hi = sum(float(max(orc.ratio_hi[f], snap.ratio_hi[f])) * orc.face_area(f) for f in orc.faces)
    orc.coplanar |= snap.coplanar
    orc.snapped = snap
    return orc, lo, hi


def _min_separation(orc, s):
    """Smallest distance (absolute) between two DISTINCT exact vertices of the clipped surface."""
    from scipy.spatial import cKDTree

    pts = sorted({tuple(p) for poly in orc.poly_hi.values() for p in poly})
    if len(pts) < 2:
        return float("inf")
    P = np.array([C.to_float(p) for p in pts]) * s
    return float(cKDTree(P).query(P, k=2)[0][:, 1].min())


def _cap_diagonal_separation(ctx, p1, p2):
    """
    The second plane also cuts the triangles of the first cap, whatever triangulation the engine chose: smallest
    distance (absolute) between two distinct points where p2 can cut a chord of the exact section polygon of p1.
    """
    from scipy.spatial import cKDTree

    mp1 = C.MeshPlane(ctx.V, ctx.F, p1)
    pts = {tuple(p) for seg in mp1.expected_segments().values() for p in seg} | {mp1.V[i] for i in mp1.vertices_on_plane()}
    d = {p: p2.d(p) for p in pts}
    pos, neg = [p for p in pts if d[p] > 0], [p for p in pts if d[p] < 0]
    X = {tuple(C.lerp(u, v, d[u] / (d[u] - d[v]))) for u in pos for v in neg} | {p for p in pts if d[p] == 0}
    if len(X) < 2:
        return float("inf")
    P = np.array([C.to_float(p) for p in X]) * ctx.s
    return float(cKDTree(P).query(P, k=2)[0][:, 1].min())


def _call_slice(ctx, m, planes, route, face_index=None, cap=False, engine=None):
    """Run one of the slicing entry points; returns (vertices, faces)."""
    from trimesh import intersections

    ns, os_ = zip(*[ctx.pf(pl) for pl in planes])
    if route == "slice_faces_plane" or route == "slice_faces_plane:cached_dots":
        assert len(planes) == 1
        kw = {}
        if route.endswith("cached_dots"):
            kw["cached_dots"] = np.dot(np.asarray(m.vertices) - os_[0], ns[0])
        if face_index is not None:
            kw["face_index"] = _subset_arg(ctx, face_index, len(ctx.F))
        v, f, _ = intersections.slice_faces_plane(np.asarray(m.vertices).copy(), np.asarray(m.faces).copy(),
                                                  plane_normal=ns[0], plane_origin=os_[0], **kw)
        return np.asarray(v), np.asarray(f)
    kw = {}
    if face_index is not None:
        kw["face_index"] = _subset_arg(ctx, face_index, len(ctx.F))
    if engine is not None:
        kw["engine"] = engine
    if len(planes) == 1:
        r = m.slice_plane(plane_origin=os_[0], plane_normal=ns[0], cap=cap, **kw)
    else:
        r = m.slice_plane(plane_origin=np.array(os_), plane_normal=np.array(ns), cap=cap, **kw)
    return np.asarray(r.vertices), np.asarray(r.faces)


_SEMANTICS = {}


def rest_area_of(ctx, sub):
    key = ("rest_area", tuple(sub))
    if key not in ctx.__dict__:
        chosen = set(sub)
        rest = [i for i in range(len(ctx.F)) if i not in chosen]
        ctx.__dict__[key] = float(C.SliceOracle(ctx.V, ctx.F, [], faces=rest).total_area()) if rest else 0.0
    return ctx.__dict__[key]


def op_slice(run, ctx):
    """Uncapped slice by one plane, both sides; opts: route, face_index."""
    m = ctx.mesh()
    route = ctx.opts.get("route", "slice_plane")
    sub = ctx.opts.get("face_index")
    masked = sub is not None and _mask_class(ctx)
    pl = ctx.planes[0]
    record_patterns(run, ctx, "slice_pattern_rot", faces=sub)
    res = {}
    extra_total = 0.0
    for label, p in (("+", pl), ("-", pl.flipped())):
        try:
            RV, RF = _call_slice(ctx, m, [p], route, face_index=sub)
        except Exception as e:  # noqa
            if masked:
                run.count("bool_mask_refused(accepted)")
                return
            _viol(run, ctx, route, "raised:" + type(e).__name__, "slicing raised on a valid mesh/plane", error=repr(e)[:300], side=label,
                  _key={"subset": "yes" if sub is not None else "no"})
            return
        orc, lo, hi = _area_bounds(ctx, [p], faces=sub)
        j = judge_slice(run, ctx, route, RV, RF, [p], faces=None, label=label)
        res[label] = (j, lo, hi, orc)
        if not j["ok"]:
            continue
        scale = max(1.0, hi)
        area = j["area"]
        TOLA = ctx.tol  # (integer units; the absolute 1e-9 at unit scale)
        in_b = lo - 10 * TOLA * scale <= area <= hi + 10 * TOLA * scale
        if sub is not None:
            sem = "subset_only" if in_b else None
            if not in_b:
                # reading (A): the faces outside the subset are returned untouched
                chosen = set(sub)
                rest = [i for i in range(len(ctx.F)) if i not in chosen]
                rest_area = C.SliceOracle(ctx.V, ctx.F, [], faces=rest).total_area()
                if lo + rest_area - 10 * TOLA * scale <= area <= hi + rest_area + 10 * TOLA * scale:
                    sem, in_b = "subset_sliced_rest_kept", True
                    extra_total += rest_area
            if sem:
                run.state("face_index_semantics", sem)
                # one function has one meaning of `face_index`: once a call was explained by "subset only"
                # and NOT by "rest kept" (the rest has area), a call that only "rest kept" explains is the
                # other meaning - the subset was not applied (from seeded change C11-r4-1)
                if sem == "subset_only" and rest_area_of(ctx, sub) > 100 * TOLA * scale and not (
                        lo + rest_area_of(ctx, sub) - 10 * TOLA * scale <= area <= hi + rest_area_of(ctx, sub) + 10 * TOLA * scale):
                    _SEMANTICS.setdefault(route, "subset_only")
                elif sem == "subset_sliced_rest_kept" and _SEMANTICS.get(route) == "subset_only":
                    res[label][0]["ok"] = False
                    _viol(run, ctx, route, "face_subset_not_applied",
                          "the slice holds the faces outside face_index although other calls of this function return the subset only",
                          got=area, lo=lo, hi=hi, side=label, _key={"subset": "yes"})
        if not in_b:
            res[label][0]["ok"] = False
            _viol(run, ctx, route, "area", "area of the slice differs from the exact area on the positive side",
                  got=area, lo=lo, hi=hi, side=label, _key={"subset": "yes" if sub is not None else "no"})
        elif sub is None and not orc.coplanar and not ctx.band:
            exact = np.array([float(sum(orc.ratio_hi[f] * orc.N2[f][i] for f in orc.faces)) / 2.0 for i in range(3)])
            if np.abs(j["avec"] - exact).max() > 10 * TOLA * scale:
                _viol(run, ctx, route, "vector_area", "vector area of the slice differs from the exact one (winding / shape of the cut pieces)",
                      got=j["avec"].tolist(), expected=exact.tolist(), side=label)
    if len(res) == 2 and res["+"][0]["ok"] and res["-"][0]["ok"]:
        total = res["+"][3].total_area() + extra_total
        s = res["+"][0]["area"] + res["-"][0]["area"]
        run.count("slice_sum_checked")
        if abs(s - total) > 10 * ctx.tol * max(1.0, total):
            _viol(run, ctx, route, "area_sum", "areas of the two opposite slices do not add up to the original area",
                  plus=res["+"][0]["area"], minus=res["-"][0]["area"], total=total,
                  _key={"subset": "yes" if sub is not None else "no"})


def op_slice_multi(run, ctx):
    """Uncapped slice by several planes at once."""
    m = ctx.mesh()
    route = "slice_plane:multi"
    sub = ctx.opts.get("face_index")
    kx = {"subset": "yes" if sub is not None else "no"}
    orc = C.SliceOracle(ctx.V, ctx.F, ctx.planes, faces=sub)
    if orc.min_gap < ctx.gap_abs:
        run.skip("multi-plane: an intermediate cut vertex falls inside the threshold band of a later plane")
        return
    for i in range(len(ctx.planes)):
        record_patterns(run, ctx, "slice_pattern_rot", plane_index=i, faces=sub if i == 0 else None)
    try:
        RV, RF = _call_slice(ctx, m, ctx.planes, "slice_plane", face_index=sub)
    except Exception as e:  # noqa
        _viol(run, ctx, route, "raised:" + type(e).__name__, "slicing by several planes raised", error=repr(e)[:300], _key=kx)
        return
    lo, hi = orc.area_bounds()
    j = judge_slice(run, ctx, route, RV, RF, ctx.planes)
    if not j["ok"]:
        return
    scale = max(1.0, hi)
    TOLA = ctx.tol
    ok = lo - 10 * TOLA * scale <= j["area"] <= hi + 10 * TOLA * scale
    if sub is not None and not ok:
        # the other reading of a face subset: the faces outside it come back too (sliced by the later planes
        # like everything else that is left, or untouched) - accepted, as for a single plane
        chosen = set(sub)
        rest = [i for i in range(len(ctx.F)) if i not in chosen]
        r_all = C.SliceOracle(ctx.V, ctx.F, [], faces=rest).total_area()
        r_lo, r_hi = C.SliceOracle(ctx.V, ctx.F, ctx.planes[1:], faces=rest).area_bounds()
        for a, b in ((r_all, r_all), (r_lo, r_hi)):
            if lo + a - 10 * TOLA * scale <= j["area"] <= hi + b + 10 * TOLA * scale:
                ok = True
    if sub is not None:
        run.count("slice_multi_with_face_subset")
    if not ok:
        _viol(run, ctx, route, "area", "area of the multi-plane slice differs from the exact area inside all half-spaces",
              got=j["area"], lo=lo, hi=hi, n_planes=len(ctx.planes), _key=kx)


def op_cap(run, ctx):
    """Capped slice of a watertight solid by one plane, both sides; opts: engine."""
    restore = ctx.coarse
    if ctx.section_graph() == "branching":
        if ctx.band:
            # both input classes with a known mechanism at once: each is judged on its own elsewhere
            run.skip("cap: branching outline AND vertices inside the tol.merge band")
            return
        ctx.coarse = None  # a branching cap outline is an input class of its own, whatever else the case is
    try:
        _op_cap(run, ctx)
    finally:
        ctx.coarse = restore


def _op_cap(run, ctx):
    m = ctx.mesh()
    engine = ctx.opts.get("engine")
    route = "slice_plane:cap"
    pl = ctx.planes[0]
    record_patterns(run, ctx, "slice_pattern_rot")
    run.state("cap_engine", str(engine))
    vol_total = C.volume6(ctx.V, ctx.F) / 6.0
    nf = np.array([float(c) for c in pl.n])
    nf /= np.linalg.norm(nf)
    # a closed half has a volume independent of the reference point: use one off the plane so
    # that a missing / reversed cap shows.  The sum law is evaluated the way Trimesh.volume is
    # (about the origin), which is what a caller of the API observes.
    ref = np.array([float(c) for c in pl.o]) + 7.25 * nf + np.array([0.5, -0.25, 0.125])
    sg = ctx.section_graph()
    run.state("cap_section_graph_x_mesh", (sg, ctx.mclass))
    kx = {"section_graph": sg}
    if sg == "simple":
        kx["engine"] = engine
    TOLA = ctx.tol
    vols = {}
    for label, p in (("+", pl), ("-", pl.flipped())):
        orc, lo, hi = _area_bounds(ctx, [p])
        if _min_separation(getattr(orc, "snapped", orc), ctx.s) < SEP_MIN:
            run.skip("cap: two distinct exact vertices of the result within 10 tol.merge (threshold zone of the vertex merge)")
            return
        try:
            RV, RF = _call_slice(ctx, m, [p], "slice_plane", cap=True, engine=engine)
        except Exception as e:  # noqa
            _viol(run, ctx, route, "raised:" + type(e).__name__, "capped slicing raised on a watertight solid",
                  error=repr(e)[:300], side=label, _key=kx)
            return
        RV = RV / ctx.s  # integer units
        j = judge_slice(run, ctx, route, RV * ctx.s, RF, [p], capped=True, label=label, kx=kx)
        if not j["ok"]:
            return
        # surface part: faces not lying in the plane
        slack = 10 * TOLA * max(1.0, hi)
        if not (lo - slack <= j["area_offplane"] <= (hi if ctx.band else lo) + slack):
            _viol(run, ctx, route, "surface_area", "off-plane part of the capped half differs from the exact positive-side area",
                  got=j["area_offplane"], expected=lo, side=label, _key=kx)
        vols[label] = volume_about(RV, RF, np.zeros(3))
        watertight = bool(len(RF)) and topo_watertight(RF)
        if ctx.mclass == "convex" and len(RF):
            run.count("convex_halves_watertight_checked")
            if not watertight:
                _viol(run, ctx, route, "half_not_watertight", "capped half of a convex solid is not watertight",
                      side=label, n_faces=int(len(RF)), _key=kx)
        # (a cap moved by the band changes the volume by no more than band x area)
        vslack = 10 * TOLA * max(1.0, abs(vol_total)) + ctx.band_u * orc.total_area()
        if watertight or not len(RF):
            # closed half: its volume is well defined and must be the exact one
            run.count("closed_half_volume_checked")
            exact = float(orc.volume6_about(p.o)) / 6.0
            got = volume_about(RV, RF, ref)
            if abs(got - exact) > vslack:
                _viol(run, ctx, route, "half_volume", "volume of a watertight capped half differs from the exact volume on that side",
                      got=got, expected=exact, side=label, _key=kx)
        else:
            run.count("open_half(nonconvex, not judged watertight)")
    run.count("cap_volume_sum_checked")
    if abs(vols["+"] + vols["-"] - vol_total) > vslack:
        _viol(run, ctx, route, "volume_sum", "volumes of the two capped halves do not add up to the original volume",
              plus=vols["+"], minus=vols["-"], total=vol_total, _key=kx)


def op_cap_multi(run, ctx):
    """
    Convex solid capped by two planes at once: [P1, P2] and [P1, -P2] must add up to [P1]
    (the statement applied to the watertight half produced by P1), [P1] itself is exact.
    """
    m = ctx.mesh()
    engine = ctx.opts.get("engine")
    route = "slice_plane:cap:multi"
    p1, p2 = ctx.planes[0], ctx.planes[1]
    parts = (("1", [p1]), ("12", [p1, p2]), ("1-2", [p1, p2.flipped()]))
    orcs = {label: C.SliceOracle(ctx.V, ctx.F, planes) for label, planes in parts}
    if orcs["12"].min_gap < ctx.gap_abs:
        run.skip("multi-plane: an intermediate cut vertex falls inside the threshold band of a later plane")
        return
    if min(min(_min_separation(o, ctx.s) for o in orcs.values()), _cap_diagonal_separation(ctx, p1, p2)) < SEP_MIN:
        # (seen in the thorough tier: a micron-wide needle left by the first plane is cut by the second one
        # into points 4.5e-9 apart; the tol.merge grid of the cap code merges some of them and not others)
        run.skip("cap: two distinct exact vertices of the result within 10 tol.merge (threshold zone of the vertex merge)")
        return
    ref = np.array([0.37, -0.21, 0.11])
    out = {}
    for label, planes in parts:
        try:
            RV, RF = _call_slice(ctx, m, planes, "slice_plane", cap=True, engine=engine)
        except Exception as e:  # noqa
            _viol(run, ctx, route, "raised:" + type(e).__name__, "capped slicing by two planes raised on a convex solid",
                  error=repr(e)[:300], _key={"engine": engine})
            return
        j = judge_slice(run, ctx, route, RV, RF, planes, capped=True, label=label)
        if not j["ok"]:
            return
        if len(RF) and not topo_watertight(RF):
            _viol(run, ctx, route, "part_not_watertight", "convex solid capped by two planes is not watertight",
                  part=label, _key={"engine": engine})
            return
        out[label] = volume_about(RV / ctx.s, RF, ref)
    exact1 = float(orcs["1"].volume6_about(p1.o)) / 6.0
    scale = max(1.0, abs(C.volume6(ctx.V, ctx.F) / 6.0))
    if abs(out["1"] - exact1) > 10 * ctx.tol * scale:
        _viol(run, ctx, route, "half_volume", "volume of the capped half differs from the exact value", got=out["1"], expected=exact1)
    if abs(out["12"] + out["1-2"] - out["1"]) > 10 * ctx.tol * scale:
        _viol(run, ctx, route, "volume_sum", "the two parts of a capped half do not add up to it",
              a=out["12"], b=out["1-2"], whole=out["1"], _key={"engine": engine})


def block_grid(dims):
    """Integer box whose flat faces are subdivided into unit squares (two triangles each): convex, watertight."""
    return G.voxel_surface([(i, j, k) for i in range(dims[0]) for j in range(dims[1]) for k in range(dims[2])])


SWEEP_DIMS = ((2, 3, 4), (1, 2, 3), (2, 2, 3), (3, 4, 5), (2, 4, 6))


def execute_sweep(run, case):
    """
    Convex solid with subdivided flat faces x a plane through a mesh vertex with a small integer normal:
    the cap outline has straight runs of vertices.  Judged by the sentences of the statement alone -
    both capped halves watertight, their volumes add up - so no exact oracle is needed and thousands of
    planes can be swept (every vertex is exactly on the plane or >= 1 / |n| >= 0.05 away: no tolerance
    of the library is anywhere near).
    """
    V = np.array(case["mesh"]["V"], dtype=np.int64)
    F = np.array(case["mesh"]["F"], dtype=np.int64)
    pl = plane_from_record(case["planes"][0])
    engine = case["opts"].get("engine")
    n = np.array([float(c) for c in pl.n])
    o = np.array([float(c) for c in pl.o])
    m = G.to_trimesh(V, F)
    vol = C.volume6(V, F) / 6.0
    key = "op=cap_sweep route=slice_plane:cap engine=%s faces=flat_subdivided placement=vertex mesh=convex sym=%%s" % engine
    vols, sizes = [], []
    for side, sgn_ in (("+", 1.0), ("-", -1.0)):
        try:
            r = m.slice_plane(plane_origin=o, plane_normal=n * sgn_, cap=True, **({} if engine is None else {"engine": engine}))
        except Exception as e:  # noqa
            run.violation(key % ("raised:" + type(e).__name__), "capped slicing raised on a convex solid",
                          dict(case, observed={"error": repr(e)[:300], "side": side}))
            return
        RV, RF = np.asarray(r.vertices, dtype=np.float64), np.asarray(r.faces)
        sizes.append(len(RF))
        vols.append(volume_about(RV, RF, np.zeros(3)))
        if len(RF) and not topo_watertight(RF):
            run.violation(key % "half_not_watertight", "capped half of a convex solid is not watertight",
                          dict(case, observed={"side": side, "n_faces": int(len(RF))}))
            return
    if abs(vols[0] + vols[1] - vol) > 1e-9 * max(1.0, abs(vol)):
        run.violation(key % "volume_sum", "volumes of the two capped halves do not add up to the original volume",
                      dict(case, observed={"plus": vols[0], "minus": vols[1], "total": vol}))
    run.state("cap_engine", str(engine))
    run.case("cap_sweep:convex:vertex", "cap_sweep", str(engine), V, F, case["planes"][0]["n"], case["planes"][0]["o"],
             nontrivial=all(sizes), sample=case if (run.evaluations % 701 == 0) else None)


def sweep(run, n_planes):
    """n_planes planes of the flat-face sweep (see execute_sweep); stops on the budget."""
    rng = run.rng
    done = 0
    while done < n_planes and not run.out_of_time(0.2):
        V, F = block_grid(SWEEP_DIMS[int(rng.integers(len(SWEEP_DIMS)))])
        for _ in range(50):
            v = V[int(rng.integers(len(V)))]
            rec = plane_record(_rand_n(rng), tuple(Fr(int(c)) for c in v), "vertex1")
            eng = (None, "earcut", "earcut", "earcut", "earcut", "earcut", "triangle", "manifold")[done % 8]
            execute(run, make_case("cap_sweep", "box_grid", V, F, [rec], unit=False, engine=eng))
            done += 1
    run.count("flat_face_sweep_planes", done)


OPS = {
    "mesh_plane": op_mesh_plane,
    "section": op_section,
    "multiplane": op_multiplane,
    "slice": op_slice,
    "slice_multi": op_slice_multi,
    "cap": op_cap,
    "cap_multi": op_cap_multi,
}


def _relation(step, earlier):
    """
    Structural relation of a step of a history to the steps before it (key part): for a
    parallel-plane step the relation to the latest earlier parallel-plane step, else the
    operation that ran just before.
    """
    if step["op"] == "multiplane":
        edited = ""
        for prev in reversed(earlier):
            if prev["op"] == "edit":
                edited = "vertices_edited+"
            if prev["op"] != "multiplane":
                continue
            if edited:
                return "after_" + edited + "multiplane_same_or_other_plane"
            a, b = plane_from_record(step["planes"][0]), plane_from_record(prev["planes"][0])
            if a.n != b.n:
                return "after_multiplane_other_normal"
            off = sum(a.n[i] * (a.o[i] - b.o[i]) for i in range(3))
            if off != 0:
                return "after_multiplane_same_normal_origin_at_other_offset"
            return "after_multiplane_same_normal_origin_in_same_plane"
    return "after_" + earlier[-1]["op"]


def execute_history(run, case):
    """
    opts['steps']: cases (without the mesh) executed one after the other on ONE mesh object;
    every step is judged exactly like a call on a fresh object - nothing a call leaves behind
    (mesh cache, attributes) may change what a later call returns.
    """
    steps = case["opts"]["steps"]
    top = Ctx(dict(case, opts={}))
    shared = top.mesh()
    v0, f0 = np.array(shared.vertices), np.array(shared.faces)
    done = []
    mesh_now = case["mesh"]
    for k, st in enumerate(steps):
        if st["op"] == "edit":
            # the caller moves the vertices in place (no read in between): the next call is a call on
            # the mesh as it is now - nothing computed for the old vertices may answer
            # (from seeded change C11-r4-2)
            shift = np.array(st["shift"], dtype=np.int64)
            mesh_now = dict(mesh_now, V=(np.array(mesh_now["V"], dtype=np.int64) + shift).tolist())
            if st.get("how") == "setter":
                shared.vertices = np.asarray(shared.vertices) + shift.astype(np.float64)
            else:
                shared.vertices[:] = np.asarray(shared.vertices) + shift.astype(np.float64)
            v0 = np.array(shared.vertices)
            done.append(st)
            run.count("history_vertex_edits")
            continue
        sub = {"op": st["op"], "mesh": mesh_now, "planes": st["planes"], "unit": st["unit"], "opts": st.get("opts", {})}
        hist = _relation(st, done) if done else None
        execute(run, sub, shared=shared, hist=hist, parent=(case, k))
        done.append(st)
        if hist:
            run.state("history_relation", (st["op"], hist))
    if not (np.array_equal(v0, np.asarray(shared.vertices)) and np.array_equal(f0, np.asarray(shared.faces))):
        run.count("history_changed_the_mesh(not judged)")


def execute(run, case, record=True, shared=None, hist=None, parent=None):
    if case["op"] == "history":
        execute_history(run, case)
        return
    if case["op"] == "cap_sweep":
        execute_sweep(run, case)
        return
    ctx = Ctx(case)
    ctx.shared, ctx.hist, ctx.parent = shared, hist, parent
    if ctx.sexp > 0:
        # one input class, computed exactly: the same integer mesh in units a million / a billion times smaller.
        # The library's absolute 1e-8 / 1e-5 grids then sit below the rounding of its own arithmetic
        ctx.coarse = ({"scale": "large"}, "differs_from_exact", "exceptions apart")
    if case["op"] != "multiplane" and not gap_ok(ctx):
        run.skip("plane inside the threshold band of some vertex")
        return
    OPS[case["op"]](run, ctx)
    if record:
        meets = any(
            (0 in ctx.mp(i).sv) or ((1 in ctx.mp(i).sv) and (-1 in ctx.mp(i).sv)) for i in range(len(ctx.planes))
        )
        cls = ""
        if ctx.sexp:
            cls += ":small_scale" if ctx.sexp < 0 else ":large_scale"
            run.state("scale_class", (case["op"], ctx.sexp))
        if ctx.nexp:
            cls += ":normal_tiny" if ctx.nexp < 0 else ":normal_huge"
        if ctx.opts.get("subset_as") == "mask":
            cls += ":bool_mask"
        if hist:
            cls += ":warm_object"
        run.case(
            "%s:%s:%s%s" % (case["op"], ctx.mclass, ctx.placement(), cls),
            case["op"], sorted(case["opts"].items()), case["unit"], ctx.V, ctx.F, ctx.sexp, hist,
            [(r["n"], r["o"]) for r in case["planes"]],
            nontrivial=meets,
            sample=case if (run.evaluations % 701 == 0) else None,
        )
        run.state("placement_x_mesh", (ctx.placement(), ctx.mclass))
        run.state("op_x_placement", (case["op"], ctx.placement()))
        if ctx.nexp:
            run.state("normal_length_class", (case["op"], ctx.nexp, "band_swallows_vertices" if ctx.coarse and "band" in ctx.coarse[0] else "band_clear"))


# ---------------------------------------------------------------------------- workload


def planes_for_mesh(run, V, F, n_general, n_special):
    rng = run.rng
    out = []
    tries = 0
    while len(out) < n_general and tries < 10 * n_general:
        tries += 1
        p = plane_of_class(rng, V, F, "general")
        if p:
            out.append(("general",) + p)
    k = 0
    tries = 0
    while k < n_special and tries < 10 * n_special:
        tries += 1
        cls = SPECIAL[(k + tries) % len(SPECIAL)]
        if cls == "in_band_small":
            p = plane_of_class(rng, V, F, "in_band", s=2.0 ** SMALL_SEXP)
        else:
            p = plane_of_class(rng, V, F, cls)
        if p:
            out.append((cls,) + p)
            k += 1
    return out


def multiplane_case(rng, tag, V, F, rep, quick, n=None, o=None, unit=None, sexp=0):
    """Parallel planes at exact vertex heights, between them and outside; integer-length normal."""
    if n is None:
        n = INT_LENGTH_NORMALS[int(rng.integers(len(INT_LENGTH_NORMALS)))]
        n = tuple(int(c) * int(s) for c, s in zip(n, rng.choice([-1, 1], size=3)))
    L = _L(n)
    if o is None:
        o = tuple(Fr(int(c)) for c in V[int(rng.integers(len(V)))]) if rep % 2 else (Fr(1, 4), Fr(-3, 8), Fr(5, 16))
    hv = sorted({sum(Fr(int(n[i])) * (Fr(int(v[i])) - o[i]) for i in range(3)) / L for v in V})
    hs = list(hv)
    hs += [(a + b) / 2 for a, b in zip(hv[:-1], hv[1:])]
    hs += [hv[0] - 1, hv[-1] + Fr(1, 2)]
    order = rng.permutation(len(hs))
    hs = [hs[i] for i in order][: (10 if quick else 24)]
    return make_case("multiplane", tag, V, F, [plane_record(n, o, "parallel")], unit=bool(rep % 2) if unit is None else unit,
                     sexp=sexp, heights=["%d/%d" % (h.numerator, h.denominator) for h in hs])


def history_case(rng, tag, V, F, planes, closed, mclass, quick):
    """
    Several calls on one mesh object.  The parallel-plane calls share one (bit-identical) normal
    while the origin moves along the normal, then inside its plane; another normal and the
    single-plane operations are interleaved, so every kind of call also runs on a warm object.
    """
    n = INT_LENGTH_NORMALS[int(rng.integers(len(INT_LENGTH_NORMALS)))]
    n = tuple(int(c) * int(s) for c, s in zip(n, rng.choice([-1, 1], size=3)))
    L = _L(n)
    unit = bool(rng.integers(2))
    o1 = tuple(Fr(int(c)) for c in V[int(rng.integers(len(V)))]) if int(rng.integers(2)) else (Fr(1, 4), Fr(-3, 8), Fr(5, 16))
    k = Fr(int(rng.choice([-5, -3, -1, 1, 2, 3, 7])), int(rng.choice([1, 2, 4])))
    o2 = tuple(o1[i] + n[i] * k / L for i in range(3))  # k along the unit normal
    w = _icross(n, _rand_n(rng))
    o3 = tuple(o2[i] + w[i] for i in range(3)) if any(w) else o2  # same plane as o2
    n2 = INT_LENGTH_NORMALS[int(rng.integers(len(INT_LENGTH_NORMALS)))]

    def strip(c):
        return {"op": c["op"], "planes": c["planes"], "unit": c["unit"], "opts": c["opts"]}

    def single(op, **opts):
        cls, pn, po = planes[int(rng.integers(len(planes)))]
        return {"op": op, "planes": [plane_record(pn, po, cls)], "unit": bool(rng.integers(2)), "opts": opts}

    steps = [strip(multiplane_case(rng, tag, V, F, 0, quick, n=n, o=o1, unit=unit))]
    if int(rng.integers(2)):
        # the vertices move (all by one integer vector) between two calls with the bit-identical plane
        shift = [int(c) for c in rng.integers(-3, 4, size=3)]
        if any(shift):
            V2 = np.asarray(V, dtype=np.int64) + np.array(shift, dtype=np.int64)
            steps.append({"op": "edit", "shift": shift, "how": ("inplace", "setter")[int(rng.integers(2))]})
            steps.append(strip(multiplane_case(rng, tag, V2, F, 0, quick, n=n, o=o1, unit=unit)))
            V = V2
    steps.append(single("section"))
    steps.append(strip(multiplane_case(rng, tag, V, F, 0, quick, n=n, o=o2, unit=unit)))
    steps.append(single("slice", route="slice_plane"))
    steps.append(strip(multiplane_case(rng, tag, V, F, 0, quick, n=n, o=o3, unit=unit)))
    steps.append(single("mesh_plane"))
    if n2 != n:
        steps.append(strip(multiplane_case(rng, tag, V, F, 0, quick, n=n2, o=o1, unit=unit)))
    if closed and mclass != "overlapping":
        steps.append(single("cap", engine=ENGINES[int(rng.integers(3))]))
    steps.append(strip(multiplane_case(rng, tag, V, F, 0, quick, n=n, o=o1, unit=unit)))
    steps.append(single("section"))
    return make_case("history", tag, V, F, [], unit=unit, steps=steps)


def workload(run):
    rng = run.rng
    quick = run.tier == "quick"
    n_general, n_special = (9, 23) if quick else (30, 63)
    # flat-face sweep first (cheap: ~2 ms a call); its hit rate on the unchanged tree is about one plane in 1500
    sweep(run, 1200 if quick else 12000)
    mesh_index = 0
    for tag, V, F in mesh_catalogue(run):
        mesh_index += 1
        if run.out_of_time(0.9):
            break
        if not quick and mesh_index <= 5 and not run.mine(mesh_index):
            # fixed meshes are spread over the shards, random ones differ per shard anyway
            continue
        closed = topo_closed(F)
        mclass = MESH_CLASS[tag]
        planes = planes_for_mesh(run, V, F, n_general, n_special)
        for pi, (cls, n, o) in enumerate(planes):
            if run.out_of_time(0.9):
                break
            rec = plane_record(n, o, cls)
            unit = bool(pi % 2)
            if cls == "in_band_small":
                # built for the mesh x 2**-17 (band and gaps are absolute lengths): runs at that scale only
                for roll in range(3):
                    execute(run, make_case("mesh_plane", tag, V, F, [rec], unit=unit, sexp=SMALL_SEXP, roll=roll))
                execute(run, make_case("section", tag, V, F, [rec], unit=unit, sexp=SMALL_SEXP))
                for roll in range(3):
                    route = ("slice_plane", "slice_faces_plane", "slice_faces_plane:cached_dots")[(pi + roll) % 3]
                    execute(run, make_case("slice", tag, V, F, [rec], unit=unit, sexp=SMALL_SEXP, roll=roll, route=route))
                if closed and mclass != "overlapping":
                    for eng in (None,) + ENGINES:
                        execute(run, make_case("cap", tag, V, F, [rec], unit=unit, sexp=SMALL_SEXP, engine=eng, roll=pi % 3))
                continue
            # sections: all three index rotations of the faces
            for roll in range(3):
                execute(run, make_case("mesh_plane", tag, V, F, [rec], unit=unit, roll=roll))
            if len(F) > 2:
                # face subsets: sorted / permuted integer indices, or the same subset as a boolean mask
                k = int(rng.integers(1, len(F)))
                local = sorted(int(i) for i in rng.choice(len(F), size=k, replace=False))
                if pi % 3 == 0:
                    local = [int(i) for i in rng.permutation(local)]
                how = {"subset_as": "mask"} if pi % 4 == 1 else {}
                execute(run, make_case("mesh_plane", tag, V, F, [rec], unit=unit, local=local, **how))
                if pi % 2:
                    execute(run, make_case("section", tag, V, F, [rec], unit=unit, local=local, **how))
            execute(run, make_case("section", tag, V, F, [rec], unit=unit))
            # slices without cap: the method and the function, all rotations
            for roll in range(3):
                route = ("slice_plane", "slice_faces_plane", "slice_faces_plane:cached_dots")[(pi + roll) % 3]
                execute(run, make_case("slice", tag, V, F, [rec], unit=unit, roll=roll, route=route))
            if len(F) > 2 and (pi % 2 == 0 or cls.startswith("outside")):
                k = int(rng.integers(1, len(F)))
                sub = sorted(int(i) for i in rng.choice(len(F), size=k, replace=False))
                route = ("slice_plane", "slice_faces_plane")[pi % 4 // 2]
                how = {"subset_as": "mask"} if pi % 8 in (2, 4) else {}
                execute(run, make_case("slice", tag, V, F, [rec], unit=unit, route=route, face_index=sub, **how))
            # several planes at once
            if cls.startswith("outside") and len(planes) > 2:
                # a plane that cuts nothing first, then planes that do
                recs = [rec] + [plane_record(planes[j][1], planes[j][2], planes[j][0]) for j in (0, 1)][: 1 + pi % 2]
                execute(run, make_case("slice_multi", tag, V, F, recs, unit=unit))
                if len(F) > 2:
                    k = int(rng.integers(1, len(F)))
                    sub = sorted(int(i) for i in rng.choice(len(F), size=k, replace=False))
                    execute(run, make_case("slice_multi", tag, V, F, recs, unit=unit, face_index=sub))
            if pi % 3 == 0 and pi + 2 < len(planes) and not {cls, planes[pi + 1][0], planes[pi + 2][0]} & set(BANDS):
                recs = [rec] + [plane_record(planes[pi + j][1], planes[pi + j][2], planes[pi + j][0]) for j in (1, 2)][: 1 + pi % 2]
                execute(run, make_case("slice_multi", tag, V, F, recs, unit=unit))
                if len(F) > 2:
                    # the same planes on a face subset (indices of the ORIGINAL faces)
                    k = int(rng.integers(1, len(F)))
                    sub = sorted(int(i) for i in rng.choice(len(F), size=k, replace=False))
                    execute(run, make_case("slice_multi", tag, V, F, recs, unit=unit, face_index=sub))
            # caps: watertight solids only
            if closed and mclass != "overlapping":
                if cls in ("near_vertex", "in_band"):
                    # cut points a few microns apart on the cap outline / vertices inside the band: every engine
                    for eng in (None,) + ENGINES:
                        execute(run, make_case("cap", tag, V, F, [rec], unit=unit, engine=eng, roll=pi % 3))
                else:
                    eng = ENGINES[pi % 3] if pi % 4 else None
                    execute(run, make_case("cap", tag, V, F, [rec], unit=unit, engine=eng, roll=pi % 3))
                if mclass == "convex" and pi % 4 == 1 and pi + 1 < len(planes) and not {cls, planes[pi + 1][0]} & set(BANDS):
                    rec2 = plane_record(planes[pi + 1][1], planes[pi + 1][2], planes[pi + 1][0])
                    execute(run, make_case("cap_multi", tag, V, F, [rec, rec2], unit=unit, engine=ENGINES[(pi // 4) % 3]))
            elif closed:
                run.skip("cap on self-intersecting (overlapping) shells: not a solid")
            # the same plane given by a normal of another length (integer normal x 2**e, never unitized)
            if pi % 4 == 3 and cls not in ("near_vertex", "in_band"):
                e = NORMAL_EXPS[(pi // 4) % len(NORMAL_EXPS)]
                execute(run, make_case("mesh_plane", tag, V, F, [rec], unit=False, nexp=e))
                execute(run, make_case("section", tag, V, F, [rec], unit=False, nexp=e))
                route = ("slice_plane", "slice_faces_plane")[(pi // 4) % 2]
                execute(run, make_case("slice", tag, V, F, [rec], unit=False, nexp=e, route=route))
                if closed and mclass != "overlapping":
                    execute(run, make_case("cap", tag, V, F, [rec], unit=False, nexp=e, engine=None))
            # the same mesh at a scale where its features are smaller than the path merge grid
            if pi % 4 == 2 and cls not in ("near_vertex", "in_band"):
                execute(run, make_case("mesh_plane", tag, V, F, [rec], unit=unit, sexp=SMALL_SEXP))
                execute(run, make_case("section", tag, V, F, [rec], unit=unit, sexp=SMALL_SEXP))
                # slices and caps of the small mesh (the plane exactly through vertices or >= 10 tol.merge away)
                route = ("slice_plane", "slice_faces_plane")[(pi // 4) % 2]
                execute(run, make_case("slice", tag, V, F, [rec], unit=unit, sexp=SMALL_SEXP, route=route))
                if closed and mclass != "overlapping":
                    eng = (None,) + ENGINES
                    execute(run, make_case("cap", tag, V, F, [rec], unit=unit, sexp=SMALL_SEXP, engine=eng[(pi // 4) % 4]))
            # the same mesh a million / a billion times larger (general position: at that size a float
            # plane no longer passes "exactly" through anything)
            if cls == "general" and pi % 2 == 0:
                big = LARGE_SEXPS[(pi // 2) % 2]
                execute(run, make_case("mesh_plane", tag, V, F, [rec], unit=unit, sexp=big))
                execute(run, make_case("section", tag, V, F, [rec], unit=unit, sexp=big))
                route = ("slice_plane", "slice_faces_plane")[(pi // 4) % 2]
                execute(run, make_case("slice", tag, V, F, [rec], unit=unit, sexp=big, route=route))
                if closed and mclass != "overlapping":
                    eng = (None,) + ENGINES
                    execute(run, make_case("cap", tag, V, F, [rec], unit=unit, sexp=big, engine=eng[(pi // 2) % 4]))
        # parallel planes: vertex heights and heights between them
        for rep in range(2 if quick else 4):
            execute(run, multiplane_case(rng, tag, V, F, rep, quick))
        execute(run, multiplane_case(rng, tag, V, F, mesh_index, quick, sexp=SMALL_SEXP))
        execute(run, multiplane_case(rng, tag, V, F, mesh_index, quick, sexp=LARGE_SEXPS[mesh_index % 2]))
        # histories: several calls on one mesh object
        for rep in range(1 if quick else 2):
            hp = [p for p in planes if p[0] != "in_band_small"]
            if hp:
                execute(run, history_case(rng, tag, V, F, hp, closed, mclass, quick))
        run.state("mesh_class", mclass)

    # sub-claims whose sign pattern / rotation was never observed are inconclusive
    for kind in ("section_pattern_rot", "slice_pattern_rot"):
        seen = run.states.get(kind, set())
        missing = [s for s in ALL_PATTERN_STATES if s not in seen]
        if missing:
            run.inconclusive("%s never observed: %s" % (kind, missing[:6]))
    for eng in ENGINES + ("None",):
        if eng not in run.states.get("cap_engine", set()):
            run.inconclusive("cap engine %s never exercised" % eng)
    for name, need in (("history_relation", 3), ("path_zone", 2), ("normal_length_class", 2), ("scale_class", 6)):
        if len(run.states.get(name, set())) < need:
            run.inconclusive("input class %s: fewer than %d states observed" % (name, need))


def replay(run, case):
    case = {k: v for k, v in case.items() if k != "observed"}
    execute(run, case)
