"""
C12 - accelerated ray and proximity queries equal exhaustive evaluation.

Monitor shape: independent slow reference observed next to every execution.

* rays: every ray is evaluated against EVERY triangle in float64 (vmon/oracle/rayref.py,
  Moeller-Trumbore + edge-moment sign test).  The oracle also decides which rays are in general
  position (line >= delta*scale away from every edge, pierced triangles crossed at |d.n| >= 1e-3
  and not within 10*delta*scale of the origin; delta = 1e-4 native, 1e-3 embree/float32).  Only
  those rays are judged.  Both engines are instantiated explicitly.
* containment: solid-angle winding number (no rays involved) for points >= margin off the
  surface and winding number in {0, 1}.
* proximity: project-and-clamp closest point on every triangle + min over all triangles; sign
  from the winding number (documented: inside positive, outside negative).

Scale class (extent of the mesh: 1e-2, 1, 1e2; round 4: 1e-5 and 1e12 for a few meshes whose
triangles stay 10x above the library's documented zero-area threshold) is part of every case tag
and every key; meshes that contain zero-area faces carry `degenerate_faces` in the tag and
`faces=degenerate` in the key.

Round 4 input classes (each with its own class token in the key, derived from a constant of the
source with a 10x band): layered parts crossed more than max_hits = 20 times by one line
(`gap=beyond_20_hits`, `gap=over_20_crossings`), solids touching along a wall - two triangles crossed
at one point (`gap=coincident`, `region=coincident_faces`), origins 1e5 / 1e7 mesh sizes away
(`class=origin_beyond_float32`), extent 1e-5 against the absolute 1e-6 forward slack
(`class=crossing_behind_origin_within_abs_slack`, `gap=within_abs_forward_slack`), extent 1e12
against the int64 grid of the duplicate filter (`gap=merge_grid_int64_overflow`) and the absolute
pad of ray_bounds (`class=` / `gap=bounding_plane_face_pad_below_float_spacing`).

embree multi-hit advances the origin by `1e-4 * (100 / mesh.scale)` world units after each hit
(ray_pyembree.py:165).  A later hit closer than that to the previous one cannot be found.  The
monitor derives a gap class from this documented constant with a 10x band on both sides:
  gap=below_offset   gap <= 0.1 * offset       (known finding at scales 1e-2 and 1)
  gap=above_offset   gap >= 10  * offset       (strict everywhere)
  in between                                    not judged (counted)
"""

from __future__ import annotations

import numpy as np

from ..gen import mesh as G
from ..oracle import rayref as R

PROP = "C12"
LEVEL = "exploration"
RULE = (
    "closed meshes (box, octahedron, genus-1 frame, L-prism, tetrahedra, lattice hulls, polycubes, "
    "multi-body / nested / overlapping shells, icosphere, slabs, spike with a far vertex, a stack of 21 plates, "
    "boxes touching along a wall), normalised "
    "to extent S in {1e-2, 1, 1e2} (box, octahedron, L-prism, tetrahedron, nested cavity, hull also 1e-5 and 1e12 "
    "with use_embree=False), translated by 0 or 1e3, half of them rotated (plate stacks also with their axis along "
    "the two containment test directions); per mesh: rays "
    "(origin inside bounds / outside / far / 1e5 and 1e7 sizes away / mesh behind; direction axis-aligned / oblique / aimed / "
    "along a face normal / non-unit / 50-2000 long / 1e-3 and 1e-7 short), containment points and proximity points (random, "
    "near vertex, near edge, near face, half way between two crossings of a line, far).  40 % of the meshes are asked again after a query - vertex "
    "edit history (the first read after the edit is one of rays / contains / on_surface / closest_point / "
    "closest_point_naive / signed_distance / nearby_faces); 30 % are asked again with 1-3 zero-area faces "
    "(repeated index, point, collinear, duplicated vertex) inserted into the face list.  One case = one ray or one query point on one mesh; distinct = distinct (mesh bytes, query "
    "bytes); non-trivial = the ray crosses the mesh's bounding box / the point is judged against "
    ">= 1 triangle after the general-position filter."
)
ANCHORS = [
    "trimesh/ray/ray_triangle.py:ray_bounds",
    "trimesh/ray/ray_triangle.py:ray_triangle_candidates",
    "trimesh/ray/ray_triangle.py:ray_triangle_id",
    "trimesh/ray/ray_triangle.py:RayMeshIntersector.intersects_id",
    "trimesh/ray/ray_triangle.py:RayMeshIntersector.intersects_location",
    "trimesh/ray/ray_triangle.py:RayMeshIntersector.intersects_first",
    "trimesh/ray/ray_triangle.py:RayMeshIntersector.intersects_any",
    "trimesh/ray/ray_triangle.py:RayMeshIntersector.contains_points",
    "trimesh/ray/ray_pyembree.py:RayMeshIntersector.intersects_id",
    "trimesh/ray/ray_pyembree.py:RayMeshIntersector.intersects_location",
    "trimesh/ray/ray_pyembree.py:RayMeshIntersector.intersects_first",
    "trimesh/ray/ray_pyembree.py:RayMeshIntersector.intersects_any",
    "trimesh/ray/ray_pyembree.py:RayMeshIntersector.contains_points",
    "trimesh/ray/ray_util.py:contains_points",
    "trimesh/intersections.py:planes_lines",
    "trimesh/triangles.py:points_to_barycentric",
    "trimesh/triangles.py:closest_point",
    "trimesh/proximity.py:nearby_faces",
    "trimesh/proximity.py:closest_point",
    "trimesh/proximity.py:closest_point_naive",
    "trimesh/proximity.py:signed_distance",
    "trimesh/proximity.py:ProximityQuery.on_surface",
    "trimesh/proximity.py:ProximityQuery.vertex",
    "trimesh/proximity.py:ProximityQuery.signed_distance",
]
SHARDS = {"quick": 1, "thorough": 12}
BUDGET = {"quick": 42, "thorough": 420}
MIN_EVENTS = {"quick": 4000, "thorough": 40000}
ASSUMPTIONS = [
    "float64 brute force over all triangles is exact enough for rays that stay >= 1e-4*extent away "
    "from every edge and for points >= 1e-3*extent off the surface",
    "the winding number of the generated closed meshes is an integer; points where it is not in "
    "{0, 1} (overlap of two shells) are not judged for containment / sign",
    "embree is judged only on rays / points that pass the wider float32 margins (1e-3*extent)",
    "the embree origin-advance distance 1e-4*100/mesh.scale is read from the source to define the "
    "gap classes; the default containment direction is read from ray_util.contains_points",
    "round 4 classes are derived from constants read from the source: max_hits=20, forward slack 1e-6, "
    "tol.merge=1e-8 grid of intersects_location (int64 limit 9.2e10), ray_bounds pad 1e-5, float32 origins",
    "at extents 1e-5 / 1e12 the embree engine is asked for first / single / any hits only (its multi-hit "
    "advance distance, findings (a)/(d), is 1e3 resp. 1e-20 extents there); mesh.ray is the native engine",
    "two crossings of one ray 0 < gap < 10*tol.merge apart are one location by the documented grid of "
    "intersects_location: not judged (reachable at extent 1e-5 only)",
]
EXHAUSTIVE = {"quick": False, "thorough": False}

SCALES = (1e-2, 1.0, 1e2)
# extreme sizes (round 4): a part of a few micrometres modelled in metres / coordinates far above
# 1e8.  The small one stays 10x above the library's documented resolution (a triangle whose edge
# cross product is below util.TOL_ZERO = 1e-13 is "degenerate": see usable_at_extreme_scale).
XSCALES = (1e-5, 1e12)
OFFSETS = (0.0, 1e3)
DELTA = {"native": 1e-4, "embree": 1e-3}
DEFAULT_DIR = np.array([0.4395064455, 0.617598629942, 0.652231566745])
XDIR = np.array([0.31, -0.77, 0.55]) / np.linalg.norm([0.31, -0.77, 0.55])
# documented absolute constants the classes below are derived from
TOL_MERGE = 1e-8          # constants.tol.merge: "closer than this is the same point"
FORWARD_SLACK = 1e-6      # ray_triangle.ray_triangle_id: hits this far behind the origin are kept
INT64_GRID_LIMIT = 9.2e10  # |x| * 1e8 leaves the int64 range (grouping.float_to_int)
EMBREE_MAX_HITS = 20      # ray_pyembree.RayMeshIntersector.intersects_id(max_hits=20)
FAR_FLOAT32 = 1e4         # origin farther than this many mesh sizes: float32 cannot place it


def slabel(S):
    return {1e-5: "1e-5", 1e-2: "1e-2", 1.0: "1", 1e2: "1e2", 1e12: "1e12"}.get(float(S), "%g" % S)


def olabel(off):
    return "0" if not off else "1e3"


# ------------------------------------------------------------------------------------------
# mesh cases


class MeshCase:
    """A closed mesh normalised to bounding-box diagonal S, optionally rotated, then moved.

    With `edit` the mesh object has a history: it is built, asked ray / containment / proximity
    questions (so that every derived structure exists), then its vertices are changed IN PLACE or
    re-assigned - with no other access in between - and only then handed to the checks, which
    judge every answer against the geometry the object has now.
    """

    def __init__(self, tag, V, F, S, off, rot=None, edit=None, degen=None):
        self.tag = tag
        # kinds of zero-area faces that were put into F (see with_degenerate_faces); None: none
        self.degen = tuple(degen) if degen else None
        self.V = np.asarray(V, dtype=np.float64)
        self.F = np.asarray(F, dtype=np.int64)
        self.S = float(S)
        self.off = float(off)
        self.rot = None if rot is None else np.asarray(rot, dtype=np.float64)
        self.edit = edit
        self.primed_engines = None

    def vertices(self):
        V = self.V
        lo, hi = V.min(axis=0), V.max(axis=0)
        Vn = (V - (lo + hi) / 2.0) / np.linalg.norm(hi - lo)
        if self.rot is not None:
            Vn = Vn @ self.rot.T
            lo, hi = Vn.min(axis=0), Vn.max(axis=0)
            Vn = (Vn - (lo + hi) / 2.0) / np.linalg.norm(hi - lo)
        return Vn * self.S + np.array([self.off, -self.off, self.off])

    def build(self):
        import trimesh

        Vf = self.vertices()
        # extreme sizes: `mesh.ray` is the native engine (option use_embree=False), so that
        # mesh.contains / signed_distance are judged on it; the embree engine is instantiated
        # explicitly next to it as everywhere else
        m = trimesh.Trimesh(vertices=Vf.copy(), faces=self.F.copy(), process=False,
                            **({"use_embree": False} if self.extreme else {}))
        if self.edit is None:
            return m, Vf[self.F]
        self.primed_engines = self._prime(m, Vf)
        e = self.edit
        kind, ax, amount = e["kind"], int(e.get("axis", 0)), float(e.get("amount", 0.0))
        c = (Vf.min(axis=0) + Vf.max(axis=0)) / 2.0
        if kind == "shift_inplace":
            m.vertices[:, ax] += amount * self.S
        elif kind == "scale_inplace":
            m.vertices *= amount
        elif kind == "resize_about_centre_inplace":
            m.vertices[:] = c + (Vf - c) * amount
        elif kind == "assign_shifted":
            W = Vf.copy()
            W[:, ax] += amount * self.S
            m.vertices = W
        elif kind == "assign_resized":
            m.vertices = c + (Vf - c) * amount
        else:
            raise ValueError(kind)
        W = np.array(m.vertices.view(np.ndarray), dtype=np.float64)
        return m, W[self.F]

    @staticmethod
    def _prime(m, Vf):
        """Ask the untouched mesh everything once; returns the ray engines built on it."""
        import trimesh.ray.ray_triangle as rt
        from trimesh import proximity

        lo, hi = Vf.min(axis=0), Vf.max(axis=0)
        P = np.array([lo - 0.2 * (hi - lo), (lo + hi) / 2.0, hi + 0.3 * (hi - lo), lo + 0.25 * (hi - lo)])
        D = np.array([[0.3, 0.5, 0.8], [0.0, 0.0, 1.0], [-0.4, -0.5, -0.7], [1.0, 0.2, 0.1]])
        engines = [("native", rt.RayMeshIntersector(m))]
        try:
            import trimesh.ray.ray_pyembree as re_

            engines.append(("embree", re_.RayMeshIntersector(m)))
        except BaseException:  # noqa
            pass
        for call in (
            lambda: proximity.closest_point(m, P),
            lambda: proximity.closest_point_naive(m, P),
            lambda: m.nearest.on_surface(P),
            lambda: m.nearest.vertex(P),
            lambda: proximity.signed_distance(m, P),
            lambda: m.contains(P),
            lambda: m.ray.intersects_location(P, D),
        ) + tuple((lambda eng=eng: eng.intersects_id(P, D, multiple_hits=True, return_locations=True)) for _n, eng in engines) + tuple(
            (lambda eng=eng: eng.contains_points(P)) for _n, eng in engines
        ):
            try:
                call()
            except BaseException:  # noqa: priming only, the checks judge the later calls
                pass
        return engines

    def to_dict(self):
        return {
            "tag": self.tag, "V": self.V.tolist(), "F": self.F.tolist(), "S": self.S,
            "off": self.off, "rot": None if self.rot is None else self.rot.tolist(), "edit": self.edit,
            "degen": None if self.degen is None else list(self.degen),
        }

    @staticmethod
    def from_dict(d):
        return MeshCase(d["tag"], d["V"], d["F"], d["S"], d["off"], d.get("rot"), d.get("edit"), d.get("degen"))

    @property
    def sl(self):
        return slabel(self.S)

    @property
    def extreme(self):
        return self.S in XSCALES

    def cls(self):
        return "S=%s:off=%s%s%s" % (self.sl, olabel(self.off), "" if self.edit is None else ":after_" + self.edit["kind"],
                                    ":degenerate_faces" if self.degen else "")


EDITS = (
    ("shift_inplace", (0.15, -0.15, 0.4)),
    ("scale_inplace", (0.6, 1.5)),
    ("resize_about_centre_inplace", (0.6, 1.4)),
    ("assign_shifted", (0.2, -0.3)),
    ("assign_resized", (0.7, 1.3)),
)


FIRST = ("rays", "contains", "proximity:on_surface", "proximity:closest_point", "proximity:closest_point",
         "proximity:closest_point_naive", "proximity:signed_distance", "proximity:nearby_faces")


def random_edit(rng):
    kind, amounts = EDITS[int(rng.integers(len(EDITS)))]
    return {"kind": kind, "axis": int(rng.integers(3)), "amount": float(amounts[int(rng.integers(len(amounts)))]),
            "first": FIRST[int(rng.integers(len(FIRST)))]}


def _ico(sub):
    import trimesh

    m = trimesh.creation.icosphere(subdivisions=sub)
    return np.array(m.vertices), np.array(m.faces)


def _spike():
    # tetrahedron with one far vertex: long triangles whose vertices are far from most of
    # their interior
    V = np.array([[0, 0, 0], [3, 0, 0], [0, 4, 0], [1, 1, 60]], dtype=np.int64)
    F = np.array([[0, 2, 1], [0, 1, 3], [1, 2, 3], [0, 3, 2]], dtype=np.int64)
    if G.signed_volume6(V, F) < 0:
        F = F[:, ::-1].copy()
    return V, F


def plate_stack(n=21, width=100, thick=6, gap=1):
    """
    `n` plates on top of each other (a heat sink, a stack of parts exported as one mesh): a line
    along the stack crosses 2 n faces.  Plates are 3 % of the extent thick, so that points inside
    them and rays through them keep the float32 margins of the embree engine.
    """
    return G.concat([G.box_int((width, width, thick), (0, 0, i * (thick + gap))) for i in range(n)])


def touching_boxes(rng=None):
    """
    Two boxes that touch along a wall (an assembly exported as one mesh): closed, consistently
    wound, winding number 0 / 1 everywhere off the surface; on the common wall two triangles lie
    in each other's interior, so a ray through the wall crosses two triangles at one point.
    """
    if rng is None:
        a, b, shift, axis = (2, 2, 2), (2, 2, 2), (0, 0), 0
    else:
        a = tuple(int(x) for x in rng.integers(2, 6, size=3))
        b = tuple(int(x) for x in rng.integers(2, 6, size=3))
        axis = int(rng.integers(3))
        # partial overlap of the two walls (at least one unit in both directions)
        shift = tuple(int(rng.integers(-(b[k] - 1), a[k])) for k in range(3) if k != axis)
    origin = [0, 0, 0]
    origin[axis] = a[axis]
    for k, sh in zip([k for k in range(3) if k != axis], shift):
        origin[k] = sh
    return G.concat([G.box_int(a), G.box_int(b, tuple(origin))])


def usable_at_extreme_scale(T):
    """
    The library documents a triangle whose edge cross product is below util.TOL_ZERO = 1e-13 as
    degenerate (zero normal).  Meshes of the 1e-5 class keep every triangle 10x above that.
    """
    N = np.linalg.norm(np.cross(T[:, 1] - T[:, 0], T[:, 2] - T[:, 0]), axis=1)
    return bool(N.min() >= 1e-12)


def fixed_meshes():
    out = [
        ("box", *G.box_int((2, 3, 4), (-1, -2, 1))),
        ("octahedron", *G.octahedron()),
        ("frame_torus", *G.frame_torus((2, 1, 3))),
        ("l_prism", *G.l_prism()),
        ("long_box", *G.box_int((1, 1, 30))),
        ("spike", *_spike()),
        ("slab", *G.box_int((100, 100, 2))),
        ("thin_slab", *G.box_int((2000, 2000, 1))),
        ("icosphere1", *_ico(1)),
        ("icosphere2", *_ico(2)),
        ("nested_cavity", *G.concat([G.box_int((6, 6, 6), (-3, -3, -3)), G.invert(*G.box_int((2, 2, 2), (-1, -1, -1)))])),
        ("two_boxes", *G.concat([G.box_int((2, 2, 2)), G.box_int((1, 2, 3), (5, 1, 0))])),
    ]
    return out


def random_rotation(rng):
    q = rng.normal(size=4)
    q /= np.linalg.norm(q)
    w, x, y, z = q
    return np.array(
        [
            [1 - 2 * (y * y + z * z), 2 * (x * y - w * z), 2 * (x * z + w * y)],
            [2 * (x * y + w * z), 1 - 2 * (x * x + z * z), 2 * (y * z - w * x)],
            [2 * (x * z - w * y), 2 * (y * z + w * x), 1 - 2 * (x * x + y * y)],
        ]
    )


def zero_area_faces(T):
    """Faces whose height is below 1e-8 of their longest edge (same test as the oracle's)."""
    A, B, C = T[:, 0], T[:, 1], T[:, 2]
    N = np.cross(B - A, C - A)
    L2 = np.maximum(((B - A) ** 2).sum(-1), np.maximum(((C - B) ** 2).sum(-1), ((A - C) ** 2).sum(-1)))
    return (N * N).sum(-1) <= 1e-16 * L2 * L2


def noise_normal_faces(T):
    """
    Zero-area faces whose cross product is rounding noise ABOVE a tenth of the library's zero
    threshold (util.TOL_ZERO = 1e-13): Trimesh.face_normals documents their normal as "zero or an
    arbitrary vector".  Generators keep a 10x gap to that constant: such meshes are not judged.
    """
    A, B, C = T[:, 0], T[:, 1], T[:, 2]
    n1 = np.linalg.norm(np.cross(B - A, C - A), axis=1)
    n2 = np.linalg.norm(np.cross(B - A, C - B), axis=1)
    return zero_area_faces(T) & (np.maximum(n1, n2) > 1e-14)


def with_degenerate_faces(rng, V, F, collinear=True):
    """
    The same surface with 1-3 zero-area faces put INTO the face list (the first one in the first
    half, so most faces come after it): a face with a repeated index, a face that is one vertex
    three times, three distinct collinear vertices (a new vertex on the midpoint of an edge) and a
    face through a duplicated (coincident, differently numbered) vertex.  Legal input: loading
    keeps such faces unless validate=True.  They have no interior, so no ray crosses one, the
    winding number ignores them, and their closest point is the closest point of a segment.
    Returns V, F, kinds.
    """
    V = np.asarray(V, dtype=np.float64)
    F = [list(map(int, f)) for f in np.asarray(F)]
    n0 = len(F)
    kinds = []
    for j in range(int(rng.integers(1, 4))):
        a, b, c = F[int(rng.integers(len(F)))]
        kind = ("repeated_index", "point", "duplicate_vertex", "collinear")[int(rng.integers(4 if collinear else 3))]
        if kind == "repeated_index":
            face = [[a, a, b], [a, b, a], [b, a, a]][int(rng.integers(3))]
        elif kind == "point":
            face = [a, a, a]
        elif kind == "collinear":
            V = np.vstack([V, (V[a] + V[b]) / 2.0])
            face = [a, len(V) - 1, b]
        else:
            V = np.vstack([V, V[a]])
            face = [a, len(V) - 1, c]
        at = int(rng.integers(0, n0 // 2 + 1)) if j == 0 else int(rng.integers(0, len(F) + 1))
        F.insert(at, face)
        kinds.append(kind)
    return V, np.array(F, dtype=np.int64), tuple(sorted(set(kinds)))


# meshes that are not the boundary of a solid with winding number in {0,1} everywhere
NOT_SOLID = ("overlapping_shells",)
# meshes whose sliver triangles put closest_point's absolute tol.zero comparisons within
# the tolerance band at unit scale: rays only
RAYS_ONLY = ("thin_slab",)


# ------------------------------------------------------------------------------------------
# helpers


# keys that are already classed by their mechanism (embree origin advance: by the gap; direction
# length of the native engine: by the ray class): a zero-area face elsewhere in the mesh has no
# part in them
_ADVANCE_KEYS = ("gap=below_offset", "gap=tight", "sym=stuck_on_triangle", "class=origin_clip_dirlen_gt1",
                 "class=parallel_test_dirlen_lt1", "gap=coincident", "gap=beyond_20_hits", "gap=over_20_crossings",
                 "class=origin_beyond_float32", "class=crossing_behind_origin_within_abs_slack",
                 "gap=within_abs_forward_slack", "gap=merge_grid_int64_overflow",
                 "class=bounding_plane_face_pad_below_float_spacing", "gap=bounding_plane_face_pad_below_float_spacing",
                 "region=coincident_faces", "gap=restart_rehits_triangle_just_left")


class _DegenerateClassRun:
    """`run` for a mesh that contains zero-area faces: the input class goes into every key."""

    def __init__(self, run):
        self._run = run

    def __getattr__(self, name):
        return getattr(self._run, name)

    def violation(self, key, what, case=None):
        if not any(k in key for k in _ADVANCE_KEYS):
            key = key + " faces=degenerate"
        self._run.violation(key, what, case)


def _classed(run, mc):
    if mc.degen and not isinstance(run, _DegenerateClassRun):
        return _DegenerateClassRun(run)
    return run


def _exc_key(where, mc, e):
    return "%s sym=exception:%s scale=%s" % (where, type(e).__name__, mc.sl)


def _engines(run, mc, mesh):
    import trimesh.ray.ray_triangle as rt

    if mc.primed_engines:
        return mc.primed_engines
    out = [("native", rt.RayMeshIntersector(mesh))]
    try:
        import trimesh.ray.ray_pyembree as re_

        out.append(("embree", re_.RayMeshIntersector(mesh)))
    except BaseException as e:  # noqa
        run.skip("embree not importable: %s" % type(e).__name__)
    return out


def embree_offset(mesh_scale):
    """World-space distance the embree multi-hit loop advances the origin by (as implemented)."""
    return max(1e-4 * (100.0 / mesh_scale), 1e-8)


def gap_class(gap, offset):
    r = gap / offset
    if r <= 0.1:
        return "below_offset"
    if r >= 10.0:
        return "above_offset"
    return None


# ------------------------------------------------------------------------------------------
# rays


def make_rays(rng, mesh, S, n, T=None):
    if T is None:
        T = np.asarray(mesh.triangles, dtype=np.float64)
    """Returns O, D, oclass list, dclass list."""
    # (nothing here may touch `mesh`: in a history case the first access after the edit has to be
    #  the query under test)
    lo, hi = T.reshape(-1, 3).min(axis=0), T.reshape(-1, 3).max(axis=0)
    O = np.zeros((n, 3))
    D = np.zeros((n, 3))
    oc, dc = [], []
    tri = np.asarray(T, dtype=np.float64)
    w = rng.dirichlet((2.0, 2.0, 2.0))
    shared = (tri[int(rng.integers(len(tri)))] * w[:, None]).sum(axis=0)
    for i in range(n):
        target = lo + (0.02 + 0.96 * rng.random(3)) * (hi - lo)
        r = int(rng.integers(0, 12))
        along = None
        if r == 11:
            # straight at a face along its normal (an orthographic view of that face): on layered
            # parts such a ray passes every layer
            for _try in range(8):
                f = int(rng.integers(len(tri)))
                nrm = np.cross(tri[f, 1] - tri[f, 0], tri[f, 2] - tri[f, 0])
                if np.linalg.norm(nrm) > 1e-9 * S * S:
                    break
            else:
                nrm = np.array([0.0, 0.0, 1.0])
            along = (tri[f] * rng.dirichlet((2.0, 2.0, 2.0))[:, None]).sum(axis=0)
            d = -R.unit(R.unit(nrm) + rng.normal(size=3) * float(rng.choice([0.0, 0.01, 0.05])))
            if rng.random() < 0.3:
                d = -d
            dcl = "face_normal"
        elif r == 10:
            # a direction vector far shorter than 1 (difference of two nearby points, a velocity
            # in small units): the same ray as its unit direction
            if rng.random() < 0.35:
                d = np.zeros(3)
                d[int(rng.integers(3))] = 1.0 if rng.random() < 0.5 else -1.0
            else:
                d = R.unit(rng.normal(size=3))
            d = d * float(rng.choice([1e-3, 1e-7]))
            dcl = "short"
        elif r < 2:
            d = np.zeros(3)
            d[int(rng.integers(3))] = 1.0 if rng.random() < 0.5 else -1.0
            dcl = "axis"
        elif r < 5:
            d = R.unit(rng.normal(size=3))
            dcl = "oblique"
        elif r < 7:
            # nearly but not exactly axis aligned: the primary-axis clip of ray_bounds with
            # large transverse travel
            d = R.unit(rng.normal(size=3) * np.array([1.0, 0.15, 0.05])[rng.permutation(3)])
            dcl = "skew"
        elif r < 9:
            d = R.unit(rng.normal(size=3)) * float(rng.choice([0.25, 0.5, 2.0, 4.0]))
            dcl = "nonunit"
        else:
            # direction given as an un-normalised difference vector
            d = R.unit(rng.normal(size=3)) * float(rng.choice([50.0, 2000.0]))
            dcl = "long"
        du = R.unit(d)
        if along is not None:
            target = along
        u = int(rng.integers(0, 11))
        if u == 10:
            # the usual "origin = target - direction * 1e7" of a parallel light / an orthographic
            # camera: the origin is many mesh sizes away
            o, ocl = target - du * S * float(rng.choice([1e5, 1e7])), "very_far"
        elif along is not None and u < 8:
            o, ocl = target - du * S * (0.8 + rng.random()), "outside"
        elif u < 3:
            o, ocl = target, "inbox"
        elif u < 6:
            o, ocl = target - du * S * (0.8 + rng.random()), "outside"
        elif u < 8:
            o, ocl = target - du * S * 40.0, "far"
        elif u < 9:
            o, ocl = target + du * S * (0.8 + rng.random()), "behind"
        else:
            o = (lo + hi) / 2 + R.unit(rng.normal(size=3)) * S * (0.6 + 2 * rng.random())
            ocl = "random_outside"
        v = rng.random()
        if i and v < 0.04:
            # the same ray twice in one batch
            o, d, ocl, dcl = O[i - 1].copy(), D[i - 1].copy(), oc[-1], dc[-1] + "_repeated"
        elif v < 0.16:
            # several view points looking at ONE surface point: different rays of the batch report
            # the same location
            o = shared + R.unit(rng.normal(size=3)) * S * (0.5 + rng.random())
            d = shared - o
            if rng.random() < 0.5:
                d = R.unit(d)
            ocl, dcl = "viewpoint", "converging"
        O[i], D[i] = o, d
        oc.append(ocl)
        dc.append(dcl)
    return O, D, oc, dc


def ray_table(T, O, D, S):
    """
    rayref.ray_table for origins that may be millions of mesh sizes away: the oracle evaluates the
    SAME line from a point of it next to the mesh (the edge-moment sign test multiplies two
    vectors from the origin to the triangle, which loses the position of the line when the origin
    is 1e7 sizes away) and shifts the distances back.
    """
    O = np.asarray(O, dtype=np.float64)
    Du = R.unit(D)
    Vt = np.asarray(T, dtype=np.float64).reshape(-1, 3)
    c = (Vt.min(axis=0) + Vt.max(axis=0)) / 2.0
    s = ((c[None] - O) * Du).sum(axis=1)
    far = np.linalg.norm(O - c[None], axis=1) > 100.0 * S
    s = np.where(far, s, 0.0)
    tab = R.ray_table(T, O + Du * s[:, None], D)
    tab["t"] = tab["t"] + s[:, None]
    tab["far"] = np.linalg.norm(O - c[None], axis=1) / S
    return tab


def _group(iray, itri, loc=None):
    got = {}
    for k in range(len(iray)):
        got.setdefault(int(iray[k]), []).append((int(itri[k]), None if loc is None else loc[k]))
    return got


def check_rays(run, mc, mesh, T, O, D, oc=None, dc=None, engines=None, record=True):
    import trimesh.ray.ray_triangle as rt

    run = _classed(run, mc)
    S = mc.S
    m = len(O)
    oc = oc or ["replay"] * m
    dc = dc or ["replay"] * m
    tab = ray_table(T, O, D, S)
    Du = tab["D"]
    dlen = np.linalg.norm(D, axis=1)
    tolL = 1e-6 * S
    mesh_scale = float(np.linalg.norm(np.ptp(T.reshape(-1, 3), axis=0)))
    eoff = embree_offset(mesh_scale)
    mdict = mc.to_dict()
    Olist, Dlist = O.tolist(), D.tolist()
    lo, hi = T.reshape(-1, 3).min(axis=0), T.reshape(-1, 3).max(axis=0)

    def witness(i, engine, op, observed, expected):
        return {
            "check": "ray", "mesh": mdict, "engine": engine, "op": op,
            "origin": O[i].tolist(), "direction": D[i].tolist(), "ray": int(i),
            "origins": Olist, "directions": Dlist,
            "observed": observed, "expected": expected,
        }

    # does the ray's line cross the bounding box of the mesh (non-trivial case)?
    with np.errstate(divide="ignore", invalid="ignore"):
        t1 = (lo[None] - O) / Du
        t2 = (hi[None] - O) / Du
    tmin = np.nanmax(np.minimum(t1, t2), axis=1)
    tmax = np.nanmin(np.maximum(t1, t2), axis=1)
    crosses_box = tmax >= np.maximum(tmin, 0.0)

    engines = engines or _engines(run, mc, mesh)
    agree = {}
    for ename, eng in engines:
        delta = DELTA[ename]
        keep, hit = R.classify_rays(tab, S, delta)
        pre = "ray engine=%s" % ename
        # extreme sizes: the multi-hit loop of the embree engine advances the origin by 1e-2 /
        # mesh.scale world units (1e3 at extent 1e-5) resp. by the floor of 1e-8 (a 1e-20th of the
        # extent at 1e12): the findings (a) / (d) would only repeat themselves there.  embree is
        # asked for first / single / any hits, which do not advance.
        multi = not (mc.extreme and ename == "embree")

        def call(op, fn):
            try:
                return fn()
            except Exception as e:  # noqa
                run.violation(_exc_key("%s op=%s" % (pre, op), mc, e), "ray query raised %r" % (e,),
                              witness(0, ename, op, repr(e), "no exception") | {"origins": O.tolist(), "directions": D.tolist()})
                return None

        res_loc = call("location", lambda: eng.intersects_location(O.copy(), D.copy(), multiple_hits=True)) if multi else None
        res_id = call("id", lambda: eng.intersects_id(O.copy(), D.copy(), multiple_hits=True, return_locations=False)) if multi else None
        res_idl = call("id_locations", lambda: eng.intersects_id(O.copy(), D.copy(), multiple_hits=True, return_locations=True)) if multi else None
        if not multi:
            run.count("embree_multi_hit_not_asked_at_extreme_scale", m)
        res_single = call("id_single", lambda: eng.intersects_id(O.copy(), D.copy(), multiple_hits=False, return_locations=False))
        res_first = call("first", lambda: eng.intersects_first(O.copy(), D.copy()))
        res_any = call("any", lambda: eng.intersects_any(O.copy(), D.copy()))
        cand = None
        if ename == "native":
            res_c = call("candidates", lambda: rt.ray_triangle_candidates(O.copy(), D.copy(), mesh.triangles_tree))
            if res_c is not None:
                cand = {}
                for c, r in zip(res_c[0], res_c[1]):
                    cand.setdefault(int(r), set()).add(int(c))
                run.count("ray_candidates_returned", int(len(res_c[0])))
                run.count("ray_candidates_if_unpruned", int(m * len(T)))

        got_loc = got_id = got_single = None
        if res_loc is not None:
            loc, iray, itri = res_loc
            if not (len(loc) == len(iray) == len(itri)):
                run.violation("%s op=location sym=array_lengths_differ scale=%s" % (pre, mc.sl),
                              "locations / index_ray / index_tri have different lengths",
                              witness(0, ename, "location", [len(loc), len(iray), len(itri)], "equal") | {"origins": O.tolist(), "directions": D.tolist()})
                got_loc = None
            else:
                got_loc = _group(iray, itri, np.asarray(loc).reshape(-1, 3))
        if res_id is not None:
            got_id = _group(res_id[1], res_id[0])
        if res_single is not None:
            got_single = _group(res_single[1], res_single[0])
        if res_idl is not None and res_loc is not None:
            # intersects_location is documented as the same query with the outputs re-ordered
            a = sorted(zip(map(int, res_idl[1]), map(int, res_idl[0])))
            b = sorted(zip(map(int, res_loc[1]), map(int, res_loc[2])))
            run.count("ray_id_vs_location_compared")
            if a != b:
                run.violation("%s op=id_locations sym=differs_from_intersects_location scale=%s" % (pre, mc.sl),
                              "intersects_id(return_locations=True) and intersects_location report different (ray, triangle) pairs",
                              witness(0, ename, "id_locations", a[:20], b[:20]) | {"origins": O.tolist(), "directions": D.tolist()})

        for i in range(m):
            tag = "ray:%s:%s:%s:%s" % (ename, oc[i], dc[i], mc.cls())
            if not keep[i]:
                run.skip("ray not in general position (%s filter)" % ename)
                continue
            idx = np.nonzero(hit[i])[0]
            ts = tab["t"][i, idx]
            order = np.argsort(ts)
            idx, ts = idx[order], ts[order]
            exp = [int(x) for x in idx]
            expset = set(exp)
            if record:
                run.case(tag, T, O[i], D[i], nontrivial=bool(crosses_box[i]))
                run.count("rays_judged_%s" % ename)
                run.count("rays_%s_mesh_%s" % (ename, mc.tag))
                run.state("hits_per_ray", min(len(exp), 8))
                if len(exp):
                    run.count("rays_with_hits_%s" % ename)
            agree.setdefault(i, {})[ename] = None
            # ray_bounds clamps the ray PARAMETER (not the distance) to buffer_dist = 1e-5: with
            # |d| > 1 a crossing nearer than ~1e-5*|d| is outside the clipped box.  Class derived
            # from the documented constant with a 10x band: nearest crossing <= 1e-4*|d|.
            clip = ename == "native" and dlen[i] > 1.0 and len(ts) and ts[0] <= 10 * 1e-5 * dlen[i]
            if clip:
                run.count("rays_in_origin_clip_class")
            # planes_lines calls a ray parallel to a plane when |direction . normal| <= 1e-5 with the
            # direction AS GIVEN: with |d| < 1 a crossing at cos(angle) <= 1e-5/|d| is dropped.  Class
            # from that constant with a 10x band: some crossing ahead has |d|*|cos| <= 1e-4.
            par = bool(ename == "native" and dlen[i] < 1.0 and len(idx)
                       and dlen[i] * float(np.abs(tab["dn"][i, idx]).min()) <= 10 * 1e-5)
            if par:
                run.count("rays_in_short_direction_parallel_class")
            elif ename == "native" and dlen[i] < 1e-2 and len(idx):
                run.count("rays_short_direction_judged_strictly")

            # the forward test keeps plane hits up to 1e-6 BEHIND the origin, as an absolute
            # distance.  Class (10x band): a triangle pierced by the line within 1e-5 behind the
            # origin.  The general-position filter keeps pierced triangles 1e-3*extent away from the
            # origin, so the class is empty for extents >= 1e-2 and is the rule at extent 1e-5.
            tb = tab["t"][i][tab["pierce"][i]]
            slack = bool(ename == "native" and ((tb < 0) & (tb >= -10 * FORWARD_SLACK)).any())
            if slack:
                run.count("rays_in_abs_forward_slack_class")
            # the embree wrapper casts the origin to float32 in units of the mesh size / 100: the
            # position of an origin farther away than ~1e4 mesh sizes across the ray is rounded by
            # more than the general-position margin.  Generators: 40 sizes (strict) / 1e5, 1e7.
            far32 = bool(ename == "embree" and tab["far"][i] >= FAR_FLOAT32)
            if far32:
                run.count("rays_embree_origin_beyond_float32")
            elif tab["far"][i] >= FAR_FLOAT32:
                run.count("rays_native_origin_very_far_judged_strictly")
            # hits of one ray whose locations are closer than tol.merge are documented as ONE
            # location (intersects_location returns unique locations on a 1e-8 grid): with a 10x
            # band, a ray with two crossings 0 < gap < 1e-7 apart is not judged for its set of
            # located hits (only reachable at extent 1e-5).  gap == 0 is the class `coincident`.
            gaps_t = np.diff(ts) if len(ts) > 1 else np.zeros(0)
            merge_band = bool(((gaps_t > 1e-9 * S) & (gaps_t < 10 * TOL_MERGE)).any())
            hit_xyz = O[i][None] + Du[i][None] * ts[:, None]
            overflow = bool(ename == "native" and len(ts) > 1 and np.abs(hit_xyz).max() > INT64_GRID_LIMIT / 10.0)

            # ray_bounds pads the box of the clipped ray by 1e-5 (absolute).  Its ends are computed as
            # origin + t * direction: where floats are spaced wider than the pad, the end misses the
            # bounding plane it stands for by an ulp, and a face lying IN that plane (the ray's primary
            # axis) is not a candidate.  Class (10x band): such a face is crossed ahead and the spacing
            # of floats at the coordinates involved is above 1e-6.
            pad = False
            if ename == "native" and len(idx):
                ax = int(np.abs(Du[i]).argmax())
                tz = T[idx][:, :, ax]
                flat = (np.ptp(tz, axis=1) == 0) & ((tz[:, 0] == lo[ax]) | (tz[:, 0] == hi[ax]))
                mag = max(float(np.abs(O[i]).max()), float(np.abs(T).max()))
                pad = bool(flat.any() and mag * 2.3e-16 >= 0.1 * 1e-5)
                if pad:
                    run.count("rays_in_bounding_plane_pad_class")

            def viol(key, what, case, _slack=slack, _far32=far32, _pad=pad):
                if _far32 and not any(x in key for x in ("gap=below_offset", "sym=stuck_on_triangle", "gap=coincident",
                                                           "gap=beyond_20_hits", "gap=restart_rehits_triangle_just_left")):
                    # (crossings lost by the multi-hit loop keep their own classes)
                    key = "ray engine=embree class=origin_beyond_float32 sym=lost_or_wrong_hit scale=%s" % mc.sl
                    what = ("the origin is cast to float32 in mesh-scaled coordinates: from more than ~1e4 mesh sizes "
                            "away the ray hits a wrong triangle / misses")
                elif _slack:
                    key = "ray engine=native class=crossing_behind_origin_within_abs_slack sym=lost_or_wrong_hit scale=%s" % mc.sl
                    what = ("a crossing up to 1e-6 (absolute) BEHIND the origin is reported / taken as the first hit: "
                            "the slack of the forward test does not follow the size of the mesh")
                elif _pad:
                    key = "ray engine=native class=bounding_plane_face_pad_below_float_spacing sym=lost_or_wrong_hit scale=%s" % mc.sl
                    what = ("a face lying in a bounding plane of the mesh is pruned by the r-tree query: the 1e-5 pad of "
                            "ray_bounds is below the spacing of floats at these coordinates")
                # (the rays of the classes origin_clip_dirlen_gt1 / parallel_test_dirlen_lt1 - fixed by
                #  0b40093 / 4058b62 - are judged strictly again: they are only counted above)
                run.violation(key, what, case)

            def judge_set(op, got):
                """got: list of (tri, loc|None) reported for ray i."""
                tris = [g[0] for g in got]
                if len(tris) != len(set(tris)):
                    if ename == "embree":
                        # the advanced origin landed on the near side of the triangle just hit:
                        # the loop re-hits it until max_hits is used up and never goes on
                        viol("%s op=%s sym=stuck_on_triangle scale=%s" % (pre, op, mc.sl),
                             "the multi-hit loop reports the same triangle repeatedly and loses the crossings behind it",
                             witness(i, ename, op, tris, exp))
                        return
                    viol("%s op=%s sym=duplicate_hit scale=%s" % (pre, op, mc.sl),
                                  "a triangle is reported twice for one ray",
                                  witness(i, ename, op, tris, exp))
                gs = set(tris)
                located = op == "location"
                if located and ename == "native" and merge_band:
                    run.skip("two crossings of one ray closer than 10 x tol.merge: the set of unique locations is not judged")
                    return
                for tmiss in sorted(expset - gs):
                    k = exp.index(tmiss)
                    gcls = "first" if k == 0 else "na"
                    # the triangle is crossed at the very point where the ray crosses another one
                    # (coincident walls of two touching solids)
                    twin = bool((np.abs(ts - ts[k]) <= 1e-9 * S).sum() > 1)
                    if ename == "embree" and twin:
                        # (unless the crossing before the pair is closer than the advance distance
                        #  anyway: then it is the gap class of finding (a))
                        before = ts[ts < ts[k] - 1e-9 * S]
                        gcls = "coincident"
                        if len(before) and gap_class(float(ts[k] - before.max()), eoff) == "below_offset":
                            gcls = "below_offset"
                    elif ename == "embree" and k > 0:
                        gcls = gap_class(float(ts[k] - ts[k - 1]), eoff)
                        if gcls is None:
                            run.skip("embree missed hit with gap inside the 10x band around the advance offset: not judged")
                            continue
                        elif gcls == "above_offset" and len(tris) == EMBREE_MAX_HITS:
                            # the loop over the crossings ended because it had run max_hits times
                            # (exactly 20 reports for this ray)
                            gcls = "beyond_20_hits"
                        elif gcls == "above_offset" and any(e in gs for e in exp[:k]):
                            # finding (d) when the engine does not repeat the triangle it is stuck on:
                            # ask the engine itself for the first hit from where the loop restarts
                            # after the last crossing it did report - if that is the triangle just
                            # left, the advance was lost in float32 and the loop could not go on
                            j = max(q for q in range(k) if exp[q] in gs)
                            try:
                                again = int(eng.intersects_first((O[i] + Du[i] * (ts[j] + eoff))[None], Du[i][None])[0])
                            except Exception:  # noqa
                                again = -2
                            if again == exp[j]:
                                gcls = "restart_rehits_triangle_just_left"
                    elif ename == "embree":
                        gcls = "first"
                    elif twin and located:
                        gcls = "coincident"
                    elif overflow and located:
                        # all coordinates beyond 9.2e10 round to the same int64 on the 1e-8 grid
                        gcls = "merge_grid_int64_overflow"
                    viol("%s op=%s sym=missed_hit scale=%s gap=%s" % (pre, op, mc.sl, gcls),
                                  "a triangle crossed through its interior ahead of the origin is not reported",
                                  witness(i, ename, op, sorted(gs), exp) | {"t_expected": ts.tolist()})
                for textra in sorted(gs - expset):
                    viol("%s op=%s sym=spurious_hit scale=%s" % (pre, op, mc.sl),
                                  "a triangle the ray does not cross ahead of its origin is reported",
                                  witness(i, ename, op, sorted(gs), exp) | {"t_of_reported": float(tab["t"][i, textra])})

            if got_loc is not None:
                g = got_loc.get(i, [])
                judge_set("location", g)
                agree[i][ename] = frozenset(x[0] for x in g)
                for tri, p in g:
                    if not (0 <= tri < len(T)):
                        viol("%s op=location sym=triangle_index_out_of_range scale=%s" % (pre, mc.sl),
                                      "reported triangle index out of range", witness(i, ename, "location", tri, exp))
                        continue
                    v = p - O[i]
                    along = float(v @ Du[i])
                    perp = float(np.linalg.norm(v - along * Du[i]))
                    dtri = float(R.point_triangle_distance(T[tri][None], p[None])[0])
                    run.count("hit_points_checked")
                    if perp > tolL:
                        viol("%s op=location sym=hit_off_ray scale=%s" % (pre, mc.sl),
                                      "a reported location does not lie on the ray it is attributed to",
                                      witness(i, ename, "location", {"point": p.tolist(), "off": perp, "tri": tri}, exp))
                    if along < -tolL:
                        viol("%s op=location sym=hit_behind_origin scale=%s" % (pre, mc.sl),
                                      "a reported location lies behind the ray origin",
                                      witness(i, ename, "location", {"point": p.tolist(), "t": along, "tri": tri}, exp))
                    if dtri > tolL:
                        viol("%s op=location sym=hit_off_triangle scale=%s" % (pre, mc.sl),
                                      "a reported location does not lie on the reported triangle",
                                      witness(i, ename, "location", {"point": p.tolist(), "dist": dtri, "tri": tri}, exp))
            if got_id is not None:
                judge_set("id", got_id.get(i, []))

            # nearest hit
            unambiguous = len(ts) < 2 or (ts[1] - ts[0]) >= 1e-6 * S
            nearest = exp[0] if exp else -1
            if not unambiguous:
                run.skip("two nearest hits closer than 1e-6*scale: first-hit not judged")
            else:
                if res_first is not None:
                    run.count("first_checked_%s" % ename)
                    f = int(res_first[i]) if len(res_first) == m else None
                    if f != nearest:
                        sym = "missed" if f == -1 else ("spurious" if nearest == -1 else ("not_nearest" if f in expset else "wrong_triangle"))
                        viol("%s op=first sym=%s scale=%s" % (pre, sym, mc.sl),
                                      "intersects_first does not return the nearest triangle crossed",
                                      witness(i, ename, "first", f, nearest) | {"all_expected": exp, "t_expected": ts.tolist()})
                if got_single is not None:
                    g = [x[0] for x in got_single.get(i, [])]
                    want = [nearest] if nearest >= 0 else []
                    if g != want:
                        sym = "missed" if not g else ("spurious" if not want else ("several" if len(g) > 1 else ("not_nearest" if g[0] in expset else "wrong_triangle")))
                        viol("%s op=id_single sym=%s scale=%s" % (pre, sym, mc.sl),
                                      "intersects_id(multiple_hits=False) does not return exactly the nearest hit",
                                      witness(i, ename, "id_single", g, want) | {"all_expected": exp, "t_expected": ts.tolist()})
            if res_any is not None:
                a = bool(res_any[i]) if len(res_any) == m else None
                if a != bool(exp):
                    viol("%s op=any sym=%s scale=%s" % (pre, "false_negative" if exp else "false_positive", mc.sl),
                                  "intersects_any disagrees with the exhaustive test",
                                  witness(i, ename, "any", a, bool(exp)) | {"all_expected": exp})
            if cand is not None:
                c = cand.get(i, set())
                run.state("ray_candidate_fraction_decile", int(10 * len(c) / max(1, len(T))))
                if not expset <= c:
                    viol("ray_triangle_candidates sym=true_hit_pruned scale=%s" % mc.sl,
                                  "the r-tree broad phase drops a triangle the ray crosses",
                                  witness(i, "native", "candidates", sorted(c), exp))

    both = [v for v in agree.values() if len(v) == 2 and None not in v.values()]
    run.count("rays_judged_on_both_engines", len(both))
    run.count("rays_both_engines_same_triangles", sum(1 for v in both if v["native"] == v["embree"]))


# ------------------------------------------------------------------------------------------
# containment


def line_gaps(T, P, direction, S, delta):
    """
    For the line through each point along +-direction: general position flag, the smallest
    distance between consecutive crossings (the point itself counts as a crossing position), and
    the classes of the line that the known mechanisms are keyed by (see line_class).
    """
    tab = R.ray_table(T, P, np.tile(direction, (len(P), 1)))
    ok = (tab["edge"] >= delta * S).all(axis=1)
    ok &= ~((tab["pierce"]) & (np.abs(tab["dn"]) < 1e-3)).any(axis=1)
    n = len(P)
    gaps = np.full(n, np.inf)
    info = {"gap_distinct": np.full(n, np.inf), "coincident": np.zeros(n, bool), "most_one_way": np.zeros(n, int),
            "merge_band": np.zeros(n, bool), "within_slack": np.zeros(n, bool), "overflow": np.zeros(n, bool),
            "pad": np.zeros(n, bool)}
    du = R.unit(direction)
    # faces lying in a bounding plane of the mesh across the primary axis of the test direction
    ax = int(np.abs(du).argmax())
    Vt = T.reshape(-1, 3)
    tz = T[:, :, ax]
    in_plane = (np.ptp(tz, axis=1) == 0) & ((tz[:, 0] == Vt[:, ax].min()) | (tz[:, 0] == Vt[:, ax].max()))
    wide_spacing = max(float(np.abs(P).max()), float(np.abs(T).max())) * 2.3e-16 >= 0.1 * 1e-5
    for i in range(n):
        info["pad"][i] = bool(wide_spacing and (tab["pierce"][i] & in_plane).any())
        tc = np.sort(tab["t"][i][tab["pierce"][i]])
        ts = np.sort(np.concatenate([tc, [0.0]]))
        if len(ts) > 1:
            dd = np.diff(ts)
            gaps[i] = float(dd.min())
            dc = np.diff(tc)
            same = dc <= 1e-9 * S
            info["coincident"][i] = bool(same.any())
            # smallest gap between two DIFFERENT positions (the point included)
            ddd = dd[dd > 1e-9 * S]
            if len(ddd):
                info["gap_distinct"][i] = float(ddd.min())
            info["merge_band"][i] = bool(((dc > 1e-9 * S) & (dc < 10 * TOL_MERGE)).any())
            info["most_one_way"][i] = int(max((tc > 0).sum(), (tc < 0).sum()))
            info["within_slack"][i] = bool((np.abs(tc) <= 10 * FORWARD_SLACK).any())
            xyz = P[i][None] + du[None] * tc[:, None]
            info["overflow"][i] = bool(max((tc > 0).sum(), (tc < 0).sum()) > 1 and np.abs(xyz).max() > INT64_GRID_LIMIT / 10.0)
    return ok, gaps, info


def line_class(run, info, gaps, i, ename, eoff):
    """
    Class of the containment test line of point i in the key (`gap=`), None: not judged.

    embree  tight              two different crossing positions (or the point and a crossing) closer
                               than 10 x the advance distance of the multi-hit loop (finding (a))
            coincident         two triangles crossed at one point, the other gaps clear
            over_20_crossings  more than max_hits = 20 crossings in one of the two directions
            clear              none of these
    native  within_abs_forward_slack   a crossing within 10 x 1e-6 (absolute) of the point
            bounding_plane_face_pad_below_float_spacing  the line crosses a face lying in a bounding
                               plane of the mesh where floats are spaced wider than a tenth of ray_bounds' pad
            merge_grid_int64_overflow  two crossings in one direction whose coordinates exceed 9.2e9
            coincident / na
    """
    if ename == "embree":
        if gap_class(float(info["gap_distinct"][i]), eoff) != "above_offset":
            return "tight"
        if info["coincident"][i]:
            return "coincident"
        if info["most_one_way"][i] > EMBREE_MAX_HITS:
            return "over_20_crossings"
        return "clear"
    if info["within_slack"][i]:
        return "within_abs_forward_slack"
    if info["merge_band"][i]:
        run.skip("containment test line with two crossings closer than 10 x tol.merge (one location by the documented grid): not judged")
        return None
    if info["pad"][i]:
        return "bounding_plane_face_pad_below_float_spacing"
    if info["overflow"][i]:
        return "merge_grid_int64_overflow"
    if info["coincident"][i]:
        return "coincident"
    return "na"


def make_points(rng, mesh, T, S, n):
    lo, hi = T.reshape(-1, 3).min(axis=0), T.reshape(-1, 3).max(axis=0)
    c = (lo + hi) / 2
    P = np.zeros((n, 3))
    pc = []
    with np.errstate(divide="ignore", invalid="ignore"):
        Nn, L2 = R.tri_normals(T)
    # faces with a normal (a zero-area face has no "above" and "below")
    proper = np.nonzero(L2 > 1e-9 * S * S)[0]
    for i in range(n):
        r = int(rng.integers(0, 14))
        if r >= 12:
            # half way between two consecutive crossings of a line through the mesh (inside a thin
            # wall / layer, in a gap): lines along the containment test directions, along a face
            # normal, and random ones
            k = int(rng.integers(4))
            if k == 0 and len(proper):
                dline = Nn[int(proper[int(rng.integers(len(proper)))])]
            else:
                dline = (DEFAULT_DIR, XDIR, R.unit(rng.normal(size=3)))[k - 1 if k else 2]
            through = lo + (0.1 + 0.8 * rng.random(3)) * (hi - lo)
            tab = R.ray_table(T, through[None], dline[None])
            tc = np.sort(tab["t"][0][tab["pierce"][0]])
            if len(tc) >= 2:
                j = int(rng.integers(len(tc) - 1))
                P[i] = through + R.unit(dline) * (tc[j] + tc[j + 1]) / 2.0
                pc.append("between_crossings")
                continue
            r = 0
        if r < 4:
            P[i] = c + (rng.random(3) - 0.5) * (hi - lo) * float(rng.choice([1.0, 1.3, 2.5]))
            pc.append("random")
        elif r < 6:
            f = int(rng.integers(len(T)))
            v = T[f, int(rng.integers(3))]
            P[i] = v + R.unit(rng.normal(size=3)) * S * float(rng.choice([0.004, 0.03, 0.2]))
            pc.append("near_vertex")
        elif r < 8:
            f = int(rng.integers(len(T)))
            k = int(rng.integers(3))
            a, b = T[f, k], T[f, (k + 1) % 3]
            s = 0.1 + 0.8 * rng.random()
            P[i] = a + s * (b - a) + R.unit(rng.normal(size=3)) * S * float(rng.choice([0.004, 0.03, 0.2]))
            pc.append("near_edge")
        elif r < 11:
            f = int(proper[int(rng.integers(len(proper)))])
            w = rng.dirichlet([1.5, 1.5, 1.5])
            sign = 1.0 if rng.random() < 0.5 else -1.0
            P[i] = w @ T[f] + sign * Nn[f] * S * float(rng.choice([0.003, 0.02, 0.15]))
            pc.append("near_face")
        else:
            P[i] = c + R.unit(rng.normal(size=3)) * S * 25.0
            pc.append("far")
    return P, pc


def check_contains(run, mc, mesh, T, P, pc=None, engines=None, record=True):
    from trimesh.ray import ray_util

    run = _classed(run, mc)
    S = mc.S
    n = len(P)
    pc = pc or ["replay"] * n
    d, _cl, _reg = R.closest_on_triangles(T, P)
    dmin = d.min(axis=1)
    wn = R.winding_number(T, P)
    wni = np.rint(wn)
    integer = np.abs(wn - wni) < 1e-6
    solid = integer & np.isin(wni, (0.0, 1.0))
    inside = wni == 1.0
    mesh_scale = float(np.linalg.norm(np.ptp(T.reshape(-1, 3), axis=0)))
    eoff = embree_offset(mesh_scale)
    mdict = mc.to_dict()
    engines = engines or _engines(run, mc, mesh)
    if mc.extreme:
        # (containment on the embree engine counts crossings with the multi-hit loop: see check_rays)
        engines = [e for e in engines if e[0] != "embree"]
    routes = [(ename, ename, eng.contains_points, None) for ename, eng in engines]
    default_engine = "embree" if type(mesh.ray).__module__.endswith("ray_pyembree") else "native"
    routes.append(("mesh.contains", default_engine, mesh.contains, None))
    # explicit direction: no retry branch, the direction is an input
    xdir = XDIR
    for ename, eng in engines:
        routes.append((ename + ":direction", ename, (lambda pts, e=eng: ray_util.contains_points(e, pts, check_direction=xdir)), xdir))

    for route, ename, fn, direction in routes:
        delta = DELTA[ename]
        margin = 10 * delta * S
        ok_line, gaps, info = line_gaps(T, P, DEFAULT_DIR if direction is None else direction, S, delta)
        try:
            got = np.asarray(fn(P.copy()))
        except Exception as e:  # noqa
            run.violation(_exc_key("contains route=%s" % route, mc, e), "containment query raised %r" % (e,),
                          {"check": "contains", "mesh": mdict, "points": P.tolist(), "route": route})
            continue
        if got.shape != (n,):
            run.violation("contains route=%s sym=wrong_shape scale=%s" % (route, mc.sl), "result shape is not (n,)",
                          {"check": "contains", "mesh": mdict, "points": P.tolist(), "route": route})
            continue
        for i in range(n):
            if dmin[i] < margin:
                run.skip("containment point closer than the margin to the surface")
                continue
            if not solid[i]:
                run.skip("winding number not in {0,1}: containment not judged")
                continue
            if not ok_line[i]:
                run.skip("containment test line not in general position")
                continue
            gcls = line_class(run, info, gaps, i, ename, eoff)
            if gcls is None:
                continue
            if record:
                run.state("containment_line_class", (ename, gcls))
                run.case("contains:%s:%s:%s:%s" % (route, pc[i], "in" if inside[i] else "out", mc.cls()), T, P[i])
                run.count("contains_judged_%s" % route)
                run.state("winding_number", int(wni[i]))
            if bool(got[i]) != bool(inside[i]):
                run.violation("contains route=%s sym=disagrees_with_winding_number scale=%s gap=%s" % (route, mc.sl, gcls),
                              "point containment disagrees with the winding number",
                              {"check": "contains", "mesh": mdict, "points": [P[i].tolist()], "route": route,
                               "observed": bool(got[i]), "expected": bool(inside[i]), "winding": float(wn[i]),
                               "distance_to_surface": float(dmin[i])})


# ------------------------------------------------------------------------------------------
# proximity


def check_proximity(run, mc, mesh, T, P, pc=None, record=True, judge_sign=True):
    from trimesh import proximity
    from trimesh import triangles as tri_mod

    run = _classed(run, mc)
    S = mc.S
    n = len(P)
    pc = pc or ["replay"] * n
    tol = 1e-7 * S
    d, cl, reg = R.closest_on_triangles(T, P)
    dmin = d.min(axis=1)
    arg = d.argmin(axis=1)
    mdict = mc.to_dict()
    # proximity.closest_point treats two candidate triangles whose SQUARED distances differ by
    # less than tol.merge = 1e-8 as "the same closest point" and then picks by face normal.
    # Keep a 10x band around that documented constant: a point is judged for the r-tree based
    # queries only if every other triangle is either an exact tie (<= 1e-9*S in distance) or
    # clearly farther (>= 1e-7 in squared distance).
    d2gap = d * d - (dmin * dmin)[:, None]
    # (after fix c1521bb the constant is relative to the squared distance: the band follows it,
    # so small meshes are judged as strictly as unit-sized ones)
    near_tie = ((d - dmin[:, None]) > 1e-9 * S) & (d2gap < 1e-7 * np.maximum(d * d, 1e-300))
    ambiguous = near_tie.any(axis=1)
    Vf = T.reshape(-1, 3)
    mesh_scale = float(np.linalg.norm(np.ptp(Vf, axis=0)))
    eoff = embree_offset(mesh_scale)

    def wit(i, fn, observed, expected):
        return {"check": "proximity", "fn": fn, "mesh": mdict, "points": [P[i].tolist()],
                "observed": observed, "expected": expected}

    def wit_all(fn, e):
        return {"check": "proximity", "fn": fn, "mesh": mdict, "points": P.tolist(), "observed": repr(e)}

    if record:
        for i in range(n):
            run.case("prox:%s:%s" % (pc[i], mc.cls()), T, P[i])
            run.state("closest_region", R.REGIONS[int(reg[i, arg[i]])])
            run.state("closest_tie", int(min(3, (d[i] <= dmin[i] + tol).sum())))

    def judge_closest(fn, res, sel, tie_logic=True):
        try:
            cp, dist, tid = (np.asarray(x) for x in res)
        except Exception as e:  # noqa
            run.violation("proximity fn=%s sym=malformed_result scale=%s" % (fn, mc.sl), "result is not (points, distances, ids)", wit_all(fn, e))
            return
        if cp.shape != (len(sel), 3) or dist.shape != (len(sel),) or tid.shape != (len(sel),):
            run.violation("proximity fn=%s sym=wrong_shape scale=%s" % (fn, mc.sl), "result shapes wrong", wit_all(fn, "shapes"))
            return
        for k, i in enumerate(sel):
            if tie_logic and ambiguous[i]:
                run.skip("two triangles' squared distances inside the 10x band around tol.merge: tie resolution not judged")
                continue
            run.count("closest_checked_%s" % fn)
            if not (0 <= tid[k] < len(T)):
                run.violation("proximity fn=%s sym=triangle_index_out_of_range scale=%s" % (fn, mc.sl), "triangle id out of range", wit(i, fn, int(tid[k]), int(arg[i])))
                continue
            if not (np.isfinite(dist[k]) and np.isfinite(cp[k]).all()):
                run.violation("proximity fn=%s sym=not_finite scale=%s" % (fn, mc.sl),
                              "closest point / distance is nan or inf",
                              wit(i, fn, {"point": cp[k].tolist(), "distance": float(dist[k]), "tid": int(tid[k])}, float(dmin[i])))
                continue
            if abs(dist[k] - dmin[i]) > tol:
                sym = "distance_too_large" if dist[k] > dmin[i] else "distance_too_small"
                run.violation("proximity fn=%s sym=%s scale=%s" % (fn, sym, mc.sl),
                              "reported distance is not the minimum over all triangles",
                              wit(i, fn, float(dist[k]), float(dmin[i])) | {"region": R.REGIONS[int(reg[i, arg[i]])]})
            if d[i, tid[k]] > dmin[i] + tol:
                run.violation("proximity fn=%s sym=triangle_not_attaining_minimum scale=%s" % (fn, mc.sl),
                              "the reported triangle is not one on which the minimum distance is attained",
                              wit(i, fn, {"tid": int(tid[k]), "its_distance": float(d[i, tid[k]])}, {"tid": int(arg[i]), "distance": float(dmin[i])}))
            off = float(R.point_triangle_distance(T[tid[k]][None], cp[k][None])[0])
            if off > tol:
                run.violation("proximity fn=%s sym=point_off_reported_triangle scale=%s" % (fn, mc.sl),
                              "the reported closest point does not lie on the reported triangle",
                              wit(i, fn, {"point": cp[k].tolist(), "off": off}, "on triangle %d" % int(tid[k])))
            if abs(float(np.linalg.norm(cp[k] - P[i])) - dist[k]) > tol:
                run.violation("proximity fn=%s sym=distance_differs_from_point scale=%s" % (fn, mc.sl),
                              "reported distance is not the distance to the reported closest point",
                              wit(i, fn, {"point": cp[k].tolist(), "distance": float(dist[k])}, float(np.linalg.norm(cp[k] - P[i]))))

    allsel = list(range(n))
    routes = [
        ("on_surface", lambda q: mesh.nearest.on_surface(q), allsel),
        ("closest_point", lambda q: proximity.closest_point(mesh, q), allsel[: max(1, n // 4)]),
        ("closest_point_naive", lambda q: proximity.closest_point_naive(mesh, q), allsel[: max(1, min(n, 30))]),
    ]
    first = (mc.edit or {}).get("first", "")
    # history case: the function named by `first` is the first thing to touch the edited mesh;
    # its answer is kept and judged further down where that function is judged
    pre = {}
    if first == "proximity:nearby_faces" or (first == "proximity:signed_distance" and judge_sign):
        try:
            pre[first] = (mesh.nearest.signed_distance(P.copy()) if first.endswith("signed_distance")
                          else proximity.nearby_faces(mesh, P.copy()))
        except Exception as e:  # noqa
            pre[first] = e
    if first.startswith("proximity:"):
        # history case: this function is the first thing to touch the edited mesh
        routes.sort(key=lambda r: r[0] != first.split(":", 1)[1])
        if first == "proximity:closest_point":
            routes[0] = (routes[0][0], routes[0][1], allsel)
    for fn, f, sel in routes:
        try:
            res = f(P[sel].copy())
        except Exception as e:  # noqa
            run.violation(_exc_key("proximity fn=%s" % fn, mc, e), "proximity query raised %r" % (e,), wit_all(fn, e))
            continue
        judge_closest(fn, res, sel, tie_logic=fn != "closest_point_naive")

    # candidate faces: the documented guarantee is that the closest face is among them
    try:
        cands = pre.get("proximity:nearby_faces")
        if isinstance(cands, Exception):
            raise cands
        if cands is None:
            cands = proximity.nearby_faces(mesh, P.copy())
        for i in range(n):
            c = list(cands[i])
            run.count("proximity_candidates_returned", len(c))
            run.count("proximity_candidates_if_unpruned", len(T))
            run.state("proximity_candidate_fraction_decile", int(10 * len(c) / max(1, len(T))))
            if not len(c) or d[i, c].min() > dmin[i] + tol:
                run.violation("proximity fn=nearby_faces sym=closest_face_pruned scale=%s" % mc.sl,
                              "no candidate face attains the minimum distance",
                              wit(i, "nearby_faces", sorted(map(int, c)), {"tid": int(arg[i]), "distance": float(dmin[i])}))
    except Exception as e:  # noqa
        run.violation(_exc_key("proximity fn=nearby_faces", mc, e), "nearby_faces raised %r" % (e,), wit_all("nearby_faces", e))

    # nearest vertex
    try:
        vd, vi = mesh.nearest.vertex(P.copy())
        vd, vi = np.asarray(vd), np.asarray(vi)
        V = np.asarray(mesh.vertices)
        dv = np.linalg.norm(P[:, None] - V[None], axis=2)
        for i in range(n):
            run.count("vertex_checked")
            if abs(vd[i] - dv[i].min()) > 1e-9 * (S + abs(mc.off)):
                run.violation("proximity fn=vertex sym=distance_not_minimum scale=%s" % mc.sl, "nearest-vertex distance is not the minimum",
                              wit(i, "vertex", float(vd[i]), float(dv[i].min())))
            elif not (0 <= vi[i] < len(V)) or dv[i, vi[i]] > dv[i].min() + 1e-9 * (S + abs(mc.off)):
                run.violation("proximity fn=vertex sym=vertex_not_attaining_minimum scale=%s" % mc.sl, "reported vertex is not a nearest one",
                              wit(i, "vertex", int(vi[i]), int(dv[i].argmin())))
    except Exception as e:  # noqa
        run.violation(_exc_key("proximity fn=vertex", mc, e), "nearest.vertex raised %r" % (e,), wit_all("vertex", e))

    # signed distance
    if judge_sign:
        try:
            sd = pre.get("proximity:signed_distance")
            if isinstance(sd, Exception):
                raise sd
            sd = np.asarray(mesh.nearest.signed_distance(P.copy()) if sd is None else sd)
        except Exception as e:  # noqa
            run.violation(_exc_key("proximity fn=signed_distance", mc, e), "signed_distance raised %r" % (e,), wit_all("signed_distance", e))
            sd = None
        if sd is not None:
            wn = R.winding_number(T, P)
            wni = np.rint(wn)
            solid = (np.abs(wn - wni) < 1e-6) & np.isin(wni, (0.0, 1.0))
            default_engine = "embree" if type(mesh.ray).__module__.endswith("ray_pyembree") else "native"
            delta = DELTA[default_engine]
            ok_line, gaps, info = line_gaps(T, P, DEFAULT_DIR, S, delta)
            for i in range(n):
                if ambiguous[i]:
                    continue
                run.count("signed_distance_checked")
                if not np.isfinite(sd[i]):
                    run.violation("proximity fn=signed_distance sym=not_finite scale=%s" % mc.sl,
                                  "signed distance is nan or inf", wit(i, "signed_distance", float(sd[i]), float(dmin[i])))
                    continue
                if sd[i] == 0.0 and dmin[i] > 10 * 1e-8 and dmin[i] > tol:
                    # (tol.merge = 1e-8: the documented "on the surface" band)
                    run.violation("proximity fn=signed_distance sym=zero_off_surface scale=%s" % mc.sl,
                                  "signed distance is exactly 0 for a point that is not on the surface",
                                  wit(i, "signed_distance", float(sd[i]), float(dmin[i])))
                    continue
                if abs(abs(sd[i]) - dmin[i]) > tol:
                    run.violation("proximity fn=signed_distance sym=magnitude scale=%s" % mc.sl,
                                  "|signed distance| is not the minimum distance over all triangles",
                                  wit(i, "signed_distance", float(sd[i]), float(dmin[i])))
                # (documented: "points within tol.merge of the surface will have POSITIVE distance";
                #  10 x that band is wider than the margin only at extent 1e-5)
                if dmin[i] < max(10 * delta * S, 10 * TOL_MERGE) or not solid[i]:
                    run.skip("signed distance sign not judged (near surface or winding number not in {0,1})")
                    continue
                region = "face" if int(reg[i, arg[i]]) == 6 and (d[i] <= dmin[i] + 1e-4 * S).sum() == 1 else "edge_or_vertex"
                att = d[i] <= dmin[i] + 1e-9 * S
                back_to_back = False
                if att.sum() > 1 and not (reg[i][att] == 6).any():
                    with np.errstate(divide="ignore", invalid="ignore"):
                        na = R.tri_normals(T[att])[0]
                    back_to_back = bool(np.nanmin(na @ na.T) < -0.999)
                if att.sum() > 1 and ((reg[i][att] == 6).any() or back_to_back):
                    # the closest point lies in the interior of one triangle AND on another one: walls
                    # of two solids that touch (the tie goes to the face whose normal looks at the point)
                    region = "coincident_faces"
                if region == "edge_or_vertex" and not ok_line[i]:
                    run.skip("signed distance test line not in general position")
                    continue
                if region in ("face", "coincident_faces"):
                    gcls = "na"  # sign comes from the face normal, no ray involved
                else:
                    gcls = line_class(run, info, gaps, i, default_engine, eoff)
                    if gcls is None:
                        continue
                run.state("signed_distance_class", (region, "in" if wni[i] == 1 else "out"))
                want_positive = wni[i] == 1.0
                if (sd[i] > 0) != want_positive:
                    run.violation("proximity fn=signed_distance sym=wrong_sign region=%s scale=%s gap=%s" % (region, mc.sl, gcls),
                                  "sign of the signed distance contradicts the documented convention (inside positive, outside negative)",
                                  wit(i, "signed_distance", float(sd[i]), ("+" if want_positive else "-") + repr(float(dmin[i]))) | {"winding": float(wn[i])})

    # triangles.closest_point row-wise: pair every point with several triangles
    k = min(len(T), 6)
    cols = np.stack([arg] + [(arg + 1 + j * 7) % len(T) for j in range(k - 1)], axis=1)  # (n,k)
    TT = T[cols.reshape(-1)]
    PP = np.repeat(P, k, axis=0)
    try:
        q = np.asarray(tri_mod.closest_point(TT.copy(), PP.copy()))
    except Exception as e:  # noqa
        run.violation(_exc_key("triangles.closest_point", mc, e), "triangles.closest_point raised %r" % (e,), wit_all("triangles.closest_point", e))
        return
    want_q, want_d, want_r = R.closest_pairs(TT, PP)
    got_d = np.linalg.norm(q - PP, axis=1)
    off = R.point_triangle_distance(TT, q)
    flat = zero_area_faces(TT)
    for j in range(len(PP)):
        if flat[j]:
            # the statement is about queries on a mesh: what the row-wise helper returns for a
            # zero-area triangle is judged through closest_point / closest_point_naive / on_surface
            run.skip("row-wise triangles.closest_point on a zero-area triangle: judged through the mesh queries only")
            continue
        run.count("triangle_pairs_checked")
        run.state("pair_region", R.REGIONS[int(want_r[j])])
        w = {"check": "pair", "mesh": mdict, "triangle": TT[j].tolist(), "point": PP[j].tolist(),
             "observed": q[j].tolist(), "expected": want_q[j].tolist(), "region": R.REGIONS[int(want_r[j])]}
        if record:
            run.case("pair:%s:%s" % (R.REGIONS[int(want_r[j])], mc.cls()), TT[j], PP[j])
        if not np.isfinite(q[j]).all():
            run.violation("triangles.closest_point sym=not_finite scale=%s" % mc.sl,
                          "returned point is nan or inf", w)
        elif got_d[j] > want_d[j] + tol:
            run.violation("triangles.closest_point sym=not_closest scale=%s" % mc.sl,
                          "returned point is farther from the query than the closest point of the triangle", w)
        elif off[j] > tol:
            run.violation("triangles.closest_point sym=off_triangle scale=%s" % mc.sl,
                          "returned point does not lie on the triangle", w)


# ------------------------------------------------------------------------------------------


def run_mesh_case(run, mc, n_rays, n_pts, history=None, degenerate=None):
    rng = run.rng
    if history is None:
        history = rng.random() < 0.4
    try:
        mesh, T = mc.build()
    except Exception as e:  # noqa
        run.inconclusive("could not build mesh %s: %r" % (mc.tag, e))
        return
    if mc.S == 1e-5 and not usable_at_extreme_scale(T):
        run.skip("mesh of extent 1e-5 with a triangle within 10x of the documented zero-area threshold: not judged")
        return
    if mc.extreme:
        history, degenerate = False, False
    if mc.degen and noise_normal_faces(T).any():
        run.skip("mesh with a zero-area face whose cross product is rounding noise near util.TOL_ZERO (normal documented as arbitrary): not judged")
        return
    run.count("mesh_cases")
    run.state("mesh_class", (mc.tag, mc.sl, olabel(mc.off), mc.rot is not None))
    engines = _engines(run, mc, mesh)
    first = (mc.edit or {}).get("first", "rays")

    def rays():
        O, D, oc, dc = make_rays(rng, mesh, mc.S, n_rays, T)
        check_rays(run, mc, mesh, T, O, D, oc, dc, engines=engines)

    def points():
        if mc.tag in RAYS_ONLY:
            return
        P, pc = make_points(rng, mesh, T, mc.S, n_pts)

        def contains():
            if mc.tag not in NOT_SOLID:
                check_contains(run, mc, mesh, T, P, pc, engines=engines)

        def prox():
            check_proximity(run, mc, mesh, T, P, pc, judge_sign=mc.tag not in NOT_SOLID)

        for step in ((prox, contains) if first.startswith("proximity") else (contains, prox)):
            step()

    for step in ((rays, points) if first == "rays" else (points, rays)):
        step()
    if mc.edit is None and history:
        mh = MeshCase(mc.tag, mc.V, mc.F, mc.S, mc.off, mc.rot, edit=random_edit(rng), degen=mc.degen)
        run.count("edited_mesh_histories")
        run.state("edit_history", (mh.edit["kind"], mh.edit["amount"], mh.edit["first"]))
        run_mesh_case(run, mh, max(20, n_rays // 2), max(16, n_pts // 2), history=False)
    if mc.edit is None and not mc.degen and (degenerate if degenerate is not None else rng.random() < 0.3):
        # the same surface with zero-area faces inside the face list: every answer must be the
        # one of the surface, with the face numbering of THIS face list
        for collinear in (True, False):
            V2, F2, kinds = with_degenerate_faces(rng, mc.V, mc.F, collinear=collinear)
            md = MeshCase(mc.tag, V2, F2, mc.S, mc.off, mc.rot, degen=kinds)
            if not noise_normal_faces(md.vertices()[md.F]).any():
                break
            # (collinear up to rounding only: at extent 1e2 or 1e3 from the origin the cross
            #  product of such a face is noise of the size of the library's zero threshold)
        run.count("meshes_with_degenerate_faces")
        run.state("degenerate_face_kinds", kinds)
        run_mesh_case(run, md, max(30, n_rays // 2), max(16, n_pts // 2), history=rng.random() < 0.25)


def rotation_to(v):
    """A rotation that takes the z axis to the direction v."""
    v = R.unit(v)
    a = np.cross(v, [1.0, 0.0, 0.0] if abs(v[0]) < 0.9 else [0.0, 1.0, 0.0])
    a = R.unit(a)
    b = np.cross(v, a)
    return np.stack([a, b, v], axis=1)


def round4_cases(run, n_rays, n_pts, until):
    """
    Input classes of round 4, asked first in every run: layered parts (more than 20 crossings
    on one line, also along the two containment test directions), solids that touch along a
    wall, and the extreme sizes 1e-5 / 1e12.
    """
    rng = run.rng
    idx = 1000
    todo = []
    stack = plate_stack()
    for S in (1e2, 1.0):
        for rot in ("none", "default_dir", "xdir", "random"):
            todo.append(("plate_stack", stack, S, 0.0, rot))
    for S in SCALES:
        todo.append(("touching_boxes", touching_boxes(), S, 0.0, "none"))
        todo.append(("touching_boxes", touching_boxes(rng), S, (0.0, 1e3)[int(rng.integers(2))], "random"))
        todo.append(("touching_boxes", touching_boxes(rng), S, 0.0, "none"))
    for S in XSCALES:
        todo.append(("box", G.box_int((2, 3, 4), (-1, -2, 1)), S, 0.0, "none"))
        todo.append(("octahedron", G.octahedron(), S, 0.0, "random"))
        todo.append(("l_prism", G.l_prism(), S, 0.0, "none"))
        todo.append(("tetra", G.tetra(rng), S, 0.0, "none"))
        todo.append(("nested_cavity", G.concat([G.box_int((6, 6, 6), (-3, -3, -3)), G.invert(*G.box_int((2, 2, 2), (-1, -1, -1)))]), S, 0.0, "none"))
        todo.append(("hull", G.hull_int(rng, 7), S, 0.0, "random"))
    order = rng.permutation(len(todo))
    # (every class early in every run: one of each kind first, the rest in random order)
    first = []
    for want in (("plate_stack", 1e2), ("touching_boxes", 1.0), ("box", 1e-5), ("box", 1e12), ("touching_boxes", 1e2),
                 ("l_prism", 1e-5), ("l_prism", 1e12)):
        for j in order:
            if (todo[j][0], todo[j][2]) == want and j not in first:
                first.append(int(j))
                break
    for j in first + [int(j) for j in order if int(j) not in first]:
        idx += 1
        if not run.mine(idx):
            continue
        tag, (V, F), S, off, rot = todo[j]
        if rot == "random":
            rmat = random_rotation(rng)
        elif rot in ("default_dir", "xdir"):
            # the stack axis a few degrees off the direction containment is tested along
            rmat = rotation_to((DEFAULT_DIR if rot == "default_dir" else XDIR) + rng.normal(size=3) * 0.03)
        else:
            rmat = None
        run.count("round4_cases")
        run_mesh_case(run, MeshCase(tag, V, F, S, off, rmat), n_rays, n_pts)
        if run.out_of_time(until):
            run.count("round4_cases_cut_short")
            break


def workload(run):
    rng = run.rng
    quick = run.tier == "quick"
    n_rays = 90 if quick else 160
    n_pts = 48 if quick else 90
    round4_cases(run, n_rays, n_pts, 0.33)
    idx = 0
    # (1) fixed catalogue x scale x offset, axis-aligned as built (rotation: second pass)
    fixed = fixed_meshes()
    for rotated in (False, True):
        for tag, V, F in fixed:
            for S in SCALES:
                for off in OFFSETS:
                    idx += 1
                    if not run.mine(idx):
                        continue
                    if quick and (idx + run.seed) % 3 != 0 and rotated:
                        continue  # quick tier: a third of the rotated catalogue per seed
                    if len(F) > 200 and quick and off:
                        continue
                    mc = MeshCase(tag, V, F, S, off, random_rotation(rng) if rotated else None)
                    run_mesh_case(run, mc, n_rays, n_pts)
                    if run.out_of_time(0.72 if not rotated else 0.84):
                        break
                if run.out_of_time(0.72 if not rotated else 0.84):
                    break
            if run.out_of_time(0.72 if not rotated else 0.84):
                run.count("catalogue_cut_short")
                break
    # (2) random meshes until the budget is used
    while not run.out_of_time(0.92):
        for tag, V, F in G.closed_meshes(rng, count=6):
            if tag in ("box", "octahedron", "frame_torus", "l_prism"):
                continue  # already in the catalogue
            S = SCALES[int(rng.integers(len(SCALES)))]
            off = OFFSETS[int(rng.integers(len(OFFSETS)))]
            rot = random_rotation(rng) if rng.random() < 0.5 else None
            run_mesh_case(run, MeshCase(tag, V, F, S, off, rot), n_rays, n_pts)
            if run.out_of_time(0.92):
                break
    c = run.counters
    if c.get("ray_candidates_if_unpruned"):
        run.note("ray_candidate_fraction", c.get("ray_candidates_returned", 0) / c["ray_candidates_if_unpruned"])
    if c.get("proximity_candidates_if_unpruned"):
        run.note("proximity_candidate_fraction", c.get("proximity_candidates_returned", 0) / c["proximity_candidates_if_unpruned"])


def replay(run, case):
    mc = MeshCase.from_dict(case["mesh"])
    mesh, T = mc.build()
    kind = case.get("check")
    if kind == "ray":
        if "origins" in case:
            O, D = np.array(case["origins"], dtype=np.float64), np.array(case["directions"], dtype=np.float64)
        else:
            O, D = np.array([case["origin"]], dtype=np.float64), np.array([case["direction"]], dtype=np.float64)
        check_rays(run, mc, mesh, T, O, D)
    elif kind == "contains":
        check_contains(run, mc, mesh, T, np.array(case["points"], dtype=np.float64))
    elif kind == "proximity":
        check_proximity(run, mc, mesh, T, np.array(case["points"], dtype=np.float64), judge_sign=mc.tag not in NOT_SOLID)
    elif kind == "pair":
        from trimesh import triangles as tri_mod

        TT = np.array([case["triangle"]], dtype=np.float64)
        PP = np.array([case["point"]], dtype=np.float64)
        q = np.asarray(tri_mod.closest_point(TT, PP))
        _wq, wd, _wr = R.closest_pairs(TT, PP)
        run.case("replay:pair", TT, PP)
        if np.linalg.norm(q - PP, axis=1)[0] > wd[0] + 1e-7 * mc.S:
            run.violation("triangles.closest_point sym=not_closest scale=%s" % mc.sl, "returned point is farther than the closest point", case)
        elif R.point_triangle_distance(TT, q)[0] > 1e-7 * mc.S:
            run.violation("triangles.closest_point sym=off_triangle scale=%s" % mc.sl, "returned point does not lie on the triangle", case)
