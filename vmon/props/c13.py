"""
C13 - voxel encodings are interchangeable and run-length codecs lossless.

Monitor shape: independent slow reference.  The oracle of every observed execution is the
dense numpy array the encoding was built from (and np.flip / transpose / reshape of it) and,
for the free run-length functions, a few pure-Python reference codecs working on python lists
of (value, count) runs.  Nothing under trimesh.voxel is used to compute an expected value.

Three parts:

 (1) trimesh.voxel.runlength: every free function on every 0/1 sequence of length <= 12
     (thorough 16), value sequences over {0, 1, 3}, and sequences with runs of
     254/255/256/510/511/600/65535/65536, for count dtypes uint8 / uint16 / int64, on
     canonical, split and fragmented (zero-count runs) encodings; the other integer count widths
     (int8, int32, uint32, uint64) on the sequences <= 6 and on runs around 127 / 128 / 255 / 300,
     their name is part of the input class (`in=short,uint64`).
     key:  fn=<function[:variant]> in=<input class> sym=<wrong|raised:Exc>
 (2) Encoding classes: table  class chain x read x {ok, wrong, raised:Exc}.
     key:  enc=<class chain> read=<read> [in=empty] sym=<wrong|raised:Exc>
     The chain is read off the object that was actually built, e.g.
     Flipped(Transposed[cycle](Shaped(RLE))); Transposed carries the permutation class
     (swap = involution, cycle = 3-cycle) because index maps through perm / inverse perm
     coincide for involutions; RLE[uint8] carries a count dtype narrower than 64 bit; a
     '.flip' / '.transpose' / ... suffix marks a public method that returned an eager or merged
     object instead of a new lazy layer.  `in=empty` is part of the key only for the reads
     that depend on the filled set (EMPTY_READS).  Read histories on the same objects: `read=<read>@again`
     (read once more after the whole battery) and `read=base[<chain below>].<read>@after_view` (an object
     the view was derived from, read after the view); these keys are used only when a freshly built,
     never-read object answers the same read correctly - otherwise the plain cell is what is reported.
     `.reshape[-1]` in the chain marks a reshape with an inferred axis.  `RLE{as=bool}`: run-length data of an
     integer array declared with another dtype (the encoding represents array.astype(dtype)).  `RLE[uint64]`,
     `RLE[float64]`: the dtype of the run-length data when it is not int64.  The reads gather_nd:list /
     :idx_uint8 / :idx_int32 / :negative (the same index set as a nested list, as an index array of another
     integer dtype, with negative entries) are judged only on objects whose plain gathers are right, and their
     key carries the outermost class only (`enc=Flipped(*)`); negative indices may be refused with IndexError /
     ValueError, not answered differently from the dense array.
 (3) VoxelGrid: points_to_indices o indices_to_points (both ways), is_filled, filled_count,
     volume, points, bounds, binvox export + load in every axis order.
     key:  vg=<check> tf=<transform class | plain / negscale / rotated> [enc=<base>] [in=noncubic] sym=<...>
     (binvox: every axis-aligned grid is exported; the exporter may refuse - ValueError - where the extent
     pitch * (n - 1) is not the same on the three axes or where an axis is one cell thick, otherwise the
     reloaded grid must have the same points; `in=` carries noncubic / thin / extent_odd_<axis> /
     extent_all_differ / tiny_unit)
     vg=<read>@after_set_encoding view=<view class> enc=<base> sym=<...>: one grid object read, given another
     encoding through the public setter (a flipped / transposed / reshaped view of its own, the same values
     under another shape, another array; @after_strip: replaced by strip()), read again.
"""

from __future__ import annotations

import hashlib
import io
import itertools

import numpy as np

PROP = "C13"
LEVEL = "exploration"
RULE = (
    "runlength: every 0/1 sequence of length <= 12 (thorough 16, sharded), every sequence over {0,1,3} of "
    "length <= 6 (thorough 8), run patterns with 254/255/256/510/511/600/65535/65536-long runs, each as "
    "canonical / dtype-split / fragmented RLE and BRLE with count dtypes uint8, uint16, int64 (and, on sequences "
    "<= 6 and on run patterns around 127/128/255/300, int8, int32, uint32, uint64); one case = "
    "(function, sequence, encoding variant, dtype, index set); trivial = length-0 sequence. "
    "encodings: enumerated + random 1-D/2-D/3-D bool and small-int arrays (size-1 axes, all-empty, all-full, "
    "single voxel, runs > 255, uint8 / int16 valued with value * run > 255) x base encoding (Dense, Sparse, RLE, BRLE with uint8 / int64 counts) x view "
    "recipes through the public methods (flip over every axis subset, transpose over every permutation incl. "
    "3-cycles, reshape incl. an inferred -1 axis, flat, two- and three-view compositions incl. the binvox "
    "exporter's route and every transpose of a Dense encoding followed by flat / reshape / transpose / flip, "
    "views over uint8-count RLE / BRLE) x 17 reads x read history (first read of a fresh object; every read "
    "once more after the whole battery; every object below the view read after the view) "
    "(index sets single / sorted / unsorted / repeated, k == ndim, list and array); one case = (class chain, "
    "read, array, recipe, index set); distinct = distinct digest of those; trivial = size-0. "
    "voxelgrid: arrays x base encoding x transform class (identity, translation, uniform / per-axis scale, "
    "rotation, similarity, axis mirror, two-axis flip, point mirror, mirror+rotation, shear, affine of either "
    "orientation) x check; binvox round trips on cubic grids and on non-cubic grids with a per-axis pitch of "
    "uniform extent; trivial = empty grid or identity transform. "
    "round 4: run-length encodings of integer arrays declared bool / uint8 (dtype option); views and compositions "
    "over uint8 / uint16 / uint32 / uint64 counts; index sets as nested lists, uint8 / int32 index arrays, negative "
    "entries (free gathers too); binvox export of every shape class (cubic, one odd axis in each position, all "
    "different, one cell thick in each position) x axis-aligned transform class (uniform, one odd pitch in each "
    "position, 1e-4 off, units 1e-9 / 1e9, mirrors): refusal or exact reload; grid histories: read, replace the "
    "encoding (setter with a view / same values other shape / other array, strip()), read again."
)
ANCHORS = [
    "trimesh/voxel/runlength.py:dense_to_rle",
    "trimesh/voxel/runlength.py:dense_to_brle",
    "trimesh/voxel/runlength.py:split_long_brle_lengths",
    "trimesh/voxel/runlength.py:split_long_rle_lengths",
    "trimesh/voxel/runlength.py:merge_brle_lengths",
    "trimesh/voxel/runlength.py:merge_rle_lengths",
    "trimesh/voxel/runlength.py:rle_to_rle",
    "trimesh/voxel/runlength.py:brle_to_brle",
    "trimesh/voxel/runlength.py:rle_to_brle",
    "trimesh/voxel/runlength.py:brle_to_rle",
    "trimesh/voxel/runlength.py:rle_to_dense",
    "trimesh/voxel/runlength.py:brle_to_dense",
    "trimesh/voxel/runlength.py:rle_reverse",
    "trimesh/voxel/runlength.py:brle_reverse",
    "trimesh/voxel/runlength.py:rle_strip",
    "trimesh/voxel/runlength.py:brle_strip",
    "trimesh/voxel/runlength.py:rle_to_sparse",
    "trimesh/voxel/runlength.py:brle_to_sparse",
    "trimesh/voxel/runlength.py:rle_gather_1d",
    "trimesh/voxel/runlength.py:brle_gather_1d",
    "trimesh/voxel/runlength.py:sorted_rle_gather_1d",
    "trimesh/voxel/runlength.py:sorted_brle_gather_1d",
    "trimesh/voxel/runlength.py:rle_mask",
    "trimesh/voxel/runlength.py:brle_mask",
    "trimesh/voxel/runlength.py:brle_logical_not",
    "trimesh/voxel/runlength.py:rle_length",
    "trimesh/voxel/runlength.py:brle_length",
    "trimesh/voxel/encoding.py:DenseEncoding.gather_nd",
    "trimesh/voxel/encoding.py:SparseEncoding.gather_nd",
    "trimesh/voxel/encoding.py:SparseEncoding.dense",
    "trimesh/voxel/encoding.py:RunLengthEncoding.gather_nd",
    "trimesh/voxel/encoding.py:RunLengthEncoding.stripped",
    "trimesh/voxel/encoding.py:BinaryRunLengthEncoding.gather_nd",
    "trimesh/voxel/encoding.py:BinaryRunLengthEncoding.sparse_indices",
    "trimesh/voxel/encoding.py:Encoding.stripped",
    "trimesh/voxel/encoding.py:LazyIndexMap.gather_nd",
    "trimesh/voxel/encoding.py:LazyIndexMap.sparse_indices",
    "trimesh/voxel/encoding.py:FlattenedEncoding._to_base_indices",
    "trimesh/voxel/encoding.py:FlattenedEncoding._from_base_indices",
    "trimesh/voxel/encoding.py:ShapedEncoding._to_base_indices",
    "trimesh/voxel/encoding.py:ShapedEncoding._from_base_indices",
    "trimesh/voxel/encoding.py:TransposedEncoding._to_base_indices",
    "trimesh/voxel/encoding.py:TransposedEncoding._from_base_indices",
    "trimesh/voxel/encoding.py:FlippedEncoding._to_base_indices",
    "trimesh/voxel/encoding.py:FlippedEncoding._from_base_indices",
    "trimesh/voxel/encoding.py:_flipped",
    "trimesh/voxel/encoding.py:_transposed",
    "trimesh/voxel/base.py:VoxelGrid.points_to_indices",
    "trimesh/voxel/base.py:VoxelGrid.indices_to_points",
    "trimesh/voxel/base.py:VoxelGrid.is_filled",
    "trimesh/voxel/base.py:VoxelGrid.volume",
    "trimesh/voxel/base.py:VoxelGrid.bounds",
    "trimesh/voxel/transforms.py:Transform.transform_points",
    "trimesh/voxel/transforms.py:Transform.inverse_transform_points",
    "trimesh/voxel/transforms.py:Transform.unit_volume",
    "trimesh/exchange/binvox.py:binvox_bytes",
    "trimesh/exchange/binvox.py:parse_binvox",
    "trimesh/exchange/binvox.py:export_binvox",
    "trimesh/exchange/binvox.py:load_binvox",
    "trimesh/exchange/binvox.py:voxel_from_binvox",
]
SHARDS = {"quick": 1, "thorough": 16}
BUDGET = {"quick": 50, "thorough": 480}
MIN_EVENTS = {"quick": 100000, "thorough": 400000}
ASSUMPTIONS = [
    "numpy indexing, np.flip, np.transpose, np.reshape, np.pad, np.argwhere define what an array 'answers'",
    "run-length output is judged by decoding it with a pure-Python reference decoder and by the bound "
    "count <= iinfo(dtype).max; no particular split/merge normal form and no output dtype is demanded "
    "(except merge_* on canonical input, documented as the exact inverse of split_long_*)",
    "filled indices are compared as a set of rows (order is not part of the statement); filled values must "
    "be aligned with the indices the same encoding reported (the answer of that read is kept by value: the "
    "oracle never reads the object itself, a second read could undo what the first one disturbed)",
    "reads do not change what an encoding represents: the same reference array judges the first read, the "
    "re-read and the reads of the objects below a view",
    "zero-size inputs (length-0 sequence) may be refused: an exception there is counted as skipped, a wrong "
    "value is still a violation",
    "get_value(index) does not document the index type: it is tried with a tuple, then an int64 array, then "
    "(1-D encodings) the bare int; the first form that does not raise is the answer that is judged",
    "run_length_data / binary_run_length_data are only read on flat (1-D) encodings (documented ValueError "
    "otherwise); binary_run_length_data only on bool arrays",
    "binvox: the exporter documents 'uniform scale' (extent = pitch * (n - 1) equal on the three axes) as its "
    "only restriction: judged on cubic grids with axis-aligned uniform |pitch| and on non-cubic grids given a "
    "per-axis pitch that makes the extent uniform; RuntimeError (rotation/shear) and ValueError (non-uniform "
    "extent, an axis of length 1: pitch * (n - 1) stores no pitch) from export are accepted refusals on exactly "
    "those classes; an export that succeeds must reload with the same shape and points",
    "an index with negative entries is read from the end by the dense array; a gather may refuse it with "
    "IndexError / ValueError (the exceptions of a bad index), any other exception or another answer is a violation",
    "a RunLengthEncoding declared with a dtype other than that of its data represents data.astype(dtype), as its "
    "constructor documents and its `dense` returns",
    "replacing a grid's encoding through the public setter (or strip()) makes it the grid of the new encoding: "
    "reads made before the replacement do not count",
    "VoxelGrid.bounds is not in the statement: it is judged exactly only for axis-aligned transforms and as "
    "containment of every filled cell's corners otherwise",
]
EXHAUSTIVE = {"quick": False, "thorough": False}

COUNT_DTYPES = {"uint8": np.uint8, "uint16": np.uint16, "int64": np.int64,
                # the other integer widths ("every integer count width"): judged on the free functions
                "int8": np.int8, "int32": np.int32, "uint32": np.uint32, "uint64": np.uint64}
READ_DTYPES = ("uint8", "uint16", "int64")  # count dtypes asked of run_length_data on every chain
# what a gather may answer to an index the dense array reads from the end, besides the value
NEGATIVE_REFUSALS = ("raised:IndexError", "raised:ValueError")


# =============================================================================================
# outcome of one observed execution


def _outcome(thunk, pred):
    """('ok' | 'wrong' | 'raised:<Exc>', detail).  pred judges the returned value."""
    try:
        got = thunk()
    except Exception as e:  # library raised
        return "raised:" + type(e).__name__, repr(e)[:240]
    try:
        ok = bool(pred(got))
    except Exception as e:  # the answer is not even interpretable by the oracle
        return "wrong", "uninterpretable answer %s (%s: %s)" % (_short(got), type(e).__name__, str(e)[:80])
    return ("ok", None) if ok else ("wrong", _short(got))


def _short(x):
    try:
        if isinstance(x, tuple):
            return "(" + ", ".join(_short(v) for v in x) + ")"
        a = np.asarray(x)
        if a.size > 24:
            return "array(shape=%s, dtype=%s, head=%s)" % (a.shape, a.dtype, a.ravel()[:24].tolist())
        return "%s%s" % (a.tolist(), "" if a.ndim else ":" + type(x).__name__)
    except Exception:
        return repr(x)[:200]


# =============================================================================================
# (1) pure-Python reference codecs on lists of runs


def runs_of(seq):
    out = []
    for v in seq:
        v = int(v)
        if out and out[-1][0] == v:
            out[-1][1] += 1
        else:
            out.append([v, 1])
    return out


def expand(runs):
    out = []
    for v, c in runs:
        out.extend([int(v)] * int(c))
    return out


def ref_rle_decode(rle):
    rle = [int(x) for x in np.asarray(rle).reshape(-1).tolist()] if not isinstance(rle, list) else [int(x) for x in rle]
    if len(rle) % 2:
        raise ValueError("odd rle length")
    out = []
    for i in range(0, len(rle), 2):
        if rle[i + 1] < 0:
            raise ValueError("negative count")
        out.extend([rle[i]] * rle[i + 1])
    return out


def ref_brle_decode(brle):
    brle = [int(x) for x in np.asarray(brle).reshape(-1).tolist()] if not isinstance(brle, list) else [int(x) for x in brle]
    out, v = [], 0
    for c in brle:
        if c < 0:
            raise ValueError("negative count")
        out.extend([v] * c)
        v = 1 - v
    return out


def ref_rle_encode(runs, maxc=None):
    out = []
    for v, c in runs:
        while maxc is not None and c > maxc:
            out += [v, maxc]
            c -= maxc
        out += [v, c]
    return out


def ref_brle_encode(runs, maxc=None):
    """alternating counts starting with zeros; a run of the 'wrong' value is reached through a zero count"""
    out, nxt = [], 0  # nxt: the value the next count refers to
    for v, c in runs:
        if v != nxt:
            out.append(0)
            nxt = 1 - nxt
        while maxc is not None and c > maxc:
            out += [maxc, 0]
            c -= maxc
        out.append(c)
        nxt = 1 - nxt
    if not out:
        out = [0]
    return out


def fragment(runs):
    """non-canonical but equivalent run list: runs split in two, zero-count runs sprinkled in"""
    out = [[1, 0]]
    for v, c in runs:
        if c >= 2:
            out += [[v, c - 1], [v, 1]]
        else:
            out += [[v, c]]
        out += [[1 - v if v in (0, 1) else 0, 0]]
    return out


def _maxc(dname):
    return int(np.iinfo(COUNT_DTYPES[dname]).max)


def _counts_fit(counts, dname):
    c = np.asarray(counts)
    return c.size == 0 or (int(c.max()) <= _maxc(dname) and int(c.min()) >= 0)


def seq_class(seq):
    if len(seq) == 0:
        return "empty"
    nz = sum(1 for x in seq if x)
    return "zeros" if nz == 0 else "ones" if nz == len(seq) else "mixed"


def width_class(n, longest, dname):
    """short: nothing can exceed the count dtype; longseq: only positions do; longrun: a run does"""
    m = _maxc(dname)
    return "longrun" if longest > m else "longseq" if n > m else "short"


def index_sets(n, rng=None, few=False):
    """(class, python list) index sets into a length-n sequence, n >= 1; deterministic + optional random"""
    out = [("single", [n - 1])]
    full = list(range(n))
    if n >= 2:
        step = next(s for s in (7, 5, 3, 11, 13, 1) if np.gcd(s, n) == 1)
        uns = [(i * step + 3) % n for i in range(n)]
        if uns == sorted(uns):
            uns = uns[::-1]
        out.append(("sorted", full))
        out.append(("repeated", uns[: max(2, n // 2)] + uns[:2] + [uns[0]]))
        if not few:
            out.append(("unsorted", uns))
            out.append(("single", [0]))
            out.append(("sorted", full[::2] if n >= 4 else full))
            out.append(("repeated_sorted", sorted(full + full[:2])))
    else:
        out.append(("repeated", [0, 0, 0]))
    if n > 256:
        # few low positions on a long sequence: wrapped narrow accumulators answer without running out of data
        out.append(("unsorted", [171, 146]))
        out.append(("sorted", [146, 171]))
    if rng is not None and n >= 2:
        k = int(rng.integers(2, min(n, 9) + 1))
        out.append(("unsorted", [int(i) for i in rng.permutation(n)[:k]]))
        out.append(("repeated", [int(i) for i in rng.integers(0, n, size=k + 2)]))
    return out


def _is_sorted(idx):
    return all(a <= b for a, b in zip(idx, idx[1:]))


def _thin(idx, n):
    if n > 4096 and len(idx) > 48:
        idx = idx[:: max(1, len(idx) // 48)] + [idx[-1]]
    return idx


def check_sequence(run, runs, dnames, rng=None, level=2, only=None):
    """
    The whole runlength battery on the sequence given by canonical `runs` [[value, count], ...].
    level 2: every encoding variant, every index set, list and array indices;
    level 1: dtype-split encoding only, fewer index sets;  level 0: codecs only (very long inputs)
    """
    from trimesh.voxel import runlength as rl

    runs = [[int(v), int(c)] for v, c in runs]
    seq = expand(runs)
    n = len(seq)
    binary = all(v in (0, 1) for v in seq)
    fill = seq_class(seq)
    last = "last%d" % (1 if n and seq[-1] else 0) if n else "empty"
    longest = max([c for _, c in runs], default=0)
    nz_idx = [i for i, v in enumerate(seq) if v]
    lead = next((i for i, v in enumerate(seq) if v), n)
    trail = next((i for i, v in enumerate(seq[::-1]) if v), n)
    ends = fill if fill != "mixed" else "lead%s_trail%s" % ("0" if lead == 0 else "+", "0" if trail == 0 else "+")
    dig = repr(runs) if n > 48 else "".join(map(str, seq))

    def judge(fn, cls, thunk, pred, refusals=(), **extra):
        if only is not None and fn != only:
            return
        sym, detail = _outcome(thunk, pred)
        if sym in refusals:
            run.count("rl_refused:%s|%s" % (fn, sym))
            run.state("rl_cell", (fn, cls, "refused"))
            return
        run.count("rl_calls")
        run.count("rl:%s|%s" % (fn, sym))
        run.state("rl_cell", (fn, cls, sym))
        run.case("rl:" + fn, cls, dig, extra.get("dtype"), extra.get("variant"), extra.get("dk"), nontrivial=n > 0)
        if sym == "ok":
            return
        if n == 0 and sym.startswith("raised:"):
            run.skip("rl: zero-length sequence refused by " + fn)
            return
        case = {"part": "rl", "fn": fn, "runs": runs, "dtypes": list(dnames), "observed": detail}
        case.update(extra)
        case.pop("dk", None)
        run.violation(
            "fn=%s in=%s sym=%s" % (fn, cls, sym),
            "runlength.%s does not reproduce the sequence (input class %s)" % (fn.split(":")[0], cls),
            case,
        )

    for dname in dnames:
        dt = COUNT_DTYPES[dname]
        maxc = _maxc(dname)
        width = wbare = width_class(n, longest, dname)
        wsfx = "" if dname in READ_DTYPES else "," + dname  # the other count widths: input classes of their own
        width += wsfx
        run.state("rl_width", (dname, width, fill))
        dense = np.array(seq, dtype=bool if binary else np.int64)
        split_rle = ref_rle_encode(runs, maxc)
        variants = [("split", "canon" if wbare != "longrun" else "noncanon", split_rle)]
        if level >= 2 and n <= 64:
            variants.append(("frag", "noncanon", ref_rle_encode(fragment(runs), maxc)))

        # ---- encode
        def p_rle(g, dname=dname):
            g = np.asarray(g)
            return g.ndim == 1 and ref_rle_decode(g) == seq and _counts_fit(g[1::2], dname)

        def p_brle(g, dname=dname):
            g = np.asarray(g)
            return g.ndim == 1 and ref_brle_decode(g) == seq and _counts_fit(g, dname)

        judge("dense_to_rle", width, lambda: rl.dense_to_rle(dense.copy(), dtype=dt), p_rle, dtype=dname)
        if binary:
            judge("dense_to_brle", width, lambda: rl.dense_to_brle(dense.copy(), dtype=dt), p_brle, dtype=dname)

        # ---- split / merge on canonical lengths
        vals = [v for v, _ in runs]
        lens = [c for _, c in runs]
        if runs:
            judge(
                "split_long_rle_lengths", width,
                lambda: rl.split_long_rle_lengths(np.array(vals), np.array(lens), dtype=dt),
                lambda g: expand(zip(np.asarray(g[0]).tolist(), np.asarray(g[1]).tolist())) == seq
                and _counts_fit(g[1], dname),
                dtype=dname,
            )
            judge(
                "merge_rle_lengths", width,
                lambda: rl.merge_rle_lengths(np.array(split_rle[0::2]), np.array(split_rle[1::2], dtype=dt)),
                lambda g: [int(x) for x in g[0]] == vals and [int(x) for x in g[1]] == lens,
                dtype=dname,
            )
        bvariants = []
        if binary:
            canon_brle = ref_brle_encode(runs)
            split_brle = ref_brle_encode(runs, maxc)
            judge(
                "split_long_brle_lengths", width,
                lambda: rl.split_long_brle_lengths(np.array(canon_brle, dtype=np.int64), dtype=dt), p_brle,
                dtype=dname,
            )
            judge(
                "merge_brle_lengths", width,
                lambda: rl.merge_brle_lengths(np.array(split_brle, dtype=dt)),
                lambda g: [int(x) for x in g] == canon_brle,
                dtype=dname,
            )
            bvariants = [("split", "canon" if wbare != "longrun" else "noncanon", split_brle)]
            if level >= 2 and n <= 64:
                bvariants.append(("frag", "noncanon", ref_brle_encode(fragment(runs), maxc)))
                if n:
                    bvariants.append(("padded", "noncanon", split_brle + ([0] if len(split_brle) % 2 else [0, 0])))

        isets = [] if (level == 0 or n == 0) else index_sets(n, rng, few=level < 2)
        msets = [] if (level == 0 or n == 0) else _masks_1d(n, seq)[: 5 if level >= 2 else 1]

        def p_strip(g, decode):
            data, pad = g
            d = decode(data)
            if fill in ("zeros", "empty"):
                return not any(d)  # padding of an all-zero sequence is not defined
            return (int(pad[0]), int(pad[1])) == (lead, trail) and d == seq[lead: n - trail]

        def gathers(prefix, data, vname, form, fns):
            for icls, idx in isets:
                idx = _thin(idx, n)
                exp = [seq[i] for i in idx]
                for kind in ("array", "list"):
                    if kind == "list" and (wbare != "short" or (level < 2 and icls != "repeated")):
                        continue  # list handling is independent of the count width: judged on short inputs
                    if level < 2 and wbare == "short" and icls == "single":
                        continue
                    ind = np.array(idx, dtype=np.int64) if kind == "array" else list(idx)
                    gc = "idx=%s,%s" % (kind, width)
                    run.state("rl_index_class", (kind, icls))
                    ex2 = {"dtype": dname, "variant": vname, "idx": idx, "idx_kind": kind, "dk": (kind, icls)}
                    pg = lambda g: np.asarray(g).shape == (len(idx),) and [int(x) for x in g] == exp  # noqa: E731
                    if level >= 2 or wbare != "short" or icls == "repeated":
                        judge(prefix + "_gather_1d", gc, lambda: fns[0](data.copy(), ind), pg, **ex2)
                    if level >= 2 or (icls == "repeated" and kind == "array"):
                        judge(prefix + "_gatherer_1d", gc, lambda: fns[1](ind)(data.copy()), pg, **ex2)
                    if (level >= 2 or icls == "repeated") and kind == "array" and n >= 2:
                        # the documented use of a gatherer: built once for the indices, applied to
                        # several encodings, every result kept.  The second encoding is the reversed
                        # sequence; the first result is looked at only after the second call.
                        seq2 = seq[::-1]
                        enc2 = (ref_rle_encode if prefix == "rle" else ref_brle_encode)(runs_of(seq2), maxc)
                        data2 = np.array(enc2, dtype=data.dtype)
                        exp2 = [seq2[i] for i in idx]

                        def reuse(ind=ind, data2=data2):
                            gth = fns[1](ind)
                            first = gth(data.copy())
                            second = gth(data2)
                            third = gth(data.copy())
                            return first, second, third

                        judge(prefix + "_gatherer_1d:reused", gc + (",same" if seq2 == seq else ",other"), reuse,
                              lambda g: [int(x) for x in g[0]] == exp and [int(x) for x in g[1]] == exp2
                              and [int(x) for x in g[2]] == exp and g[0] is not g[1] and g[0] is not g[2], **ex2)
                    if _is_sorted(idx):
                        judge("sorted_%s_gather_1d" % prefix, gc, lambda: list(fns[2](data.copy(), ind)),
                              lambda g: [int(x) for x in g] == exp, **ex2)

        def negative_gathers(prefix, data, vname, fns):
            # indices the dense array reads from the end ("equivalent to rle_to_dense(data)[indices]"): a
            # streaming gather may refuse them (IndexError / ValueError), it may not answer something else.
            # The sign of an index is independent of the count width: judged on short inputs, three dtypes.
            if level < 2 or wbare != "short" or wsfx or n < 2 or vname != "split":
                return
            for icls, idx in (("negative", [-1, 0, -n, n - 1, -(n // 2) - 1]), ("negative_sorted", [-n, -1, 0, n - 1])):
                exp = [seq[i] for i in idx]
                ind = np.array(idx, dtype=np.int64)
                gc = "idx=array,%s" % icls
                ex2 = {"dtype": dname, "variant": vname, "idx": idx, "idx_kind": "array", "dk": ("array", icls)}
                pg = lambda g: np.asarray(g).shape == (len(idx),) and [int(x) for x in g] == exp  # noqa: E731
                run.state("rl_index_class", ("array", icls))
                judge(prefix + "_gather_1d", gc, lambda: fns[0](data.copy(), ind), pg, refusals=NEGATIVE_REFUSALS, **ex2)
                judge(prefix + "_gatherer_1d", gc, lambda: fns[1](ind)(data.copy()), pg, refusals=NEGATIVE_REFUSALS, **ex2)
                if _is_sorted(idx):
                    judge("sorted_%s_gather_1d" % prefix, gc, lambda: list(fns[2](data.copy(), ind)),
                          lambda g: [int(x) for x in g] == exp, refusals=NEGATIVE_REFUSALS, **ex2)

        # ---- functions taking RLE data
        for vname, form, rle_list in variants:
            rle = np.array(rle_list, dtype=dt if binary else np.int64)
            ex = {"dtype": dname, "variant": vname}
            vdt = bool if binary else np.int64
            judge("rle_to_dense", width, lambda: rl.rle_to_dense(rle.copy(), dtype=vdt),
                  lambda g: np.asarray(g).ndim == 1 and [int(x) for x in np.asarray(g).tolist()] == seq, **ex)
            judge("rle_length", width, lambda: rl.rle_length(rle.copy()), lambda g: int(g) == n, **ex)
            judge("rle_to_rle", width, lambda: rl.rle_to_rle(rle.copy(), dtype=dt), p_rle, **ex)
            if binary:
                judge("rle_to_brle", width, lambda: rl.rle_to_brle(rle.copy(), dtype=dt), p_brle, **ex)
                if level >= 2:
                    judge("rle_to_brle:dtype_none", width, lambda: rl.rle_to_brle(rle.copy()),
                          lambda g: ref_brle_decode(list(g)) == seq, **ex)
            judge("rle_reverse", "%s,%s%s" % (last, form, wsfx), lambda: rl.rle_reverse(rle.copy()),
                  lambda g: ref_rle_decode(g) == seq[::-1], **ex)
            if level >= 2 and wbare == "short":
                judge("rle_reverse:list", "list" + wsfx, lambda: rl.rle_reverse(list(rle_list)),
                      lambda g: ref_rle_decode(g) == seq[::-1], **ex)
            judge("rle_strip", "%s,%s" % (ends, width), lambda: rl.rle_strip(rle.copy()),
                  lambda g: p_strip(g, ref_rle_decode), **ex)
            judge(
                "rle_to_sparse", "%s,%s" % (fill, width), lambda: rl.rle_to_sparse(rle.copy()),
                lambda g: [int(x) for x in np.asarray(g[0]).tolist()] == nz_idx
                and [int(x) for x in np.asarray(g[1]).tolist()] == [seq[i] for i in nz_idx],
                **ex,
            )
            gathers("rle", rle, vname, form,
                    (lambda d, i: rl.rle_gather_1d(d, i, dtype=vdt), rl.rle_gatherer_1d, rl.sorted_rle_gather_1d))
            negative_gathers("rle", rle, vname,
                             (lambda d, i: rl.rle_gather_1d(d, i, dtype=vdt), rl.rle_gatherer_1d, rl.sorted_rle_gather_1d))
            for mcls, mask in msets:
                judge("rle_mask", "mask=%s,%s" % (mcls, width),
                      lambda: list(rl.rle_mask(rle.copy(), np.array(mask, dtype=bool))),
                      lambda g: [int(x) for x in g] == [v for v, m in zip(seq, mask) if m],
                      mask=mask if n <= 64 else mcls, dk=mcls, **ex)

        # ---- functions taking BRLE data
        for vname, form, brle_list in bvariants:
            brle = np.array(brle_list, dtype=dt)
            ex = {"dtype": dname, "variant": vname}
            judge("brle_to_dense", width, lambda: rl.brle_to_dense(brle.copy()),
                  lambda g: np.asarray(g).ndim == 1 and [int(x) for x in np.asarray(g).tolist()] == seq, **ex)
            if wbare == "short" and (level >= 2 or n <= 8):
                judge("brle_to_dense:vals", "vals" + wsfx, lambda: rl.brle_to_dense(brle.copy(), vals=[7, 9]),
                      lambda g: [int(x) for x in np.asarray(g).tolist()] == [9 if v else 7 for v in seq], **ex)
            judge("brle_length", width, lambda: rl.brle_length(brle.copy()), lambda g: int(g) == n, **ex)
            judge("brle_to_brle", width, lambda: rl.brle_to_brle(brle.copy(), dtype=dt), p_brle, **ex)
            judge("brle_to_rle", width, lambda: rl.brle_to_rle(brle.copy(), dtype=dt), p_rle, **ex)
            judge("brle_logical_not", width, lambda: rl.brle_logical_not(brle.copy()),
                  lambda g: ref_brle_decode(g) == [1 - v for v in seq], **ex)
            judge("brle_reverse", "%s,%s%s" % (last, form, wsfx), lambda: rl.brle_reverse(brle.copy()),
                  lambda g: ref_brle_decode(g) == seq[::-1], **ex)
            judge("brle_strip", "%s,%s" % (ends, width), lambda: rl.brle_strip(brle.copy()),
                  lambda g: p_strip(g, ref_brle_decode), **ex)
            judge("brle_to_sparse", "%s,%s" % (fill, width), lambda: rl.brle_to_sparse(brle.copy()),
                  lambda g: np.asarray(g).ndim == 1 and [int(x) for x in np.asarray(g).tolist()] == nz_idx, **ex)
            gathers("brle", brle, vname, form, (rl.brle_gather_1d, rl.brle_gatherer_1d, rl.sorted_brle_gather_1d))
            negative_gathers("brle", brle, vname, (rl.brle_gather_1d, rl.brle_gatherer_1d, rl.sorted_brle_gather_1d))
            for mcls, mask in msets:
                judge("brle_mask", "mask=%s,%s" % (mcls, width),
                      lambda: list(rl.brle_mask(brle.copy(), np.array(mask, dtype=bool))),
                      lambda g: [int(x) for x in g] == [v for v, m in zip(seq, mask) if m],
                      mask=mask if n <= 64 else mcls, dk=mcls, **ex)


def _masks_1d(n, seq):
    if n < 2:
        return [("all", [True] * n), ("none", [False] * n)]
    return [
        ("alternate", [i % 2 == 0 for i in range(n)]),
        ("filled", [bool(v) for v in seq]),
        ("all", [True] * n),
        ("none", [False] * n),
        ("last", [i == n - 1 for i in range(n)]),
    ]


LONG_RUNS_U8 = (254, 255, 256, 510, 511, 600)
LONG_RUNS_U16 = (65535, 65536)


def long_run_patterns(lengths):
    """canonical run lists (binary) around runs of the given lengths"""
    out = []
    if 255 in lengths:
        out.append([[1, 511], [0, 1], [1, 255], [0, 256], [1, 200], [0, 256], [1, 256], [0, 300]])
        out.append([[0, 200], [1, 100], [0, 300], [1, 3]])
        out.append([[0, 7], [1, 2], [0, 7], [1, 1], [0, 511], [1, 511], [0, 511], [1, 200]])
        out.append([[0, 1], [1, 7], [0, 255], [1, 200]])
    for L in lengths:
        for v in (0, 1):
            w = 1 - v
            out.append([[v, L]])
            out.append([[w, 1], [v, L]])
            out.append([[v, L], [w, 2]])
            out.append([[w, 2], [v, L], [w, 1]])
            out.append([[v, L], [w, L]])
            out.append([[v, 1], [w, L], [v, L + 1], [w, 1]])
            out.append([[v, L], [w, 2], [v, L + 1]])
    return out


def part_runlength(run, frac_end):
    maxlen = 12 if run.tier == "quick" else 16
    t_start = run.elapsed()
    span = max(1.0, run.budget * frac_end - t_start)

    def past(f):  # fraction of this part's own time span
        return run.elapsed() > t_start + span * f

    item = 0
    # (a) long runs first (few, important)
    for runs in long_run_patterns(LONG_RUNS_U8):
        item += 1
        if run.mine(item):
            check_sequence(run, runs, ("uint8", "uint16", "int64"), level=2)
    # every other integer count width: signed narrow (runs around 127), 32 bit, unsigned 64 bit
    for j, runs in enumerate(long_run_patterns((127, 128)) + long_run_patterns((255, 300))):
        item += 1
        if run.mine(item):
            check_sequence(run, runs, ("int8", "int32", "uint32", "uint64"), level=2 if j % 4 == 0 else 1)
    for j, runs in enumerate(long_run_patterns(LONG_RUNS_U16)):
        item += 1
        if run.tier == "quick" and j % 7 not in (0, 1, 2, 6):
            continue
        if run.mine(item):
            # pure-Python loops over 65536+ elements: the full battery only on a few patterns
            check_sequence(run, runs, ("uint16",), level=1 if (run.tier != "quick" or j % 7 == 1) else 0)
    # (b) value sequences over {0,1,3}
    vmax = 6 if run.tier == "quick" else 8
    for n in range(1, vmax + 1):
        for seq in itertools.product((0, 1, 3), repeat=n):
            if 3 not in seq:
                continue
            item += 1
            if run.mine(item):
                check_sequence(run, runs_of(seq), ("int64",) if n > 3 else ("uint8", "int64", "uint64", "int32"),
                               level=2 if n <= 4 else 1)
        if past(0.25):
            run.count("rl_value_sequences_cut_short")
            break
    # (c) every 0/1 sequence, shortest first
    done_len = -1
    for n in range(0, maxlen + 1):
        for bits in range(2 ** n):
            item += 1
            if not run.mine(item):
                continue
            seq = [(bits >> (n - 1 - i)) & 1 for i in range(n)]
            if n <= 6:
                check_sequence(run, runs_of(seq), ("uint8", "uint16", "int64"), level=2)
                check_sequence(run, runs_of(seq), ("int8", "int32", "uint32", "uint64"), level=2 if n <= 4 else 1)
            else:
                # count width cannot matter for runs this short: one dtype, rotating
                check_sequence(run, runs_of(seq), (("uint8", "uint16", "int64")[bits % 3],), level=2 if n <= 7 else 1)
            if (bits & 63) == 0 and past(0.92):
                break
        else:
            done_len = n
            continue
        break
    run.note("rl_binary_sequences_complete_up_to_length", done_len)
    if done_len < maxlen:
        run.count("rl_binary_enumeration_cut_short")
    # (d) random longer sequences with random run structure
    while not past(1.0):
        k = int(run.rng.integers(1, 9))
        v0 = int(run.rng.integers(0, 2))
        runs = []
        for i in range(k):
            c = int(run.rng.choice([1, 2, 3, 7, 200, 255, 256, 300, 511, 700]))
            runs.append([(v0 + i) % 2, c])
        check_sequence(run, runs, ("uint8", "uint16"), rng=run.rng, level=1)
        if run.tier == "quick" and run.counters.get("rl_calls", 0) > 900000:
            break


# =============================================================================================
# (2) encoding classes

READS_ALL = (
    "dense", "shape", "size", "sum", "is_empty", "sparse_indices", "sparse_values", "gather_nd",
    "gather_nd:single", "gather_nd:list", "gather_nd:idx_uint8", "gather_nd:idx_int32", "gather_nd:negative",
    "gather:array", "gather:list", "gather:negative", "mask", "get_value", "stripped", "copy",
    "run_length_data", "binary_run_length_data",
)


# reads whose definition / implementation branches on the filled set: all-empty arrays are their own
# input class there (the quantifier names them), everywhere else emptiness is not part of the key
EMPTY_READS = ("is_empty", "sparse_indices", "sparse_values", "stripped", "sum")


def chain_of(e):
    from trimesh.voxel import encoding as E

    if isinstance(e, E.TransposedEncoding):
        p = tuple(int(x) for x in e._perm)
        ident = tuple(range(len(p)))
        inv = tuple(int(x) for x in np.argsort(p))
        cls = "id" if p == ident else "swap" if p == inv else "cycle"
        return "Transposed[%s](%s)" % (cls, chain_of(e._data))
    if isinstance(e, E.FlippedEncoding):
        return "Flipped(%s)" % chain_of(e._data)
    if isinstance(e, E.ShapedEncoding):
        return "Shaped(%s)" % chain_of(e._data)
    if isinstance(e, E.FlattenedEncoding):
        return "Flattened(%s)" % chain_of(e._data)
    if isinstance(e, E.RunLengthEncoding):
        name = "BRLE" if isinstance(e, E.BinaryRunLengthEncoding) else "RLE"
        dt = np.asarray(e._data).dtype
        # int64 counts are the plain class; narrower counts and unsigned 64 bit (np.uint64 with a python int
        # or an int64 promotes to float64) carry their dtype
        # (float64 data is what joining uint64 counts with signed values or python ints produces)
        return name if dt == np.int64 else "%s[%s]" % (name, dt.name)
    if isinstance(e, E.SparseEncoding):
        return "Sparse" if e.sparse_indices.shape[-1] == 3 else "Sparse@%dd" % e.sparse_indices.shape[-1]
    if isinstance(e, E.DenseEncoding):
        return "Dense"
    return type(e).__name__


ARG_FORM_READS = ("gather_nd:list", "gather_nd:idx_uint8", "gather_nd:idx_int32", "gather_nd:negative",
                  "gather:negative")


def _outer_label(e):
    from trimesh.voxel import encoding as E

    if isinstance(e, E.LazyIndexMap):
        return type(e).__name__.replace("Encoding", "") + "(*)"
    return chain_of(e).split("[")[0].split("@")[0]


def build_base(base, X, cdtype="int64", as_dtype=None):
    """
    base encoding representing X (no view applied).  `as_dtype` (RLE only): the run-length data holds the
    values of X, the encoding is declared with another dtype ("each second value of data is cast to this
    dtype"): it represents X.astype(as_dtype).
    """
    from trimesh.voxel import encoding as E

    X = np.array(X)  # private copy
    if base == "Dense":
        return E.DenseEncoding(X)
    if base == "Sparse":
        return E.SparseEncoding.from_dense(X)
    flat = X.reshape(-1)
    if base == "RLE":
        e = E.RunLengthEncoding.from_dense(flat, dtype=X.dtype if as_dtype is None else np.dtype(as_dtype),
                                           encoding_dtype=COUNT_DTYPES[cdtype])
    elif base == "BRLE":
        e = E.BinaryRunLengthEncoding.from_dense(flat, encoding_dtype=COUNT_DTYPES[cdtype])
    else:
        raise KeyError(base)
    return e if X.ndim == 1 else e.reshape(X.shape)


def apply_op(enc, ref, op):
    """one view step on (encoding, reference array); lower-case = public method, Capitalised = lazy class"""
    from trimesh.voxel import encoding as E

    name, arg = op[0], (op[1] if len(op) > 1 else None)
    if name in ("flip", "Flip"):
        axes = tuple(int(a) for a in arg)
        r = ref
        for a in axes:
            r = np.flip(r, a)
        e = enc.flip(axes) if name == "flip" else E.FlippedEncoding(enc, axes)
        return e, r
    if name in ("transpose", "Transpose"):
        perm = tuple(int(a) for a in arg)
        e = enc.transpose(perm) if name == "transpose" else E.TransposedEncoding(enc, perm)
        return e, ref.transpose(perm)
    if name in ("reshape", "Reshape"):
        shape = tuple(int(a) for a in arg)
        e = enc.reshape(shape) if name == "reshape" else E.ShapedEncoding(enc, shape)
        return e, ref.reshape(shape)
    if name in ("flat", "Flat"):
        e = enc.flat if name == "flat" else E.FlattenedEncoding(enc)
        return e, ref.reshape(-1)
    raise KeyError(name)


def _depth(e):
    from trimesh.voxel import encoding as E

    d = 0
    while isinstance(e, E.LazyIndexMap):
        d += 1
        e = e._data
    return d


def nd_index_sets(shape, rng=None):
    """(class, (k, ndim) int64 array) deterministic index sets + optional random ones"""
    N = int(np.prod(shape))
    out = []
    for icls, flat in index_sets(N, rng, few=True) + ([("unsorted", list(range(N))[::-1])] if N > 1 else []):
        if icls == "repeated_sorted":
            icls = "repeated"
        idx = np.column_stack(np.unravel_index(np.array(flat, dtype=np.int64), shape)).astype(np.int64)
        out.append((icls, idx))
    nd = len(shape)
    if min(shape) >= 2 and N > nd:
        # k == ndim points with every coordinate >= 1: a wrong index map can stay in range
        sub = tuple(s - 1 for s in shape)
        M = int(np.prod(sub))
        flat = [(i * 3 + 1) % M for i in range(nd)]
        inner = np.column_stack(np.unravel_index(np.array(flat), sub)).astype(np.int64) + 1
        out.append(("unsorted", inner))
    if nd == 1 and N >= 4:
        # three indices on a flat view: k equals the rank of a 3-D base below a Flattened layer
        flat = [N - 1, N // 2, N - 1 - N // 3]
        out.append(("unsorted", np.array(flat, dtype=np.int64)[:, None]))
    if N > nd:  # k == ndim on purpose (shape-broadcast coincidences)
        flat = [(i * 5 + 1) % N for i in range(nd)]
        out.append(("unsorted" if flat != sorted(flat) else "sorted",
                    np.column_stack(np.unravel_index(np.array(flat), shape)).astype(np.int64)))
    return out


def nd_masks(X, rng=None):
    out = [("all", np.ones(X.shape, bool)), ("filled", X.astype(bool))]
    if X.size >= 2:
        m = (np.arange(X.size) % 3 == 1).reshape(X.shape)
        out.append(("pattern", m))
    else:
        out.append(("none", np.zeros(X.shape, bool)))
    if rng is not None and X.size >= 2:
        out.append(("random", rng.random(X.shape) < 0.5))
    return out


LIGHT_READS = ("dense", "sum", "is_empty", "sparse_indices", "sparse_values", "gather_nd", "mask", "stripped")


def read_battery(run, enc, X, recipe, rng=None, only=None, marks="", label=None, rfmt="%s", light=False,
                 fresh=None, source=None):
    """
    Every read of `enc` against the reference array X.  Returns the chain label.
    `rfmt` renames the reads of a later pass of a read history ('%s@again': the same object read a
    second time after the whole battery; 'base[Sparse].%s': an object below the view, read after the
    view was read); `light` keeps one index set / mask per read (the later passes of a history).
    """
    label = (chain_of(enc) + marks) if label is None else label
    nd = X.ndim
    nzcount = int(np.count_nonzero(X))
    is_bool = X.dtype == bool
    # digest of (array, recipe) computed once per battery, handed to run.case as bytes
    digest = (hashlib.blake2b(("%s|%s|%r|" % (X.dtype, X.shape, recipe)).encode() + np.ascontiguousarray(X).tobytes(),
                              digest_size=12).digest(),)
    seen = {}

    def cell(read, thunk, pred, sub=None, refusals=(), **extra):
        if only is not None and read != only:
            return None
        if light and read not in LIGHT_READS:
            return None
        nonlocal enc
        base_read = read
        read = rfmt % read
        sym, detail = _outcome(thunk, pred)
        if sym in refusals:
            # an input class the encoding may refuse (loudly, with the exception of a bad index)
            run.count("enc_refused:%s|%s" % (base_read, sym))
            run.state("cell", (label, read, "refused"))
            return "refused"
        plain_label = None
        if sym != "ok" and fresh is not None:
            # is it the history, or is the plain cell broken?  the same read on a never-read object
            kept = enc
            try:
                enc, plain_label = fresh()
                fsym, fdetail = _outcome(thunk, pred)
            except Exception:
                fsym = "ok"
            finally:
                enc = kept
            if fsym == "ok":
                plain_label = None
            else:
                sym, detail, read = fsym, fdetail, base_read
        lab = label if plain_label is None else plain_label
        run.count("enc_reads")
        run.count("table:%s|%s|%s" % (lab, read, sym))
        run.state("cell", (lab, read, sym))
        run.state("chain", lab)
        # arrays inside `sub` go in as digest parts of their own (bytes, not repr)
        subparts = tuple((str(q.shape).encode() + q.tobytes()) if isinstance(q, np.ndarray) else q
                         for q in (sub if isinstance(sub, tuple) else (sub,)))
        run.case("enc:" + base_read + (rfmt[rfmt.index("%s") + 2:] if read != base_read else ""), lab, read,
                 *subparts, *digest, nontrivial=X.size > 0)
        if sym != "ok":
            # `array` is what the recipe starts from (replay rebuilds the views from it), not the view's reference
            case = {"part": "enc", "array": _pack(X if source is None else source), "recipe": recipe, "read": read,
                    "chain": lab, "sub": sub, "observed": detail}
            case.update(extra)
            # the form of the index argument (list, other integer dtype, negative entries) is dealt with by
            # the layer that first touches it: the key carries the outermost class only, the symptom tells the
            # layers apart (the full chain is in the witness and in the table counters)
            klab = _outer_label(enc) if base_read in ARG_FORM_READS else lab
            run.violation(
                "enc=%s read=%s%s sym=%s" % (klab, read, " in=empty" if nzcount == 0 and base_read in EMPTY_READS else "", sym),
                "%s.%s does not answer like the dense array it represents" % (lab, read.split(":")[0]),
                case,
            )
        return sym

    def same(g, exp):
        g = np.asarray(g)
        return g.shape == exp.shape and bool(np.array_equal(g, exp))

    cell("dense", lambda: enc.dense, lambda g: same(g, X))
    cell("shape", lambda: enc.shape, lambda g: tuple(int(s) for s in g) == X.shape)
    cell("size", lambda: enc.size, lambda g: np.ndim(g) == 0 and int(g) == X.size)
    cell("sum", lambda: enc.sum, lambda g: np.ndim(g) == 0 and g == X.sum())
    cell("is_empty", lambda: enc.is_empty, lambda g: np.ndim(g) == 0 and bool(g) == (nzcount == 0))

    exp_rows = sorted(map(tuple, np.argwhere(X).tolist()))

    def norm_indices(g):
        g = np.asarray(g)
        if nzcount == 0:
            return [] if g.size == 0 else None
        if g.ndim == 1 and nd == 1:
            g = g[:, None]
        if g.shape != (nzcount, nd) or g.dtype.kind not in "iu":
            return None
        return g

    def p_si(g):
        g = norm_indices(g)
        if g is None:
            return False
        return sorted(map(tuple, np.asarray(g).tolist())) == exp_rows if nzcount else True

    def read_si():
        g = enc.sparse_indices
        # what this read answered, kept by value: the oracle itself never reads the object (an oracle
        # that reads twice would hide a read that toggles state) and the answer is looked at later
        seen["si"] = np.array(g, copy=True)
        return g

    si_sym = cell("sparse_indices", read_si, p_si)

    def p_sv(g):
        g = np.asarray(g)
        if g.shape != (nzcount,):
            return g.size == 0 and nzcount == 0
        if sorted(g.tolist()) != sorted(X[X != 0].tolist()):
            return False
        if si_sym == "ok" and nzcount:
            si = norm_indices(seen["si"])
            return bool(np.array_equal(X[tuple(np.asarray(si).T)], g))
        return True

    cell("sparse_values", lambda: enc.sparse_values, p_sv)

    if X.size:
        gathers_ok = True  # the plain int64-array gathers of this object all answered right
        isets = nd_index_sets(X.shape, rng)
        for icls, idx in ([s for s in isets if len(s[1]) > 1][:1] if light else isets):
            exp = X[tuple(idx.T)]
            k = len(idx)
            read = "gather_nd:single" if k == 1 else "gather_nd"
            run.state("index_class", (read, icls))
            r = cell(read, lambda: enc.gather_nd(idx.copy()), lambda g: same(g, exp), sub=(icls, idx), idx=idx,
                     idx_class=icls)
            gathers_ok = gathers_ok and r in ("ok", None)
            if nd == 1 and hasattr(enc, "gather"):
                flat = idx[:, 0]
                r = cell("gather:array", lambda: enc.gather(flat.copy()), lambda g: same(g, exp), sub=(icls, idx),
                         idx=flat, idx_class=icls)
                gathers_ok = gathers_ok and r in ("ok", None)
                cell("gather:list", lambda: enc.gather([int(i) for i in flat]), lambda g: same(g, exp),
                     sub=(icls, idx), idx=flat, idx_class=icls)
        if not light and not gathers_ok:
            run.count("enc_index_forms_not_judged_gather_broken")  # nothing to learn from the form of the argument
        if not light and gathers_ok:
            # the same index set in the other forms the quantifier names ("list or array"): a nested python
            # list, an index array of another integer dtype; and with negative entries, which the dense array
            # reads from the end: an encoding may refuse them (IndexError / ValueError), it may not answer
            # something else
            icls, idx = ([s_ for s_ in isets if len(s_[1]) > 1] or isets)[0]
            exp = X[tuple(idx.T)]
            cell("gather_nd:list", lambda: enc.gather_nd(idx.tolist()), lambda g: same(g, exp), sub=(icls, idx),
                 idx=idx, idx_class=icls)
            if int(idx.max()) < 128:
                for dn in ("uint8", "int32"):
                    cell("gather_nd:idx_" + dn, lambda: enc.gather_nd(idx.astype(dn)), lambda g: same(g, exp),
                         sub=(icls, idx), idx=idx, idx_class=icls)
            neg = idx.copy()
            wrap = (np.indices(neg.shape).sum(axis=0) % 2 == 0)
            neg[wrap] -= np.broadcast_to(np.array(X.shape, dtype=np.int64), neg.shape)[wrap]
            cell("gather_nd:negative", lambda: enc.gather_nd(neg.copy()), lambda g: same(g, X[tuple(neg.T)]),
                 sub=(icls, neg), idx=neg, idx_class=icls, refusals=NEGATIVE_REFUSALS)
            if nd == 1 and hasattr(enc, "gather"):
                cell("gather:negative", lambda: enc.gather(neg[:, 0].copy()), lambda g: same(g, X[neg[:, 0]]),
                     sub=(icls, neg), idx=neg[:, 0], idx_class=icls, refusals=NEGATIVE_REFUSALS)
        for mcls, m in nd_masks(X, rng)[: 1 if light else None]:
            exp = X[m]
            run.state("mask_class", mcls)
            cell("mask", lambda: enc.mask(m.copy()), lambda g: same(g, exp), sub=(mcls, m), mask_class=mcls,
                 mask=m.astype(int))
        # get_value at a few positions
        N = X.size
        for f in sorted({N - 1, N // 2}):
            pos = tuple(int(i) for i in np.unravel_index(f, X.shape))
            exp = X[pos]

            def gv():
                forms = [pos, np.array(pos, dtype=np.int64)] + ([pos[0]] if nd == 1 else [])
                err = None
                for i, form in enumerate(forms):
                    try:
                        r = enc.get_value(form)
                    except Exception as e:
                        err = e  # the last form's refusal is the one reported
                        continue
                    run.state("get_value_form_accepted", (label, ("tuple", "array", "int")[i]))
                    return r
                raise err

            cell("get_value", gv, lambda g: np.size(g) == 1 and bool(np.asarray(g).reshape(()) == exp), sub=pos,
                 index=list(pos))

    def p_stripped(g):
        e2, pad = g
        pad = np.asarray(pad)
        if pad.shape != (nd, 2) or pad.dtype.kind not in "iu" or (pad < 0).any():
            return False
        d = np.asarray(e2.dense)
        if d.ndim != nd or tuple(int(s) for s in e2.shape) != d.shape:
            return False
        if tuple((pad.sum(axis=1) + np.array(d.shape)).tolist()) != X.shape:
            return False
        if not np.array_equal(np.pad(d, pad.tolist()), X):
            return False
        if nzcount:
            nz = np.argwhere(X)
            lo = nz.min(axis=0)
            hi = np.array(X.shape) - 1 - nz.max(axis=0)
            return pad[:, 0].tolist() == lo.tolist() and pad[:, 1].tolist() == hi.tolist()
        return True

    if X.size:
        cell("stripped", lambda: enc.stripped, p_stripped)
    cell("copy", lambda: enc.copy(),
         lambda c: c is not enc and tuple(int(s) for s in c.shape) == X.shape and same(c.dense, X))
    if nd == 1 and X.size:
        flat = [int(v) for v in X.tolist()]
        for dname in READ_DTYPES:
            cell("run_length_data", lambda: enc.run_length_data(dtype=COUNT_DTYPES[dname]),
                 lambda g: np.asarray(g).ndim == 1 and ref_rle_decode(g) == flat
                 and _counts_fit(np.asarray(g)[1::2], dname), sub=dname, dtype=dname)
            if is_bool:
                cell("binary_run_length_data", lambda: enc.binary_run_length_data(dtype=COUNT_DTYPES[dname]),
                     lambda g: np.asarray(g).ndim == 1 and ref_brle_decode(g) == flat and _counts_fit(g, dname),
                     sub=dname, dtype=dname)
    return label


def _pack(X):
    X = np.asarray(X)
    runs = runs_of(X.reshape(-1).tolist())
    return {"shape": list(X.shape), "dtype": str(X.dtype), "runs": runs}


def _unpack(d):
    return np.array(expand(d["runs"]), dtype=np.dtype(d["dtype"])).reshape(d["shape"])


def _build(recipe, X, nops=None):
    """(encoding, reference array, marks, stages) of the first `nops` view steps of a recipe"""
    stages = []
    as_dtype = recipe.get("as")
    enc = build_base(recipe["base"], X, recipe.get("cdtype", "int64"), as_dtype)
    ref = np.array(X)
    marks = ""
    if as_dtype is not None:
        # the run-length data holds the values of X, the encoding is declared with another dtype
        ref = ref.astype(np.dtype(as_dtype))
        marks = "{as=%s}" % np.dtype(as_dtype).name
    ops = recipe["ops"] if nops is None else recipe["ops"][:nops]
    for op in ops:
        before = enc
        stages.append((before, ref, marks))
        enc, ref = apply_op(enc, ref, op)
        if op[0] == "reshape" and -1 in tuple(op[1]):
            marks += ".reshape[-1]"  # an inferred axis is its own input class of reshape
            continue
        if not op[0].islower() or _depth(enc) > _depth(before):
            continue
        if enc is before:
            marks += "." + op[0] + "[noop]"
        elif _depth(enc) == 0 or op[0] in ("flip", "transpose"):
            marks += "." + op[0]
    return enc, ref, marks, stages


def run_recipe(run, X, recipe, rng=None, only=None, history=1):
    """
    recipe = {"base":..., "cdtype":..., "ops":[...]}; builds the encoding and reads it.
    The chain label is read off the object built; a public-method step that did not wrap a new
    lazy layer (eager Dense / RLE / BRLE results, merged flips / transposes) is kept in the label
    as a '.method' suffix so that the cell says how the object was obtained.

    history >= 1: read histories on the SAME objects after the plain battery: every read once more
    (no read may change what a later read answers: caches, arrays shared between a view and what it
    wraps), then every object the view was derived from (reading a view must not disturb its base).
    Same oracle, same reference arrays.  A history cell that is not ok is re-executed on a freshly
    built, never-read object: if that fails too the history is not what matters and the plain cell
    `enc=<chain> read=<read>` is what gets reported.
    """
    try:
        enc, ref, marks, stages = _build(recipe, X)
    except Exception as e:
        label = "%s%s" % (recipe["base"], "".join("." + str(o[0]) for o in recipe["ops"]))
        run.count("table:%s|build|raised:%s" % (label, type(e).__name__))
        run.state("cell", (label, "build", "raised:" + type(e).__name__))
        run.case("enc:build", label, X, repr(recipe))
        run.violation(
            "enc=%s read=build sym=raised:%s" % (label, type(e).__name__),
            "building the view raised",
            {"part": "enc", "array": _pack(X), "recipe": recipe, "read": "build", "observed": repr(e)[:240]},
        )
        return None
    label = read_battery(run, enc, ref, recipe, rng=rng, only=only, marks=marks, source=X)
    if history and ref.size:
        read_battery(run, enc, ref, recipe, rng=None, only=only, label=label, rfmt="%s@again", light=history < 2,
                     fresh=lambda: (_build(recipe, X)[0], label), source=X)
        done = {id(enc)}
        for k in range(len(stages) - 1, -1, -1):
            below, bref, bmarks = stages[k]
            if id(below) in done:
                continue
            done.add(id(below))
            blabel = chain_of(below) + bmarks
            read_battery(run, below, bref, recipe, rng=None, only=only, label=label,
                         rfmt="base[%s].%%s@after_view" % blabel, light=True,
                         fresh=lambda k=k, blabel=blabel: (_build(recipe, X, k)[0], blabel), source=X)
    return label


def _subsets(n):
    for k in range(1, n + 1):
        yield from itertools.combinations(range(n), k)


def _perms(nd):
    return [p for p in itertools.permutations(range(nd)) if p != tuple(range(nd))]


def _reshapes(shape, inferred=True):
    """target shapes; with `inferred` also the ones that leave an axis to be inferred (-1), as np.reshape allows"""
    nd, N = len(shape), int(np.prod(shape))
    if nd == 3:
        out = [(shape[0] * shape[1], shape[2]), (shape[2], shape[0], shape[1]), (1, N, 1)]
        more = [(shape[0], -1), (-1, shape[2], shape[1])]
    elif nd == 2:
        out = [(shape[1], shape[0]), (1, shape[0], shape[1])]
        more = [(-1, shape[0]), (1, -1, 1)]
    else:
        out = [(1, N), (N, 1, 1)] + ([(2, N // 2)] if N % 2 == 0 and N else [])
        more = [(-1, 1)] + ([(2, -1)] if N % 2 == 0 and N else [])
    return out + (more if inferred and N else [])


def single_views(shape):
    """every single public-method view step of an array of this shape"""
    nd = len(shape)
    out = [["flip", list(ax)] for ax in _subsets(nd)]
    out += [["transpose", list(p)] for p in _perms(nd)]
    out += [["reshape", list(sh)] for sh in _reshapes(shape)]
    out.append(["flat"])
    return out


def _shape_after(shape, op):
    r = np.zeros(shape, dtype=bool)
    name, arg = op[0].lower(), (op[1] if len(op) > 1 else None)
    if name == "transpose":
        return r.transpose(arg).shape
    if name == "reshape":
        return tuple(arg)
    if name == "flat":
        return (r.size,)
    return tuple(shape)


UNSIGNED_COUNTS = ("uint8", "uint16", "uint32", "uint64")


def unsigned_count_recipes(X, singles):
    """
    Views and compositions of views over run-length data with unsigned counts (uint8 is what every binvox
    file holds; the size of such an encoding is a np.uint64, and np.uint64 with a python int or an int64
    promotes to float64): every reshape / flat / one transpose, each followed by flip and by flat, flat
    followed by flip (what `grid.encoding.flat.flip(0)` builds on a loaded grid), the exporter's route
    flip -> transpose -> flat, and the eager flip of the 1-D encoding.
    """
    out = []
    nd = X.ndim
    firsts = [o for o in singles if o[0] in ("reshape", "flat")] + [o for o in singles if o[0] == "transpose"][:1]
    for cd in UNSIGNED_COUNTS:
        full = cd in ("uint8", "uint64")  # the narrowest and the one that promotes to float; the others: RLE, fewer views
        for base in ("RLE", "BRLE") if (X.dtype == bool and full) else ("RLE",):
            if cd != "uint8":
                out.append({"base": base, "cdtype": cd, "ops": []})
            for op1 in firsts if full else [o for o in firsts if o[0] == "flat"] + firsts[:1]:
                if cd != "uint8":
                    out.append({"base": base, "cdtype": cd, "ops": [op1]})  # uint8: built for every array
                s1 = _shape_after(X.shape, op1)
                out.append({"base": base, "cdtype": cd, "ops": [op1, ["flip", [0]]]})
                if len(s1) > 1:
                    out.append({"base": base, "cdtype": cd, "ops": [op1, ["flip", [len(s1) - 1]]]})
                    out.append({"base": base, "cdtype": cd, "ops": [op1, ["flat"]]})
                    out.append({"base": base, "cdtype": cd, "ops": [op1, ["flat"], ["flip", [0]]]})
            out.append({"base": base, "cdtype": cd, "ops": [["flip", [0]]]})
            if nd == 3 and full:
                out.append({"base": base, "cdtype": cd,
                            "ops": [["flip", [0, 2]], ["transpose", [0, 2, 1]], ["flat"]]})
    return out


def declared_dtype_recipes(X, singles):
    """
    RunLengthEncoding(data, dtype=...): "dtype of encoded data. Each second value of data is cast to this
    dtype": integer valued run-length data declared bool (an occupancy view of a label volume) or declared
    with a narrower integer (values wrap; a stored non-zero value can read as zero).  The reference array is
    X.astype(dtype).
    """
    out = []
    if X.dtype.kind not in "iu":
        return out
    decl = ["bool"] + (["uint8"] if X.size and int(X.max()) > 255 else [])
    # the lazy views hand sum / emptiness / filled values on to what they wrap: the bare encoding (for an N-D
    # array that is Shaped(RLE)) and the one step that builds a new run-length encoding, the flip of a 1-D one
    for as_dtype in decl:
        cd = "uint8" if X.dtype.itemsize == 1 else "int64"  # narrow values: values and counts share the narrow array
        out.append({"base": "RLE", "cdtype": cd, "as": as_dtype, "ops": []})
        if X.ndim == 1 and as_dtype == "bool" and cd == "int64":
            out.append({"base": "RLE", "cdtype": cd, "as": as_dtype, "ops": [["flip", [0]]]})
    return out


def recipes_for(X, level=2, extra=False):
    """
    level 0: base encodings only; 1: + every single view; 2: + two-view compositions (lazy views
    exist through the public API only on Sparse and on reshaped RLE, so compositions are built
    there) and the binvox exporter's route flip -> transpose -> flat.
    extra: + views and compositions over every unsigned count dtype.
    Integer valued arrays always get the run-length encodings with a declared dtype of their own.
    """
    out = []
    nd = X.ndim
    if X.size:
        singles_ = single_views(X.shape)
        out += declared_dtype_recipes(X, singles_)
        if extra and level >= 1:
            out += unsigned_count_recipes(X, singles_)
    bases = [("Dense", "int64"), ("RLE", "int64")]
    if nd == 3 or (nd == 2 and X.size <= 30):
        bases.append(("Sparse", "int64"))
    if X.dtype == bool:
        bases.append(("BRLE", "int64"))
    for base, cd in bases:
        out.append({"base": base, "cdtype": cd, "ops": []})
    # narrow count dtype (what binvox files hold): base reads only
    out.append({"base": "RLE", "cdtype": "uint8", "ops": []})
    if X.dtype == bool:
        out.append({"base": "BRLE", "cdtype": "uint8", "ops": []})
    if level == 0:
        return out
    singles = single_views(X.shape)
    # narrow counts below a view (what load_binvox builds: uint8 RLE -> reshape -> transpose): every reshape
    # (the size of a narrow-count encoding is a numpy scalar of its own kind), flat, one transpose
    for base in ("RLE", "BRLE") if X.dtype == bool else ("RLE",):
        for op in [o for o in singles if o[0] in ("reshape", "flat")] + [o for o in singles if o[0] == "transpose"][:1]:
            out.append({"base": base, "cdtype": "uint8", "ops": [op]})
    for base, cd in bases:
        if base == "Sparse" and nd != 3:
            continue
        for op in singles:
            if base == "BRLE" and nd > 1 and op not in (["transpose", [0, 2, 1]], ["flat"]):
                continue  # same lazy classes as over RLE; keep the binvox transpose and flat
            out.append({"base": base, "cdtype": cd, "ops": [op]})
    # eager results that keep a numpy *view* as their data (DenseEncoding.transpose / reshape / flat hand
    # the strided view on): a second step then works on memory that is not C ordered (a full reversal of
    # the axes is Fortran ordered, so is any permutation that only moves unit axes)
    if nd == 2:
        for op2 in [["flat"]] + [["reshape", list(sh)] for sh in _reshapes(X.shape[::-1])[:2]] + [["flip", [1]]]:
            out.append({"base": "Dense", "cdtype": "int64", "ops": [["transpose", [1, 0]], op2]})
    if level == 1 or nd != 3:
        return out
    firsts = [["transpose", list(p)] for p in _perms(3)] + [["flip", [0, 2]], ["reshape", list(_reshapes(X.shape)[1])]]
    if not X.any() or np.count_nonzero(X) <= 3:
        firsts = []  # memory order shows on patterned arrays only
    for op1 in firsts:
        s1 = _shape_after(X.shape, op1)
        seconds = [["flat"]] + [["reshape", list(sh)] for sh in _reshapes(s1)[:2] + _reshapes(s1)[3:4]]
        seconds += [["transpose", [2, 1, 0]], ["flip", [2]]]
        for op2 in seconds:
            out.append({"base": "Dense", "cdtype": "int64", "ops": [op1, op2]})
    # two-view compositions through the public API
    lazy1 = [["flip", [0]], ["flip", [0, 2]], ["flip", [0, 1, 2]], ["transpose", [0, 2, 1]], ["transpose", [1, 2, 0]],
             ["transpose", [2, 0, 1]]]
    for op1 in lazy1:
        s1 = _shape_after(X.shape, op1)
        seconds = [["flip", [1]], ["flip", [0, 1, 2]], ["transpose", [1, 0, 2]], ["transpose", [1, 2, 0]], ["flat"]]
        if op1[0] == "flip":
            seconds.append(["flip", list(op1[1])])  # flip twice = nothing
        for op2 in seconds:
            out.append({"base": "Sparse", "cdtype": "int64", "ops": [op1, op2]})
    for base in ("Sparse", "RLE"):
        out.append({"base": base, "cdtype": "int64", "ops": [["flip", [0, 2]], ["transpose", [0, 2, 1]], ["flat"]]})
    return out


def enumerated_arrays():
    """seed-independent arrays: (tag, array)"""
    out = []

    def fills(shape):
        N = int(np.prod(shape))
        z = np.zeros(shape, dtype=bool)
        yield "empty", z
        yield "full", ~z
        a = z.copy()
        a.flat[0] = True
        yield "corner0", a
        a = z.copy()
        a.flat[N - 1] = True
        yield "corner1", a
        if N > 2:
            a = z.copy()
            a.flat[N // 2] = True
            yield "single", a
            ii = np.arange(N).reshape(shape)
            yield "mod3", (ii % 3 == 1)
            yield "checker", (np.indices(shape).sum(axis=0) % 2 == 0)
            a = ~z
            a.flat[0] = False
            a.flat[N - 1] = False
            yield "hollow_ends", a
        if N > 6 and len(shape) == 3:
            # exactly ndim filled voxels away from the low faces: an (n, ndim) index array with n == ndim
            a = z.copy()
            for f in (N - 1, N // 2, N - 1 - N // 3):
                a.flat[f] = True
            yield "three", a

    for shape in ((2, 3, 4), (1, 3, 2), (3, 1, 1), (1, 1, 1), (2, 2, 2)):
        for tag, a in fills(shape):
            out.append(("3d:%s:%s" % ("x".join(map(str, shape)), tag), a))
    for shape in ((3, 4), (1, 5)):
        for tag, a in fills(shape):
            if tag not in ("corner0", "single", "hollow_ends"):
                out.append(("2d:%s:%s" % ("x".join(map(str, shape)), tag), a))
    for shape in ((1,), (2,), (8,)):
        for tag, a in fills(shape):
            if tag not in ("corner0", "single"):
                out.append(("1d:%s:%s" % (shape[0], tag), a))
    # integer arrays of a narrow dtype (the values of an RLE share one array with the counts): values > 1 in
    # runs long enough that value * count leaves the dtype
    u8 = np.array([3] * 200 + [0] * 5 + [2] * 300 + [1] * 95, dtype=np.uint8)
    out.append(("1d:600:u8_runs", u8))
    out.append(("3d:6x10x10:u8_runs", u8.reshape(6, 10, 10)))
    out.append(("3d:2x3x4:u8", (np.arange(24).reshape(2, 3, 4) * 7 % 4).astype(np.uint8)))
    out.append(("1d:9:i16", np.array([0, 2, 2, 0, 1, 3, 3, 3, 0], dtype=np.int16)))
    # values beyond a narrower declared dtype: 256 reads as 0 and 513 as 1 when declared uint8
    wide = np.array([0, 300, 300, 0, 256, 256, 2, 0, 513, 513, 513, 0], dtype=np.int64)
    out.append(("1d:12:wide", wide))
    out.append(("3d:2x3x2:wide", wide.reshape(2, 3, 2)))
    out.append(("1d:4:wide_reads_empty", np.array([256, 256, 0, 512], dtype=np.int64)))
    out.append(("1d:4:int_zeros", np.zeros(4, dtype=np.int64)))
    out.append(("3d:2x2x2:int_zeros", np.zeros((2, 2, 2), dtype=np.int64)))
    # runs longer than uint8 counts: 7x8x9 = 504 full / nearly full, 1-D 600
    big = np.ones((7, 8, 9), dtype=bool)
    out.append(("3d:7x8x9:full", big))
    b2 = big.copy()
    b2[3, 4, 5] = False
    out.append(("3d:7x8x9:one_hole", b2))
    b3 = np.zeros((7, 8, 9), dtype=bool)
    b3[6, 7, 8] = True
    out.append(("3d:7x8x9:last_only", b3))
    l1 = np.zeros(600, dtype=bool)
    l1[300:] = True
    out.append(("1d:600:half", l1))
    out.append(("3d:3x3x3:mod3", (np.arange(27).reshape(3, 3, 3) % 3 == 1)))
    t3 = np.zeros((3, 3, 3), dtype=bool)
    t3.flat[[26, 13, 17]] = True
    out.append(("3d:3x3x3:three", t3))
    c3 = np.ones((3, 3, 3), dtype=bool)
    c3[0, 1, 2] = c3[2, 0, 1] = False
    out.append(("3d:3x3x3:hollow_ends", c3))
    # small integer valued
    out.append(("3d:2x2x2:int_full", (np.arange(8).reshape(2, 2, 2) * 5 % 3 + 1).astype(np.int64)))
    iv = (np.arange(24).reshape(2, 3, 4) * 7 % 4).astype(np.int64)
    out.append(("3d:2x3x4:int", iv))
    out.append(("1d:9:int", np.array([0, 2, 2, 0, 1, 3, 3, 3, 0], dtype=np.int64)))
    out.append(("2d:3x3:int", np.array([[0, 2, 0], [1, 1, 0], [0, 0, 3]], dtype=np.int64)))
    # ndim filled voxels with distinct values: a wrong index map can report the right *set* of indices
    # while the values are attached to the wrong ones
    out.append(("2d:1x3:int", np.array([[0, 1, 2]], dtype=np.int64)))
    return out


def random_array(rng):
    nd = int(rng.choice([1, 2, 3, 3, 3]))
    shape = tuple(int(x) for x in rng.integers(1, 6, size=nd))
    dens = float(rng.choice([0.1, 0.3, 0.5, 0.8, 0.95]))
    if rng.random() < 0.2:
        return "rand:int", (rng.integers(0, 4, size=shape) * (rng.random(shape) < dens)).astype(np.int64)
    return "rand:bool", rng.random(shape) < dens


# arrays that also get the views / compositions over every unsigned count dtype (non-cubic, cubic, 2-D, 1-D,
# 1-D with runs beyond uint8)
EXTRA_TAGS = ("3d:2x3x4:mod3", "3d:2x2x2:hollow_ends", "3d:3x3x3:three", "2d:3x4:mod3", "1d:8:mod3", "1d:600:half",
              "3d:1x3x2:mod3", "3d:2x3x4:empty", "1d:8:empty", "1d:9:int", "3d:2x3x4:int", "3d:2x2x2:int_zeros", "1d:4:int_zeros")
NO_HISTORY = ("empty", "full", "corner0", "corner1", "single", "last_only", "checker")


def part_encodings(run, frac_end):
    item = 0
    arrays = enumerated_arrays()
    run.note("enc_enumerated_arrays", len(arrays))
    # a time-boxed run reads the arrays that carry the most classes first: the ones with the unsigned-count
    # compositions, then the integer valued ones (declared dtypes), then the rest in the order of the list
    arrays.sort(key=lambda t: 0 if t[0] in EXTRA_TAGS else 1 if t[1].dtype.kind in "iu" else 2)
    deep = {(2, 3, 4): ("mod3", "checker", "hollow_ends", "empty", "three"),
            (2, 2, 2): ("mod3", "hollow_ends", "corner1", "int_full", "three"),
            (3, 3, 3): ("mod3", "hollow_ends", "three"), (1, 3, 2): ("mod3",)}
    for tag, X in arrays:
        two = X.ndim == 3 and tag.split(":")[-1] in deep.get(X.shape, ())
        for rec in recipes_for(X, 2 if two else 1, extra=tag in EXTRA_TAGS):
            item += 1
            if not run.mine(item):
                continue
            run.state("array_class", tag.split(":")[0] + ":" + tag.split(":")[-1])
            # read histories where a disturbed state can show: arrays that no flip / transpose maps to itself
            # (the views over the other unsigned count widths are read once: their histories are those of uint8)
            wide_counts = rec.get("cdtype") in UNSIGNED_COUNTS[1:] or (rec.get("cdtype") == "uint8" and len(rec["ops"]) > 1)
            run_recipe(run, X, rec, history=0 if (tag.split(":")[-1] in NO_HISTORY or wide_counts) else 1)
        if run.out_of_time(frac_end * 0.97):
            run.count("enc_enumeration_cut_short")
            break
    run.note("elapsed_after_enumerated_encodings", round(run.elapsed(), 1))
    # random arrays
    while not run.out_of_time(frac_end):
        tag, X = random_array(run.rng)
        recs = recipes_for(X, 2 if X.size <= 40 else 1, extra=X.size <= 40)
        for i in run.rng.permutation(len(recs))[:16]:
            run.state("array_class", tag)
            run_recipe(run, X, recs[int(i)], rng=run.rng)
        if run.tier == "quick" and run.counters.get("enc_reads", 0) > 600000:
            break


# =============================================================================================
# (3) VoxelGrid


def _rot(rng):
    q = rng.normal(size=4)
    q /= np.linalg.norm(q)
    w, x, y, z = q
    return np.array([
        [1 - 2 * (y * y + z * z), 2 * (x * y - z * w), 2 * (x * z + y * w)],
        [2 * (x * y + z * w), 1 - 2 * (x * x + z * z), 2 * (y * z - x * w)],
        [2 * (x * z - y * w), 2 * (y * z + x * w), 1 - 2 * (x * x + y * y)],
    ])


def grid_transforms(rng):
    """(class, 4x4, axis_aligned, uniform_abs_scale)"""
    out = []

    def M(L, t=(0, 0, 0)):
        m = np.eye(4)
        m[:3, :3] = L
        m[:3, 3] = t
        return m

    t = rng.uniform(-5, 5, size=3)
    out.append(("identity", np.eye(4), True, True))
    out.append(("translation", M(np.eye(3), t), True, True))
    for s in (0.25, 3.0, 1e-3, 1e3):
        out.append(("scale_uniform", M(np.eye(3) * s, t * s), True, True))
    out.append(("scale_axes", M(np.diag([0.5, 2.0, 1.25]), t), True, False))
    for ax in ((0,), (1,), (2,), (0, 1), (0, 2), (1, 2)):
        d = np.ones(3)
        d[list(ax)] = -1
        out.append(("mirror_axis" if len(ax) == 1 else "flip_two_axes", M(np.diag(d) * 0.5, t), True, True))
    out.append(("mirror_point", M(-np.eye(3) * 2.0, t), True, True))
    R = _rot(rng)
    out.append(("rotation", M(R, t), False, True))
    out.append(("similarity", M(R * 0.75, t), False, True))
    out.append(("mirror_rotation", M(R @ np.diag([1, -1, 1.0]) * 1.5, t), False, True))
    Sh = np.eye(3)
    Sh[0, 1] = 0.4
    Sh[1, 2] = -0.3
    out.append(("shear", M(Sh, t), False, False))
    while True:
        L = rng.normal(size=(3, 3))
        if np.linalg.cond(L) < 50 and abs(np.linalg.det(L)) > 0.05:
            break
    if np.linalg.det(L) < 0:
        L[0] *= -1
    out.append(("affine", M(L, t), False, False))
    Lm = L.copy()
    Lm[1] *= -1
    out.append(("affine_mirror", M(Lm, t), False, False))
    return out


def grid_arrays(rng):
    out = []
    out.append(("full", np.ones((1, 1, 1), dtype=bool)))
    for shape in ((7, 7, 7), (2, 2, 2), (3, 3, 3), (2, 3, 4), (1, 4, 2), (4, 4, 4)):
        z = np.zeros(shape, dtype=bool)
        N = z.size
        out.append(("empty", z))
        out.append(("full", ~z))
        a = z.copy()
        a.flat[N - 1] = True
        out.append(("corner", a))
        out.append(("mod3", (np.arange(N).reshape(shape) % 3 == 1)))
        out.append(("random", rng.random(shape) < 0.4))
    return out


def check_grid(run, X, base, cdtype, tcls, Mx, aligned, uniform, rng=None, only=None, labels=False,
               binvox_only=False):
    """
    labels: the grid's encoding is run-length data of a label volume (0 empty, 1..3 material) declared bool,
    an occupancy view (base RLE only).  binvox_only: only the export / reload checks.
    """
    import trimesh
    from trimesh.exchange import binvox
    from trimesh.voxel.base import VoxelGrid

    X = np.array(X, dtype=bool)
    Mx = np.array(Mx, dtype=np.float64)
    L = Mx[:3, :3]
    scale = abs(np.linalg.det(L)) ** (1 / 3.0)
    tsize = max(1.0, float(np.abs(Mx[:3, 3]).max()))
    cubic = len(set(X.shape)) == 1
    ename = base if cdtype == "int64" or base in ("Dense", "Sparse") else "%s[%s]" % (base, cdtype)
    XL = X
    if labels:
        XL = X * (1 + np.arange(X.size).reshape(X.shape) % 3)
        ename += "{as=bool}"
    # coarse transform group for the checks that go through the encoding
    grp = ("negscale" if (np.diag(L) < 0).any() else "plain") if aligned else "rotated"

    def mk(M=None):
        return VoxelGrid(build_base(base, XL, cdtype, "bool" if labels else None),
                         transform=(Mx if M is None else M).copy())

    def vcheck(name, thunk, pred, key, refusals=(), **extra):
        if only is not None and name != only:
            return None
        sym, detail = _outcome(thunk, pred)
        if sym in refusals:
            run.count("vg:%s|%s|refused" % (name, tcls))
            run.state("vg_cell", (name, tcls, ename, "refused"))
            run.case("vg:" + name, name, tcls, ename, X, Mx, nontrivial=False)
            return "refused"
        run.count("vg_checks")
        run.count("vg:%s|%s|%s" % (name, tcls, sym))
        run.state("vg_cell", (name, tcls, ename, sym))
        run.case("vg:" + name, name, tcls, ename, X, Mx, nontrivial=bool(X.any()) and tcls != "identity")
        if sym != "ok":
            case = {"part": "vg", "check": name, "array": _pack(X), "base": base, "cdtype": cdtype,
                    "tf_class": tcls, "matrix": Mx, "aligned": aligned, "uniform": uniform, "observed": detail,
                    "labels": labels, "binvox_only": binvox_only}
            case.update(extra)
            run.violation(
                "vg=%s %s sym=%s" % (name, key, sym),
                "VoxelGrid %s disagrees with the dense array / transform (%s, %s)" % (name, tcls, ename),
                case,
            )
        return sym

    k_tf = "tf=%s" % tcls  # checks that only involve the transform
    k_enc = "tf=%s enc=%s" % (grp, ename)  # checks that read the encoding

    def maps_and_reads():
        allidx = np.argwhere(np.ones(X.shape, bool)).astype(np.int64)
        extra_idx = np.array([[-1, 0, 0], [0, -2, 5], [X.shape[0], X.shape[1], X.shape[2]], [9, -7, 3]], dtype=np.int64)
        I = np.vstack([allidx, extra_idx])
        exp_pts = I.astype(float) @ L.T + Mx[:3, 3]
        atol = 1e-9 * (scale * 12 + tsize)

        vcheck("indices_to_points", lambda: mk().indices_to_points(I.copy()),
               lambda g: np.asarray(g).shape == exp_pts.shape and np.allclose(g, exp_pts, rtol=0, atol=atol), k_tf)

        def there_and_back():
            vg = mk()
            return vg.points_to_indices(vg.indices_to_points(I.copy()))

        vcheck("points_to_indices_of_indices_to_points", there_and_back,
               lambda g: np.asarray(g).shape == I.shape and np.asarray(g).dtype.kind in "iu" and np.array_equal(g, I), k_tf)
        # points strictly inside cells (|offset| <= 0.4 in index space) map to that cell
        off = (np.indices((len(I), 3)).sum(axis=0) % 5 - 2) * 0.2
        P = (I + off) @ L.T + Mx[:3, 3]
        vcheck("points_to_indices", lambda: mk().points_to_indices(P.copy()), lambda g: np.array_equal(g, I), k_tf)

        def back_to_centres():
            vg = mk()
            return vg.indices_to_points(vg.points_to_indices(P.copy()))

        vcheck("indices_to_points_of_points_to_indices", back_to_centres,
               lambda g: np.allclose(g, exp_pts, rtol=0, atol=atol), k_tf)
        inside = np.all((I >= 0) & (I < np.array(X.shape)), axis=1)
        exp_f = np.zeros(len(I), dtype=bool)
        exp_f[inside] = X[tuple(I[inside].T)]
        vcheck("is_filled", lambda: mk().is_filled(P.copy()),
               lambda g: np.asarray(g).shape == exp_f.shape and np.array_equal(np.asarray(g).astype(bool), exp_f), k_enc)
        # ---- the same maps on ONE grid object across a move: query (this caches the inverse
        # transform), move the grid, query again.  The expected values come from the moved matrix.
        for kind in ("apply_translation", "apply_transform:translation", "apply_scale", "apply_transform:rigid"):
            tvec = np.array([0.75, -1.5, 2.25]) * max(scale, 1e-9)
            if kind == "apply_scale":
                T = np.diag([2.0, 2.0, 2.0, 1.0])
            elif kind == "apply_transform:rigid":
                T = trimesh.transformations.rotation_matrix(0.4, [0.2, -0.5, 0.8], point=[0.1, 0.2, 0.3])
            else:
                T = trimesh.transformations.translation_matrix(tvec)
            M2 = T @ Mx
            P2 = (I + off) @ M2[:3, :3].T + M2[:3, 3]
            exp2 = I.astype(float) @ M2[:3, :3].T + M2[:3, 3]
            atol2 = 1e-9 * (np.abs(M2[:3, :3]).max() * 12 + max(1.0, float(np.abs(M2[:3, 3]).max())))

            def moved(kind=kind, T=T, P2=P2, tvec=tvec):
                vg = mk()
                vg.is_filled(P.copy())
                vg.points_to_indices(P.copy())
                if kind == "apply_translation":
                    vg.apply_translation(tvec)
                elif kind == "apply_scale":
                    vg.apply_scale(2.0)
                else:
                    vg.apply_transform(T.copy())
                return (np.asarray(vg.points_to_indices(P2.copy())), np.asarray(vg.is_filled(P2.copy())).astype(bool),
                        np.asarray(vg.indices_to_points(I.copy())))

            vcheck("query_move_query:" + kind, moved,
                   lambda g, exp2=exp2, atol2=atol2: np.array_equal(g[0], I) and np.array_equal(g[1], exp_f)
                   and np.allclose(g[2], exp2, rtol=0, atol=atol2), k_tf)
        cellvol = abs(np.linalg.det(L))
        nfill = int(X.sum())
        vcheck("filled_count", lambda: mk().filled_count, lambda g: int(g) == nfill, k_enc)
        vcheck("volume", lambda: mk().volume,
               lambda g: np.ndim(g) == 0 and abs(float(g) - nfill * cellvol) <= 1e-9 * nfill * cellvol,
               k_enc if labels else k_tf)
        if nfill:
            exp_c = np.argwhere(X).astype(float) @ L.T + Mx[:3, 3]
            vcheck("points", lambda: mk().points, lambda g: _same_point_set(g, exp_c, atol), k_enc)
            # bounds: corners of every filled cell
            corners = np.array(list(itertools.product((-0.5, 0.5), repeat=3)))
            cc = (np.argwhere(X)[:, None, :] + corners[None]).reshape(-1, 3) @ L.T + Mx[:3, 3]
            lo, hi = cc.min(axis=0), cc.max(axis=0)
            if aligned:
                vcheck("bounds", lambda: mk().bounds, lambda g: np.allclose(g, [lo, hi], rtol=0, atol=atol), k_enc)
            else:
                vcheck("bounds", lambda: mk().bounds,
                       lambda g: np.all(np.asarray(g)[0] <= lo + atol) and np.all(np.asarray(g)[1] >= hi - atol), k_enc)


    nfill = int(X.sum())
    atol = 1e-9 * (scale * 12 + tsize)
    if not binvox_only:
        maps_and_reads()

    # ---- binvox.  The file stores ONE scale, the extent pitch * (n - 1) of the grid, and the exporter documents
    # one restriction: ValueError "Can only export binvox with uniform scale" (extent equal on the three axes).
    # So for every axis-aligned grid: either the export refuses (accepted exactly where the extent is not
    # uniform, or - no pitch is representable - where an axis is one cell thick), or the reloaded grid has the
    # same shape and the same points.  Export variants of one (array, transform):
    #   the transform as it is (cubic or not: `in=` carries noncubic / thin / which axis has the odd extent);
    #   non-cubic grids also with a per-axis pitch that makes the extent of every axis longer than one cell uniform
    thin = min(X.shape) == 1
    variants = []
    if thin and not binvox_only:
        run.skip("binvox: grid one cell thick - judged in the fixed classes of part_voxelgrid_first")
    elif aligned:
        variants.append(Mx)
        if not cubic and uniform:
            Mb = Mx.copy()
            extent = abs(Mx[0, 0]) * (max(X.shape) - 1)
            for a in range(3):
                Mb[a, a] = np.sign(Mx[a, a]) * extent / max(X.shape[a] - 1, 1)
            variants.append(Mb)
    elif cubic and not thin:
        variants.append(Mx)  # rotation / shear: a documented RuntimeError, judged if it answers
    else:
        run.skip("binvox: non-cubic or thin grid with a transform that is not axis aligned")
    for Mb in variants:
        Lb = Mb[:3, :3]
        tags = ([] if cubic else ["noncubic"]) + (["thin"] if thin else [])
        refusals = set()
        if not aligned:
            refusals.add("raised:RuntimeError")  # Transform.scale documents this for rotation / shear
        else:
            ext = np.abs(np.diag(Lb)) * (np.array(X.shape) - 1)
            close = lambda a, b: abs(a - b) <= 1e-9 * max(abs(a), abs(b))  # noqa: E731
            eq = (close(ext[1], ext[2]), close(ext[0], ext[2]), close(ext[0], ext[1]))  # pair that leaves x / y / z out
            if not all(eq):
                # "Can only export binvox with uniform scale"
                tags.append("extent_odd_" + "xyz"[eq.index(True)] if any(eq) else "extent_all_differ")
                refusals |= {"raised:ValueError", "raised:RuntimeError"}
            if thin:
                refusals.add("raised:ValueError")  # pitch * (n - 1) is zero whatever the pitch
            if float((np.abs(np.diag(Lb)) * np.maximum(np.array(X.shape) - 1, 1)).max()) < 1e-6:
                tags.append("tiny_unit")  # where an absolute 1e-8 is not small
        incls = (" in=" + ",".join(tags)) if tags else ""
        exp_c = np.argwhere(X).astype(float) @ Lb.T + Mb[:3, 3]
        # header floats are written with repr(): exact; pitch = scale / (n - 1).  Relative to the grid's own unit
        pmin = float(np.abs(np.diag(Lb)).min()) if aligned else scale
        ptol = 1e-8 * (float(np.abs(Lb).max()) * 12 + float(np.abs(Mb[:3, 3]).max())) + 8e-6 * pmin

        def p_back(back, exp_c=exp_c, ptol=ptol):
            if tuple(int(s) for s in back.shape) != X.shape:
                return False
            if not nfill:
                return not np.asarray(back.encoding.dense).any()
            return bool(np.array_equal(np.asarray(back.encoding.dense).astype(bool).shape, X.shape)) and \
                _same_point_set(back.points, exp_c, ptol)

        for order in ("xzy", "xyz"):
            def roundtrip(Mb=Mb, order=order):
                data = mk(Mb).export(file_type="binvox", axis_order=order)
                if not isinstance(data, bytes):
                    raise TypeError("export did not return bytes")
                return binvox.load_binvox(io.BytesIO(data), axis_order=order)

            vcheck("binvox:" + order, roundtrip, p_back, k_enc + incls, refusals=refusals, binvox_matrix=Mb)
        if aligned:
            # the generic loader route with default axis order
            def via_load(Mb=Mb):
                data = mk(Mb).export(file_type="binvox")
                return trimesh.load(io.BytesIO(data), file_type="binvox")

            vcheck("binvox:load_default", via_load, p_back, k_enc + incls, refusals=refusals, binvox_matrix=Mb)


def grid_views(shape):
    """(view class, op) one-step views of a 3-D encoding, by the public methods"""
    out = [("flip", ["flip", [0]]), ("flip", ["flip", [0, 2]]), ("flip", ["flip", [0, 1, 2]]),
           ("transpose[swap]", ["transpose", [0, 2, 1]]), ("transpose[cycle]", ["transpose", [1, 2, 0]]),
           ("reshape", ["reshape", [shape[2], shape[0], shape[1]]]), ("reshape", ["reshape", [shape[1], shape[0], shape[2]]])]
    return out


GRID_READS = ("points", "bounds", "filled_count", "volume", "is_empty", "shape", "is_filled", "sparse_indices")
STRIP_PAD = [(2, 0), (0, 0), (0, 1)]  # two empty planes below axis 0, one above axis 2


def _ref_view(X, vcls, op):
    """numpy only: the array a grid holds after the step"""
    if vcls == "strip":
        return np.pad(X, STRIP_PAD)
    if vcls == "same_values_other_shape":
        return X.reshape(X.shape[::-1]).copy()
    if vcls == "other_array":
        return np.roll(~X, 1, axis=2)
    name, arg = op
    if name == "flip":
        return np.flip(X, tuple(arg)).copy()
    if name == "transpose":
        return X.transpose(arg).copy()
    return X.reshape(arg).copy()


def check_grid_history(run, X, base, cdtype, tcls, Mx, aligned, only=None):
    """
    One grid object across a replacement of its encoding (the public `encoding` setter, which `strip`, `fill`
    and `hollow` use themselves): read the grid, give it another encoding - a flipped / transposed / reshaped
    view of the one it has (by the public methods; base `binvox`: the chain a loaded file hands out), the same
    values under another shape, an unrelated array, or let `strip()` replace it - and read it again.  The
    oracle is the array the grid now holds (np.flip / transpose / reshape of X) with the grid's transform: what
    a grid built from scratch answers.  For strip: the points of the padded array stay where they were.
    key: vg=<read>@after_set_encoding view=<view class> enc=<base> sym=...   (a read that a never-read grid
    built with the same encoding gets wrong as well is reported as vg=<read> enc=<base>.<view> sym=...)
    """
    from trimesh.exchange import binvox
    from trimesh.voxel import encoding as E
    from trimesh.voxel.base import VoxelGrid

    X = np.array(X, dtype=bool)
    Mx = np.array(Mx, dtype=np.float64)
    L = Mx[:3, :3]
    scale = abs(np.linalg.det(L)) ** (1 / 3.0)
    atol = 1e-9 * (scale * 12 + max(1.0, float(np.abs(Mx[:3, 3]).max())))
    ename = base if cdtype == "int64" or base in ("Dense", "Sparse", "binvox") else "%s[%s]" % (base, cdtype)
    corners = np.array(list(itertools.product((-0.5, 0.5), repeat=3)))

    def encoding_of(A):
        if base == "binvox":
            # the chain a loaded file hands out: Transposed(Shaped(RLE[uint8]))
            g = VoxelGrid(E.DenseEncoding(A.copy()), transform=np.diag([1.0 / max(n - 1, 1) for n in A.shape] + [1.0]))
            return binvox.load_binvox(io.BytesIO(g.export(file_type="binvox"))).encoding
        return build_base(base, A, cdtype)

    def read_all(vg):
        return vg.points, vg.bounds, vg.extents, vg.filled_count, vg.volume, vg.is_empty

    def build(vcls, op, read_first):
        """the grid after the step; read_first: it is read before its encoding is replaced"""
        if vcls == "strip":
            vg = VoxelGrid(encoding_of(np.pad(X, STRIP_PAD)), transform=Mx.copy())
            if read_first:
                read_all(vg)
            vg.strip()
            return vg
        enc0 = encoding_of(X)
        if op is None:
            new = E.DenseEncoding(_ref_view(X, vcls, op))
        else:
            new = apply_op(enc0, X, op)[0]
        if not read_first:
            return VoxelGrid(new, transform=Mx.copy())
        vg = VoxelGrid(enc0, transform=Mx.copy())
        read_all(vg)
        vg.encoding = new
        return vg

    steps = grid_views(X.shape) + [("same_values_other_shape", None), ("other_array", None), ("strip", None)]
    for vcls, op in steps:
        if base == "binvox" and min(X.shape) == 1:
            continue
        R = _ref_view(X, vcls, op)
        filled = np.argwhere(R)
        pts = filled.astype(float) @ L.T + Mx[:3, 3]
        cc = (filled[:, None, :] + corners[None]).reshape(-1, 3) @ L.T + Mx[:3, 3]
        lo, hi = (cc.min(axis=0), cc.max(axis=0)) if len(filled) else (np.zeros(3), np.zeros(3))
        cells = np.argwhere(np.ones(R.shape, bool)).astype(float) @ L.T + Mx[:3, 3]
        vol = len(filled) * abs(np.linalg.det(L))
        preds = {
            "points": lambda g: _same_point_set(g, pts, atol),
            "bounds": (lambda g: np.allclose(g, [lo, hi], rtol=0, atol=atol)) if aligned else
                      (lambda g: np.all(np.asarray(g)[0] <= lo + atol) and np.all(np.asarray(g)[1] >= hi - atol)),
            "filled_count": lambda g: int(g) == len(filled),
            "volume": lambda g: abs(float(g) - vol) <= 1e-9 * vol,
            "is_empty": lambda g: bool(g) == (len(filled) == 0),
            # strip: the shape is the tight box, not judged here (Encoding.stripped is judged in the table)
            "shape": lambda g: vcls == "strip" or tuple(int(x) for x in g) == R.shape,
            "is_filled": lambda g: np.array_equal(np.asarray(g).astype(bool).reshape(-1), R.reshape(-1)),
            "sparse_indices": lambda g: len(g) == len(filled) and (
                vcls == "strip" or sorted(map(tuple, np.asarray(g).tolist())) == sorted(map(tuple, filled.tolist()))),
        }
        for read in GRID_READS:
            if only is not None and read != only:
                continue

            def thunk(read_first=True):
                vg = build(vcls, op, read_first)
                return vg.is_filled(cells.copy()) if read == "is_filled" else getattr(vg, read)

            sym, detail = _outcome(thunk, preds[read])
            step = "strip" if vcls == "strip" else "set_encoding"
            key = "vg=%s@after_%s view=%s enc=%s" % (read, step, vcls, ename)
            if sym != "ok":
                # is it the history?  the same read on a grid that was never read before
                fsym, fdetail = _outcome(lambda: thunk(read_first=False), preds[read])
                if fsym != "ok":
                    sym, detail = fsym, fdetail
                    key = "vg=%s enc=%s.%s" % (read, ename, vcls)
            run.count("vg_checks")
            run.count("vg_history:%s|%s|%s" % (read, vcls, sym))
            run.state("vg_cell", (read + "@after_" + step, vcls, ename, sym))
            run.case("vg:history:" + read, vcls, repr(op), ename, tcls, X, Mx, nontrivial=bool(X.any()))
            if sym != "ok":
                run.violation(
                    key + " sym=" + sym,
                    "VoxelGrid.%s after its encoding was replaced (%s) is not that of the array the grid holds"
                    % (read, vcls),
                    {"part": "vgh", "check": read, "view": vcls, "op": op, "array": _pack(X), "base": base,
                     "cdtype": cdtype, "tf_class": tcls, "matrix": Mx, "aligned": aligned, "observed": detail},
                )


def _same_point_set(a, b, atol):
    a, b = np.asarray(a, dtype=float), np.asarray(b, dtype=float)
    if a.shape != b.shape:
        return False
    if len(a) == 0:
        return True
    # greedy nearest matching is exact here: points are lattice points >= one cell apart
    used = np.zeros(len(b), dtype=bool)
    for p in a:
        d = np.abs(b - p).max(axis=1)
        d[used] = np.inf
        j = int(np.argmin(d))
        if not d[j] <= atol:
            return False
        used[j] = True
    return True


def binvox_transforms(rng):
    """axis-aligned transform classes for the export / reload checks: (class, 4x4, axis_aligned, uniform pitch)"""
    t = rng.uniform(-5, 5, size=3)

    def M(d, t):
        m = np.eye(4)
        m[:3, :3] = np.diag(d)
        m[:3, 3] = t
        return m

    out = [("identity", np.eye(4), True, True), ("scale_uniform", M([0.25] * 3, t), True, True),
           # units far from 1: absolute tolerances of the exporter are not in the grid's unit
           ("unit_tiny", M([1e-9] * 3, t * 1e-9), True, True), ("unit_huge", M([1e9] * 3, t * 1e9), True, True),
           ("mirror_axis", M([-0.5, 0.5, 0.5], t), True, True), ("mirror_axis", M([0.5, 0.5, -0.5], t), True, True)]
    for a in range(3):
        d = np.full(3, 0.5)
        d[a] = 1.0  # one axis with another pitch, in every position
        out.append(("scale_odd_" + "xyz"[a], M(d, t), True, False))
        d = np.full(3, 0.5)
        d[a] = 0.5 * (1 + 1e-4)  # slightly off: inside any loose tolerance?  1e-4 is not "uniform" for 4 cells
        out.append(("scale_off_" + "xyz"[a], M(d, t), True, False))
    out.append(("scale_axes", M([0.5, 2.0, 1.25], t), True, False))
    return out


BINVOX_SHAPES = ((4, 4, 4), (3, 5, 5), (5, 3, 5), (5, 5, 3), (2, 3, 4), (1, 1, 1), (1, 4, 4), (4, 1, 4), (4, 4, 1), (1, 1, 3))


def part_voxelgrid_first(run):
    """the small fixed classes of the grid part, before the time-boxed product"""
    item = 0
    # (a) export / reload: every shape class (cubic, one odd axis in every position, all different, one cell
    # thick in every position) x every axis-aligned transform class
    tfs = binvox_transforms(run.rng)
    for shape in BINVOX_SHAPES:
        N = int(np.prod(shape))
        for tag, X in (("mod3", (np.arange(N).reshape(shape) % 3 == 1) if N > 1 else np.ones(shape, bool)),
                       ("full", np.ones(shape, bool))):
            for base, cd in (("Dense", "int64"),):  # the exporter's checks on the transform do not read the encoding
                for tcls, Mx, aligned, uniform in tfs:
                    if tcls == "mirror_axis" and min(shape) > 1 and shape != (4, 4, 4):
                        continue  # mirrors: on the grids one cell thick (a mirrored axis of length 1) and a control
                    item += 1
                    if run.mine(item):
                        check_grid(run, X, base, cd, tcls, Mx, aligned, uniform, binvox_only=True)
    # (b) one grid across a replacement of its encoding
    gts = {t[0]: t for t in grid_transforms(run.rng)}
    for shape in ((2, 3, 4), (3, 3, 3)):
        X = np.arange(int(np.prod(shape))).reshape(shape) % 3 == 1
        for base, cd in (("Dense", "int64"), ("Sparse", "int64"), ("RLE", "uint8"), ("binvox", "int64")):
            for tname in ("scale_axes", "mirror_axis", "similarity") if shape == (2, 3, 4) else ("translation",):
                tcls, Mx, aligned, uniform = gts[tname]
                item += 1
                if run.mine(item):
                    check_grid_history(run, X, base, cd, tcls, Mx, aligned)
    # (c) an occupancy view (declared bool) of run-length encoded labels as the grid's encoding
    for shape in ((2, 3, 4), (3, 3, 3)):
        X = np.arange(int(np.prod(shape))).reshape(shape) % 3 != 1
        for tname in ("translation", "mirror_axis", "similarity"):
            tcls, Mx, aligned, uniform = gts[tname]
            item += 1
            if run.mine(item):
                check_grid(run, X, "RLE", "int64", tcls, Mx, aligned, uniform, labels=True)
    run.note("elapsed_after_voxelgrid_first", round(run.elapsed(), 1))


def part_voxelgrid(run, frac_end):
    part_voxelgrid_first(run)
    item = 0
    rounds = 0
    while True:
        tfs = grid_transforms(run.rng)
        arrays = grid_arrays(run.rng)
        # the patterned arrays of every shape (cubic and not) first: a time-boxed run sees every shape class
        arrays.sort(key=lambda t: ("mod3", "random", "corner", "full", "empty").index(t[0]))
        for (tag, X), (base, cd) in itertools.product(
            arrays, (("Dense", "int64"), ("Sparse", "int64"), ("RLE", "uint8"), ("BRLE", "uint8"))
        ):
            if X.size > 200 and base == "Sparse" and rounds:
                continue
            for tcls, Mx, aligned, uniform in tfs:
                item += 1
                if not run.mine(item):
                    continue
                if X.size > 200 and tcls not in ("identity", "translation", "mirror_axis", "scale_uniform", "rotation"):
                    continue
                check_grid(run, X, base, cd, tcls, Mx, aligned, uniform)
            if run.out_of_time(frac_end):
                return
        rounds += 1
        if run.tier == "quick" and rounds >= 1:
            return
        if run.out_of_time(frac_end):
            return


# =============================================================================================


def workload(run):
    # order: the cheap, wide tables first; budget fractions are cumulative
    part_voxelgrid(run, 0.18)
    run.note("elapsed_after_voxelgrid", round(run.elapsed(), 1))
    part_encodings(run, 0.50)
    run.note("elapsed_after_encodings", round(run.elapsed(), 1))
    part_runlength(run, 0.97)
    cells = run.states.get("cell", set())
    chains = run.states.get("chain", set())
    broken = sorted({(c[0], c[1]) for c in cells if c[2] != "ok"})
    allc = {(c[0], c[1]) for c in cells}
    run.note("enc_table_this_shard", {"chains": len(chains), "cells": len(allc), "broken_cells": len(broken)})


def replay(run, case):
    part = case.get("part")
    if part == "rl":
        check_sequence(run, case["runs"], tuple(case.get("dtypes") or ("uint8", "uint16", "int64")), level=2)
    elif part == "enc":
        run_recipe(run, _unpack(case["array"]), case["recipe"])
    elif part == "vg":
        check_grid(run, _unpack(case["array"]), case["base"], case["cdtype"], case["tf_class"],
                   np.array(case["matrix"], dtype=float), case["aligned"], case["uniform"],
                   labels=bool(case.get("labels")), binvox_only=bool(case.get("binvox_only")))
    elif part == "vgh":
        check_grid_history(run, _unpack(case["array"]), case["base"], case["cdtype"], case["tf_class"],
                           np.array(case["matrix"], dtype=float), case["aligned"])
