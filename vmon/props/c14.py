"""
C14 - paths rebuild the same regions from segments in any order.

Monitor shape: generated drawings with a known answer (vmon/gen/path.py) + observation of every
derived value of the real Path2D after every step of a short history.

  drawing       forest of disjoint / nested simple closed curves (integer polygons, circles,
                line+arc "bullets"); exact area (Fraction shoelace), perimeter, nesting known
  presentation  one way of cutting the rings into Line / Arc entities (order, direction, start,
                duplicated end point rows all random)
  history       0-2 similarity transforms, each after reading nothing / some / all derived values,
                optionally followed by an export -> import round trip (dxf, svg, dict) or a
                2D -> 3D -> 2D conversion

After every step ALL derived values are read (random order) and judged against the generator's
answer mapped through the accumulated transform, and against a freshly built path (new entity
objects, empty cache) with the same geometry.  Which reconstructed curve is which generating ring
is decided geometrically (distance of the curve's points to the exact ring), never by trusting
the library's ordering.

Keys:  route=<direct|transform|fresh|dxf|svg|dict|path3d> input=<lines|arcs|mixed>
       [tf=<class> via=<method> pre=<none|some|all> [factor=<positive|negative>[_vector]]]
       [size=below_tol_merge] [arcs=cross_below_tol_zero] [size=extents_above_1e6] [place=far_from_origin]
       [arcs=shallow | detail=fillet_near_merge_grid | gap=below_chord_sag] read=<value> sym=<symptom>
       route=<dxf|svg|dict> stage=<...> [entities=<with_Line|arcs_only>] [tags] sym=exception:<type>
       route=dxf units=declared read=units sym=changed

Round 4 (drawings next to the library's resolution, all opt-in classes of G-path):
  arcs=shallow                   circles cut into 350-700 arcs, crowned plates (single arcs of 1.6e-4 ... 0.025
                                 rad, radius 40 ... 6000 chords); every Arc also observed on its own
  detail=fillet_near_merge_grid  plates whose corner fillets / chamfers are 3e-6 ... 5e-4 of the diagonal, on
                                 both sides of the grid of merge_vertices; float placement
  gap=below_chord_sag            nested curves with a gap of 1e-4 ... 6e-4 of the radius (root observation:
                                 the edges of the enclosure tree)
  size=extents_above_1e6         tf=similarity_huge (change of units, factor 1e5 ... 1e12), last step
  place=far_from_origin          tf=translation_far (1e5 ... 5e5 diagonals), last step
  units / dict                   DXF round trip of a drawing that declares its unit; the exported dict handed
                                 back through load_path / load / the constructor (the documented routes)
For these classes ONE root symptom is reported per geometry (distinct points welded / closed paths lost /
enclosure tree / arc off its circle) and the reads computed from it are counted as its consequences.

Round 5 (seed C14-r4-1):
  tf=similarity_near_one         read - transform - read again with similarities whose factor is 1 +- {1e-4 ... 1e-9}
                                 (no / equally small / ordinary rotation and offset; apply_transform, apply_scale,
                                 vertex assignment; alone, after an ordinary step, two in a row), area and length
                                 always among the values read before; totals judged at 2e-11 (measured error < 1e-13)
  sym=differs_from_polygons_full every judgement: the total area against the sum of the full polygons of the SAME
                                 object (exact also for arcs)

tf classes: identity, near_identity, rigid, similarity (0.5 ... 1e3), mirror_axis, mirror_rot and
similarity_tiny (change of units about the origin, 1e-6 ... 1e-9, always the last step).  The two
geometry tags say on which side of the library's absolute constants the transformed drawing is
(geometry_class); for arcs below TOL_ZERO every Arc entity is also observed on its own
(read=arc_discrete) and, when that root symptom fires, the reads computed from the polygonised arcs are
counted as its consequences instead of being reported one by one.
"""

from __future__ import annotations

import io
import math
import random
import time

import numpy as np

from vmon.gen import path as gp
from vmon.gen.matrix import matrices

PROP = "C14"
LEVEL = "exploration"
RULE = (
    "a case = (drawing, presentation, history): drawing = random forest of 1-10 disjoint/nested simple "
    "rings (rect, convex, star, rectilinear, circle as 2-4 arcs or closed arc, line+arc bullet; depth<=3) "
    "with integer vertices; presentation = random cut of every ring into polylines/arcs with duplicated "
    "end-point rows, permuted entity and vertex order, random direction and ring start; history = 0-2 "
    "rigid/similarity/mirror transforms applied through apply_transform/apply_scale (scalar or (2,) factor, "
    "positive or negative)/apply_translation/rezero/vertex assignment after reading none/some/all cached "
    "values (the totals area/length among them half of the time), the last one possibly a change of units "
    "about the origin (factor 1e-6..1e-9: drawings smaller than tol.merge, arcs with control triangles "
    "below TOL_ZERO), optionally a dxf/svg/dict round trip (dxf also after a change of units) or a 3D "
    "conversion. Every other drawing belongs to an opt-in class next to the library's resolution: flat arcs "
    "(circle in 350-700 arcs, crowned plates with arcs of 1.6e-4..0.025 rad), corner fillets/chamfers of "
    "3e-6..5e-4 of the diagonal at float positions, nested curves with a gap of 1e-4..6e-4 of the radius; "
    "histories of ordinary drawings may end with a change of units 1e5..1e12 or a translation by 1e5..5e5 "
    "diagonals; dxf exports of drawings that declare a unit; the exported dict re-imported through "
    "dict_to_path, load_path, load or the constructor. One presentation in six gets a read-transform-read history "
    "with a similarity of factor 1 +- 1e-4..1e-9 (area and length always read before; alone, after an ordinary "
    "step or two in a row), totals judged at 2e-11; the total area is always compared with the sum of the full "
    "polygons of the same object. distinct = distinct (entity lists, vertex bytes, history); non-trivial = "
    "more entities than rings or nested rings or a non-identity history."
)
ANCHORS = [
    "trimesh/path/traversal.py:closed_paths",
    "trimesh/path/traversal.py:vertex_to_entity_path",
    "trimesh/path/traversal.py:discretize_path",
    "trimesh/path/polygons.py:paths_to_polygons",
    "trimesh/path/polygons.py:enclosure_tree",
    "trimesh/path/path.py:Path2D.polygons_closed",
    "trimesh/path/path.py:Path2D.polygons_full",
    "trimesh/path/path.py:Path2D.area",
    "trimesh/path/path.py:Path.length",
    "trimesh/path/path.py:Path2D.root",
    "trimesh/path/path.py:Path2D.enclosure_directed",
    "trimesh/path/path.py:Path.merge_vertices",
    "trimesh/path/path.py:Path.apply_transform",
    "trimesh/path/arc.py:arc_center",
    "trimesh/path/arc.py:discretize_arc",
    "trimesh/path/entities.py:Entity.reverse",
    "trimesh/path/entities.py:Entity._orient",
    "trimesh/path/exchange/dxf.py:export_dxf",
    "trimesh/path/exchange/dxf.py:load_dxf",
    "trimesh/path/exchange/svg_io.py:export_svg",
    "trimesh/path/exchange/svg_io.py:svg_to_path",
    "trimesh/path/exchange/misc.py:dict_to_path",
]
SHARDS = {"quick": 1, "thorough": 8}
BUDGET = {"quick": 48, "thorough": 420}
MIN_EVENTS = {"quick": 300, "thorough": 3000}
ASSUMPTIONS = [
    "the generator's rings are simple, disjoint or strictly nested with gaps >= 2 units (validated "
    "against shapely during development, exact integer simplicity test at run time)",
    "an arc is legitimately polygonised with segments of at most res_path.seg_angle = 0.08 rad, so "
    "areas involving arcs are compared at 2e-3 of the circular-segment area, line-only drawings at 1e-9",
    "Path.merge_vertices merges at tol.merge * scale (<= 0.01 grid here); distinct generated points "
    "are >= 0.9 units apart and duplicated rows are bit-identical",
    "a transform is expected to be applied as passed, also within 1e-8 of the identity (only the exact "
    "identity is a no-op since 7e187dd)",
    "float64 arithmetic is scale free: a similarity about the origin with factor 1e-6..1e-9 leaves every "
    "relative tolerance above valid; DXF stores 12 significant digits (judged at any size while coordinates "
    "are no larger relative to the drawing than generated), SVG 13 decimals (not judged for small drawings)",
    "an arc piece shorter than one legitimate segment (0.107 rad) may be polygonised as its chord: its whole "
    "circular segment is added to the area tolerance; arc bounds may miss at most the sagitta of the arc",
    "merge_vertices welds vertices that fall into one cell of a grid of at most 1e-4 of the diagonal (tol.merge * "
    "scale rounded up to a power of ten): for fillets next to that grid positions are judged at 1.5 cells, "
    "area at 1.5 cells x perimeter, and vertex-degree bookkeeping (is_closed, vertex_graph, dangling) of "
    "sub-resolution pieces is observed, not judged; closed paths, polygons, nesting, area, length are",
    "coordinates `c` times larger than the drawing leave 2.2e-16 c of its size as float64 resolution: exact "
    "quantities are compared at 1e-9 + 2e-14 c; after a DXF round trip far from the origin positions are "
    "judged at the 12 significant digits the file stores, the presence of the regions strictly",
    "a DXF round trip of a drawing with extents above 2e9 is not judged (one ulp of a coordinate is then "
    "comparable to the finest merge grid, 0.1), nor are text round trips of arcs whose radius exceeds 100 diagonals",
    "trimesh.load(kwargs) returns a Scene holding the one geometry (general behaviour of load, also for meshes)",
    "length (lines and three point arcs) and the area of polygonal input are exact up to float64 rounding (measured "
    "< 1e-13 relative on ordinary drawings): after a similarity next to the identity they are judged at 2e-11; "
    "Path2D.area is the sum of the areas of polygons_full of the same object (judged at 1e-12 + conditioning)",
]
EXHAUSTIVE = {"quick": False, "thorough": False}

READS = [
    "paths", "discrete", "polygons_closed", "polygons_full", "area", "length", "is_closed",
    "body_count", "root", "enclosure_directed", "enclosure", "enclosure_shell", "bounds", "extents",
    "vertex_graph", "dangling", "path_valid", "centroid", "vertex_nodes", "referenced_vertices",
    "kdtree", "scale",
]
TF_CLASSES = {"identity", "near_identity", "rigid", "similarity", "mirror_axis", "mirror_rot"}
# change of units about the origin (metres <- micrometres ...): a similarity like any other, float64
# is scale free, so every relative tolerance of the monitor stays what it is; what is NOT scale free
# are the library's absolute constants (tol.merge = 1e-5 on lengths, TOL_ZERO = 1e-13 on products)
TINY_SCALES = (1e-6, 1e-7, 1e-8, 1e-9)
TOL_MERGE = 1e-5  # trimesh.constants.tol_path.merge
TOL_ZERO = 1e-13  # trimesh.util.TOL_ZERO (unitize's "this vector is zero" threshold)
# reads that are computed from the polygonised arcs (everything except entity topology and length)
ARC_DOWNSTREAM = {
    "discrete", "polygons_closed", "polygons_full", "area", "bounds", "extents", "centroid", "root",
    "enclosure_directed", "enclosure", "enclosure_shell", "body_count", "path_valid", "n_root", "n_edges",
}
# reads that say nothing new once a loop of the drawing is reported open (is_closed False): everything
# that is computed from closed curves.  Used for the classes next to the library's resolution only
# (fillets, drawings far from the origin / of huge size), where one root symptom would otherwise be
# reported once per read.
LOOP_DOWNSTREAM = {
    "paths", "discrete", "polygons_closed", "polygons_full", "area", "length", "body_count", "root",
    "enclosure_directed", "enclosure", "enclosure_shell", "bounds", "extents", "vertex_graph", "dangling",
    "path_valid", "centroid", "n_paths", "n_root", "n_edges",
}
# reads computed from the enclosure tree (nesting of the closed curves)
NEST_DOWNSTREAM = {
    "root", "enclosure_directed", "enclosure", "enclosure_shell", "polygons_full", "area", "body_count",
    "n_root", "n_edges",
}
UNITS = ["millimeters", "meters", "inches", "feet", "centimeters", "kilometers", "microns", "yards", "miles"]
SEG_ANGLE = 0.08  # res_path.seg_angle (documented discretisation resolution)
# discretize_arc uses ceil(span / 0.08) POINTS (>= 4), i.e. one segment fewer: segments span up to
# 0.08 * k / (k - 1) <= 0.107 rad; inscribed-polygon deficiency 1 - sin(t)/t <= t^2/6 = 1.9e-3 of the
# circular-segment area
ARC_RTOL = 2.0e-3
RTOL = 1e-9


# similarities next to the identity (a calibration / shrinkage factor, a conversion between nearly equal
# units, a product of factors that should cancel): scale 1 +- NEAR_ONE_EPS.  Anything that treats such a
# matrix as rigid "within tolerance" leaves values that are wrong by the step: the totals are judged at
# NEAR_ONE_RTOL, well below the smallest step (measured float error of the exact totals: < 1e-13)
NEAR_ONE_EPS = (1e-4, 1e-5, 4e-6, 1e-6, 1e-7, 1e-8, 1e-9)
NEAR_ONE_RTOL = 2e-11
_MAXIMA = {}


def _note_max(run, name, value):
    if float(value) > _MAXIMA.get(name, -1.0):
        _MAXIMA[name] = float(value)
        run.note(name, float(value))


class Exc:
    def __init__(self, e):
        self.name = type(e).__name__
        self.text = str(e)[:200]

    def __repr__(self):
        return "Exc(%s: %s)" % (self.name, self.text)


def observe(path, names, rnd=None):
    names = list(names)
    if rnd is not None:
        rnd.shuffle(names)
    obs = {}
    for n in names:
        try:
            v = getattr(path, n)
            if n in ("paths", "discrete"):
                v = [np.array(x) for x in v]
            elif n in ("bounds", "extents", "root", "centroid", "dangling", "path_valid"):
                v = np.array(v)
            elif n in ("enclosure_directed", "enclosure"):
                v = (sorted(v.nodes()), sorted(v.edges()))
            elif n == "enclosure_shell":
                v = {int(k): sorted(int(i) for i in x) for k, x in v.items()}
            elif n == "vertex_graph":
                v = sorted(dict(v.degree()).values())
            elif n in ("polygons_closed", "polygons_full"):
                v = list(v)
            obs[n] = v
        except BaseException as e:  # noqa
            obs[n] = Exc(e)
    try:
        obs["_n_vertices"] = len(path.vertices)
    except BaseException:  # noqa
        pass
    return obs


def _signed_area(pts):
    # about the first point: a curve far from the origin would cancel in the plain shoelace sum
    x, y = pts[:, 0] - pts[0, 0], pts[:, 1] - pts[0, 1]
    return 0.5 * float(np.sum(x[:-1] * y[1:] - x[1:] * y[:-1]))


def _mat_props(M):
    L = M[:2, :2]
    det = float(np.linalg.det(L))
    s = math.sqrt(abs(det))
    return det, s


def _dense_points(D, n=720):
    """Points of all rings: nodes of lines, dense samples of arcs (for expected bounds)."""
    pts = []
    for r in D.rings:
        for e in r.edges:
            if e[0] == "L":
                pts.append(e[1])
            else:
                (cx, cy), rad, t0, t1 = e[1], e[2], e[3], e[4]
                t = np.linspace(t0, t1, max(8, int(n * (t1 - t0) / gp.TWO_PI)))
                pts.extend(zip(cx + rad * np.cos(t), cy + rad * np.sin(t)))
    return np.array(pts, dtype=np.float64)


def geometry_class(D, pres, M):
    """
    Structural class of the geometry `pres` mapped through M with respect to the library's ABSOLUTE
    constants (part of the key: a defect tied to one of them gets a key of its own, and ordinary
    drawings stay strictly judged):
      size=below_tol_merge       the whole drawing is smaller than tol.merge = 1e-5 (absolute length)
      arcs=cross_below_tol_zero  some three point arc has |(p1 - p0) x (p2 - p0)| (twice the area of its
                                 control triangle, ~ radius^2) below TOL_ZERO = 1e-13
    -> (key fragment, set of tags)
    """
    det, s = _mat_props(np.asarray(M, dtype=np.float64))
    tags = []
    b0 = D.bounds()
    if float(np.linalg.norm(b0[1] - b0[0])) * s < TOL_MERGE:
        tags.append("size=below_tol_merge")
    V = pres.vertices
    cmin = np.inf
    for typ, idx, closed in pres.entities:
        if typ == "Arc":
            p0, p1, p2 = V[idx[0]], V[idx[1]], V[idx[2]]
            a, b = p1 - p0, p2 - p0
            cmin = min(cmin, abs(float(a[0] * b[1] - a[1] * b[0])))
    if cmin * abs(det) < TOL_ZERO:
        tags.append("arcs=cross_below_tol_zero")
    ext = float(np.linalg.norm(b0[1] - b0[0])) * s
    if ext >= 1e6:
        # Path.merge_vertices rounds to `tol.merge * scale`: from here on that is >= 10 units
        tags.append("size=extents_above_1e6")
    M = np.asarray(M, dtype=np.float64)
    corners = np.array([[b0[0][0], b0[0][1]], [b0[1][0], b0[0][1]], [b0[1][0], b0[1][1]], [b0[0][0], b0[1][1]]])
    far = float(np.abs(corners @ M[:2, :2].T + M[:2, 2]).max())
    if far > 1e3 * ext:
        # coordinates more than a thousand times larger than the drawing (georeferenced placement)
        tags.append("place=far_from_origin")
    return " ".join(tags), set(tags)


def placement(D, M):
    """(largest coordinate, diagonal) of the drawing mapped through M"""
    b0 = D.bounds()
    M = np.asarray(M, dtype=np.float64)
    corners = np.array([[b0[0][0], b0[0][1]], [b0[1][0], b0[0][1]], [b0[1][0], b0[1][1]], [b0[0][0], b0[1][1]]])
    return (float(np.abs(corners @ M[:2, :2].T + M[:2, 2]).max()),
            float(np.linalg.norm(b0[1] - b0[0])) * _mat_props(M)[1])


def arc_pieces_info(pres):
    """
    Oracle's own view of the three point arcs of a presentation: list of (radius, span) for the arcs
    that go the SHORT way round (control point between the ends), computed from the control points.
    """
    V = pres.vertices
    out = []
    for typ, idx, closed in pres.entities:
        if typ != "Arc" or closed:
            continue
        p0, p1, p2 = V[idx[0]], V[idx[1]], V[idx[2]]
        a, b, c = np.linalg.norm(p1 - p0), np.linalg.norm(p2 - p1), np.linalg.norm(p2 - p0)
        cross = abs(float((p1 - p0)[0] * (p2 - p0)[1] - (p1 - p0)[1] * (p2 - p0)[0]))
        if cross == 0.0 or float(np.dot(p0 - p1, p2 - p1)) > 0:
            # (numerically) straight, or the angle at the control point is acute: more than a half turn
            continue
        R = a * b * c / (2.0 * cross)
        out.append((float(R), 2.0 * math.asin(min(1.0, c / (2.0 * R)))))
    return out


def shallow_slack_area(pieces):
    """
    An arc piece shorter than one legitimate segment (0.107 rad, see ARC_RTOL) may be polygonised as its
    chord: the whole circular segment between chord and arc is then legitimately missing.
    """
    return float(sum(0.5 * R * R * (t - math.sin(t)) for R, t in pieces if t < 0.12))


def _bounds_arc_tol(D):
    """
    Arc bounds come from the polygonised arc (documented approximate): 1.5e-3 of the radius for ordinary
    arcs, never more than the sagitta of the arc itself.  (The angular criterion asks for ceil(span / 0.08)
    POINTS, at least 4: a span just below 0.32 rad gets 3 chords of 0.107 rad, sagitta 1.42e-3 R - the
    1e-3 R used before was a false alarm of the thorough tier once a drawing was scaled to 1e-6, where the
    length criterion no longer adds points.)
    """
    tol = 0.0
    for r in D.rings:
        for e in r.edges:
            if e[0] == "A":
                span = min(e[4] - e[3], math.pi)
                tol = max(tol, min(1.5e-3 * e[2], 1.05 * e[2] * (1.0 - math.cos(span / 2.0))))
    return tol


def observe_arc_entities(ctx, path, pres, M):
    """
    Entity-level observation (closer to the mechanism than `discrete`): every Arc entity of `path`
    is discretised on its own and its points must lie on the generating ring.  Returns True when
    some arc is off its circle (reported once, under read=arc_discrete).
    """
    D = ctx.D
    M = np.asarray(M, dtype=np.float64)
    Minv = np.linalg.inv(M)
    b0 = D.bounds()
    L0 = float(np.linalg.norm(b0[1] - b0[0])) + float(np.abs(b0).max())
    eps0 = 1e-8 * L0
    ents = list(path.entities)
    if len(ents) != len(pres.entities):
        return False
    try:
        scale = float(path.scale)
        V = np.asarray(path.vertices)
    except BaseException:  # noqa
        return False
    worst, where, n = 0.0, None, 0
    for i, e in enumerate(ents):
        if type(e).__name__ != "Arc":
            continue
        try:
            d = np.asarray(e.discrete(V, scale=scale), dtype=np.float64)
        except BaseException as exc:  # noqa
            ctx.bad("arc_discrete", "exception:" + type(exc).__name__, "Arc.discrete raised", entity=i, error=repr(exc)[:200])
            return True
        n += 1
        g = d.reshape((-1, 2)) @ Minv[:2, :2].T + Minv[:2, 2]
        dist = float(gp.ring_distance(D.rings[pres.ent_ring[i]], g).max())
        if dist > worst:
            worst, where = dist, i
    ctx.run.count("arc_entities_observed", n)
    if worst > eps0:
        ctx.bad("arc_discrete", "off_circle", "points of a discretised Arc entity do not lie on its circle",
                entity=where, distance_in_drawing_units=worst, tolerance=eps0)
        return True
    return False


class Ctx:
    """Where a judgement happens: key prefix + witness."""

    def __init__(self, run, D, spec, route, extra="", inherited=(), masked=()):
        self.run, self.D, self.spec, self.route = run, D, spec, route
        # reads downstream of a root symptom that was observed (and reported) at entity level for
        # this very geometry: consequences of it, counted but not reported again read by read
        self.masked = set(masked)
        # root symptom handling of the classes next to the library's resolution: an open loop
        # (is_closed False) / a wrong enclosure tree is reported once, the reads computed from it are counted
        self.loop_root = False
        # number of distinct vertex rows the constructor was given, when all of them are further apart
        # than any merge distance (None: not known / welding is legitimate)
        self.expect_vertices = None
        # a path built from the same coordinates already showed (and reported) a root symptom
        self.root_inherited = False
        self.root_masked = set()
        self.root_fired = False
        # legitimate slack of this judgement: positional (generator units), area (generator units^2),
        # length (generator units), relative tolerance of exact quantities
        self.slack = {}
        self.prefix = "route=%s input=%s%s" % (route, D.input_class, (" " + extra) if extra else "")
        self.fired = 0
        self.symptoms = set()
        # (read, symptom) pairs already shown by a path with the same geometry and no history
        # (direct / freshly built): the same defect, reported there, not again per history
        self.inherited = set(inherited)

    def bad(self, read, sym, what, **info):
        self.symptoms.add((read, sym))
        if (read, sym) in self.inherited:
            self.run.count("symptom_inherited_from_source")
            return
        if read in self.masked:
            self.run.count("symptom_downstream_of_arc_discrete")
            return
        if read in self.root_masked and not sym.startswith("exception"):
            self.run.count("symptom_downstream_of_root_symptom")
            return
        self.fired += 1
        case = dict(self.spec)
        case["observed"] = info
        self.run.violation("%s read=%s sym=%s" % (self.prefix, read, sym), what, case)


def judge(ctx, obs, M=None, pres=None):
    """
    Compare every observed value with the generator's answer.
    M: 3x3 similarity mapping generator coordinates to path coordinates (None = identity).
    pres: the Presentation when entity indices of the path are those of the presentation.
    """
    D = ctx.D
    run = ctx.run
    M = np.eye(3) if M is None else np.asarray(M, dtype=np.float64)
    det, s = _mat_props(M)
    Minv = np.linalg.inv(M)
    nr = len(D.rings)
    b0 = D.bounds()
    L0 = float(np.linalg.norm(b0[1] - b0[0])) + float(np.abs(b0).max())
    sl = ctx.slack or {}
    rtol = sl.get("rtol", RTOL)
    s_area, s_len = sl.get("area", 0.0), sl.get("length", 0.0)
    eps0 = 1e-8 * L0  # positional tolerance in generator coordinates
    if ctx.route == "svg" and D.has_arc:
        # SVG stores an arc as end points + radius + flags with a fixed number of decimals: the
        # centre is recovered by intersecting two circles, which for half turns is conditioned
        # like sqrt(r * 10^-digits) - the curve read back legitimately sits ~1e-6..1e-5 of the
        # drawing size away from the exact ring (what the format stores, not what the code does)
        eps0 = 2e-6 * L0
    eps0 += sl.get("pos", 0.0)
    shells = D.shells()
    exp_area = D.area() * s * s
    exp_len = D.length() * s
    arc_tol_area = (ARC_RTOL * D.arc_area() + s_area) * s * s
    ok = lambda k: k in obs and not isinstance(obs[k], Exc)  # noqa
    if ctx.loop_root and ctx.root_inherited:
        # a path built from these very coordinates already showed (and reported) a root symptom of its
        # construction: a second construction from them (file / dict re-import) says nothing new
        ctx.root_fired = True
        run.count("symptom_inherited_from_source")
        return None
    if ctx.loop_root and "paths" in obs:
        # root observation of the classes next to the library's resolution: the closed curves themselves.
        # Fewer closed paths than rings (or an open drawing) = a loop was opened / lost when the path was
        # built; every other read is computed from the closed paths and says the same thing again
        # (also when it does so by raising on the emptied path)
        v = obs["paths"]
        nv = obs.get("_n_vertices")

        def root_bad(*a, **kw):
            if ctx.root_inherited:
                ctx.symptoms.add((a[0], a[1]))
                run.count("symptom_inherited_from_source")
            else:
                ctx.bad(*a, **kw)

        if ctx.expect_vertices is not None and nv is not None and nv < ctx.expect_vertices:
            root_bad("vertices", "distinct_points_welded", "%d vertices kept of %d distinct points that are more than "
                    "8e-4 of the extents apart" % (nv, ctx.expect_vertices), got=nv, want=ctx.expect_vertices)
            ctx.root_fired = True
        elif isinstance(v, Exc):
            root_bad("paths", "exception:" + v.name, "reading `paths` raised %s" % v, error=repr(v))
            ctx.root_fired = True
        elif len(v) != nr:
            root_bad("paths", "count", "%d closed paths, drawing has %d rings: a loop was opened or lost" % (len(v), nr),
                    got=len(v), want=nr)
            ctx.root_fired = True
        elif ok("is_closed") and not bool(obs["is_closed"]) and not sl.get("spurs"):
            root_bad("is_closed", "false", "is_closed is False for a drawing of closed rings: some loop is open")
            ctx.root_fired = True
        else:
            # the path was built but cannot be read: the first read (fixed order) that raises
            raising = [k for k in READS if isinstance(obs.get(k), Exc)]
            if raising:
                root_bad(raising[0], "exception:" + obs[raising[0]].name, "reading `%s` raised %s (and %d other reads)"
                         % (raising[0], obs[raising[0]], len(raising) - 1), error=repr(obs[raising[0]]))
                ctx.root_fired = True
        if ctx.root_fired:
            ctx.root_masked |= LOOP_DOWNSTREAM | set(READS) | {"is_closed"}
            ctx.run.count("judgements_ended_at_root_symptom")
            return None
    for k, v in obs.items():
        if isinstance(v, Exc):
            ctx.bad(k, "exception:" + v.name, "reading `%s` raised %s" % (k, v), error=repr(v))

    def to_gen(q):
        q = np.asarray(q, dtype=np.float64).reshape((-1, 2))
        return q @ Minv[:2, :2].T + Minv[:2, 2]

    def which_ring(q):
        """ring index whose boundary all points q (path coords) lie on, else None; max distance"""
        g = to_gen(q)
        best, bd = None, np.inf
        for i, r in enumerate(D.rings):
            # cheap bbox rejection
            x0, y0, x1, y1 = r.bbox
            if g[0, 0] < x0 - 1 or g[0, 0] > x1 + 1 or g[0, 1] < y0 - 1 or g[0, 1] > y1 + 1:
                continue
            d = float(gp.ring_distance(r, g).max())
            if d < bd:
                best, bd = i, d
        return best, bd

    path_ring = None  # path index -> ring index
    # ---- discrete curves
    if ok("discrete"):
        disc = obs["discrete"]
        if len(disc) != nr:
            ctx.bad("discrete", "count", "%d closed curves reconstructed, drawing has %d rings" % (len(disc), nr),
                    got=len(disc), want=nr)
        path_ring = []
        for i, d in enumerate(disc):
            d = np.asarray(d, dtype=np.float64)
            if d.ndim != 2 or len(d) < 4:
                ctx.bad("discrete", "degenerate", "closed curve with fewer than 4 points", index=i, shape=list(d.shape))
                path_ring.append(None)
                continue
            if np.linalg.norm(d[0] - d[-1]) > eps0 * s:
                ctx.bad("discrete", "not_closed", "discrete curve does not end where it starts", index=i)
            ri, dist = which_ring(d)
            if ri is None or dist > eps0:
                ctx.bad("discrete", "off_curve", "points of a discrete curve do not lie on one generating ring",
                        index=i, ring=ri, distance=dist)
                path_ring.append(None)
                continue
            path_ring.append(ri)
            ring = D.rings[ri]
            a = _signed_area(d)
            if a <= 0:
                # orientation of `discrete` is not part of the statement (polygons, nesting, area,
                # length): a cached curve transported through a mirror comes out clockwise
                run.count("discrete_clockwise_observed")
                run.state("discrete_clockwise", ctx.prefix)
            want = float(ring.area) * s * s
            tol = rtol * want + (ARC_RTOL * ring.arc_area + s_area) * s * s
            if abs(abs(a) - want) > tol:
                ctx.bad("discrete", "ring_area", "area enclosed by a discrete curve differs from its ring",
                        index=i, ring=ri, kind=ring.kind, got=abs(a), want=want)
            if not ring.has_arc and len(d) - 1 != len(ring.edges) and not sl.get("pos"):
                ctx.bad("discrete", "vertex_count", "polyline ring rebuilt with a different number of corners",
                        index=i, ring=ri, got=len(d) - 1, want=len(ring.edges))
        if sl.get("shallow") and ("discrete", "off_curve") in ctx.symptoms:
            # the polygons and bounds are built from the same points
            ctx.root_masked |= {"polygons_closed", "polygons_full", "bounds", "extents", "centroid"}
        got = sorted(r for r in path_ring if r is not None)
        if len(disc) == nr and got != list(range(nr)) and None not in path_ring:
            ctx.bad("discrete", "ring_duplicated", "some ring reconstructed twice / another never", rings=got)
    # ---- entity paths (provenance known)
    if ok("paths"):
        paths = obs["paths"]
        if len(paths) != nr:
            ctx.bad("paths", "count", "%d closed paths, drawing has %d rings" % (len(paths), nr), got=len(paths), want=nr)
        if pres is not None:
            er, es = np.array(pres.ent_ring), np.array(pres.ent_seq)
            seen = set()
            for i, p in enumerate(paths):
                p = np.asarray(p, dtype=np.int64).reshape(-1)
                if len(p) == 0 or p.max() >= len(er) or p.min() < 0:
                    ctx.bad("paths", "bad_index", "path refers to entities that do not exist", index=i, path=p.tolist())
                    continue
                rings = set(er[p].tolist())
                if len(rings) != 1:
                    ctx.bad("paths", "mixes_rings", "one closed path mixes entities of several rings", index=i, path=p.tolist())
                    continue
                ri = rings.pop()
                m = pres.ring_len[ri]
                if len(p) != m or len(set(p.tolist())) != m:
                    ctx.bad("paths", "incomplete", "closed path does not use every entity of its ring exactly once",
                            index=i, path=p.tolist(), ring=ri, ring_entities=m)
                    continue
                seen.add(ri)
                q = es[p]
                if m > 2:
                    step = set(((q[(j + 1) % m] - q[j]) % m) for j in range(m))
                    if step not in ({1}, {m - 1}):
                        ctx.bad("paths", "order", "entities of a closed path are not in traversal order",
                                index=i, path=p.tolist(), ring_positions=q.tolist())
                if path_ring is not None and i < len(path_ring) and path_ring[i] is not None and path_ring[i] != ri:
                    ctx.bad("paths", "discrete_mismatch", "discrete[i] is not the curve of paths[i]", index=i)
            if len(paths) == nr and len(seen) != nr:
                ctx.bad("paths", "ring_missing", "some ring has no closed path", rings=sorted(seen))
    # the remaining structural checks need the path -> ring map
    pr_ok = path_ring is not None and len(path_ring) == nr and None not in path_ring
    # ---- closed polygons
    if ok("polygons_closed"):
        pc = obs["polygons_closed"]
        if len(pc) != nr:
            ctx.bad("polygons_closed", "count", "%d closed polygons for %d rings" % (len(pc), nr), got=len(pc), want=nr)
        for i, p in enumerate(pc):
            if p is None:
                ctx.bad("polygons_closed", "none", "a closed curve gave no polygon", index=i)
                continue
            ri = path_ring[i] if pr_ok and i < nr else None
            if ri is None:
                ri, dist = which_ring(np.array(p.exterior.coords)[:1])
                if ri is None or dist > eps0:
                    continue
            ring = D.rings[ri]
            want = float(ring.area) * s * s
            tol = rtol * want + (ARC_RTOL * ring.arc_area + s_area) * s * s
            if abs(p.area - want) > tol or len(p.interiors) != 0 or not p.is_valid:
                ctx.bad("polygons_closed", "ring_area", "closed polygon differs from its ring (area / interiors / validity)",
                        index=i, ring=ri, kind=ring.kind, got=p.area, want=want, interiors=len(p.interiors))
    if ok("path_valid") and not (len(obs["path_valid"]) == nr and bool(np.all(obs["path_valid"]))):
        ctx.bad("path_valid", "false", "path_valid is not all True", got=np.asarray(obs["path_valid"]).tolist())
    # ---- nesting
    if ok("root") and pr_ok:
        got = sorted(path_ring[int(i)] for i in obs["root"] if 0 <= int(i) < nr)
        if got != sorted(shells) or len(obs["root"]) != len(shells):
            ctx.bad("root", "wrong_set", "root curves are not the even-depth rings", got=got, want=sorted(shells),
                    depths=[r.depth for r in D.rings])
    if ok("enclosure_directed") and pr_ok:
        nodes, edges = obs["enclosure_directed"]
        try:
            got = {(path_ring[a], path_ring[b]) for a, b in edges}
            gn = sorted(path_ring[a] for a in nodes)
        except (IndexError, TypeError):
            got, gn = None, None
        want = D.expected_edges()
        if got != want:
            ctx.bad("enclosure_directed", "wrong_edges", "shell -> hole edges differ from the generator's nesting",
                    got=sorted(got) if got is not None else None, want=sorted(want), depths=[r.depth for r in D.rings])
        elif gn != list(range(nr)):
            ctx.bad("enclosure_directed", "wrong_nodes", "enclosure graph does not have one node per ring", got=gn)
    if ok("enclosure") and pr_ok:
        nodes, edges = obs["enclosure"]
        try:
            got = {frozenset((path_ring[a], path_ring[b])) for a, b in edges}
        except (IndexError, TypeError):
            got = None
        want = {frozenset(e) for e in D.expected_edges()}
        if got != want:
            ctx.bad("enclosure", "wrong_edges", "undirected enclosure differs from the generator's nesting")
    if ok("enclosure_shell") and pr_ok:
        try:
            got = {path_ring[k]: sorted(path_ring[i] for i in v) for k, v in obs["enclosure_shell"].items()}
        except (IndexError, TypeError):
            got = None
        want = {i: sorted(D.rings[i].children) for i in shells}
        if got != want:
            ctx.bad("enclosure_shell", "wrong_map", "shell -> holes map differs from the generator's nesting", got=got, want=want)
    if ok("body_count") and obs["body_count"] != len(shells):
        ctx.bad("body_count", "wrong_count", "body_count differs from the number of shells", got=int(obs["body_count"]), want=len(shells))
    # ---- full polygons
    if ok("polygons_full"):
        pf = obs["polygons_full"]
        if len(pf) != len(shells):
            ctx.bad("polygons_full", "count", "%d polygons for %d shells" % (len(pf), len(shells)), got=len(pf), want=len(shells))
        seen = []
        for i, p in enumerate(pf):
            if p is None or not hasattr(p, "exterior"):
                ctx.bad("polygons_full", "none", "polygons_full holds a non-polygon", index=i, got=repr(p)[:80])
                continue
            ri, dist = which_ring(np.array(p.exterior.coords)[:-1])
            if ri is None or dist > eps0:
                ctx.bad("polygons_full", "off_curve", "exterior of a full polygon is not a generating ring", index=i, distance=dist)
                continue
            seen.append(ri)
            ring = D.rings[ri]
            if ring.depth % 2:
                ctx.bad("polygons_full", "hole_as_shell", "a hole ring is the exterior of a full polygon", index=i, ring=ri)
                continue
            want = float(D.region_area(ri)) * s * s
            tol = rtol * float(ring.area) * s * s + s * s * (s_area + ARC_RTOL * (ring.arc_area + sum(D.rings[c].arc_area for c in ring.children)))
            if len(p.interiors) != len(ring.children):
                ctx.bad("polygons_full", "hole_count", "full polygon has the wrong number of holes",
                        index=i, ring=ri, got=len(p.interiors), want=len(ring.children))
            elif abs(p.area - want) > tol:
                ctx.bad("polygons_full", "region_area", "area of shell minus holes is wrong", index=i, ring=ri, got=p.area, want=want)
            elif not p.is_valid:
                ctx.bad("polygons_full", "invalid", "full polygon is not valid", index=i, ring=ri)
        if len(pf) == len(shells) and sorted(seen) != sorted(shells) and len(seen) == len(pf):
            ctx.bad("polygons_full", "wrong_shells", "full polygons are not built on the shells", got=sorted(seen), want=sorted(shells))
    # ---- totals
    # (histories with similarities next to the identity judge the totals well below the step: rtol_total)
    rtot = sl.get("rtol_total", rtol)
    if ok("area"):
        tol = rtot * max(exp_area, s * s) + arc_tol_area
        if abs(obs["area"] - exp_area) > tol:
            ctx.bad("area", "wrong_value", "total area differs from shells minus holes", got=float(obs["area"]), want=exp_area, tol=tol)
        elif sl.get("rtol_total") and not D.has_arc:
            _note_max(run, "near_one_max_relative_error_area_lines", abs(obs["area"] - exp_area) / max(exp_area, s * s))
    if ok("area") and ok("polygons_full") and all(p is not None and hasattr(p, "area") for p in obs["polygons_full"]):
        # the total of one object against the regions of the SAME object (the total is their sum): exact also
        # for arcs, where the polygonisation hides everything below 2e-3 of the arc area from the check above
        tot = math.fsum(float(p.area) for p in obs["polygons_full"])
        # (far from the origin the regions themselves carry 2e-14 x conditioning of rounding: see slack["rtol"])
        if abs(float(obs["area"]) - tot) > (1e-12 + max(0.0, rtol - RTOL)) * max(abs(tot), s * s):
            ctx.bad("area", "differs_from_polygons_full", "total area is not the sum of the areas of the full polygons "
                    "of the same path", got=float(obs["area"]), polygons=tot)
        run.count("area_vs_own_polygons")
    if ok("length"):
        tol = rtot * exp_len + s_len * s
        if abs(obs["length"] - exp_len) > tol:
            extra = (float(obs["length"]) - exp_len) / s
            al = D.arc_length()
            if al > 0 and abs(extra - al) <= 1e-9 * D.length():
                sym = "arc_length_counted_twice"
            elif al > 0:
                sym = "wrong_value_arcs"
            else:
                sym = "wrong_value"
            ctx.bad("length", sym, "total length differs from the sum of ring perimeters",
                    got=float(obs["length"]), want=exp_len, arc_length=al * s)
        elif sl.get("rtol_total"):
            _note_max(run, "near_one_max_relative_error_length_" + D.input_class, abs(obs["length"] - exp_len) / exp_len)
    if sl.get("spurs"):
        # corner pieces smaller than the merge distance: every closed path, polygon, area and length is
        # judged above; welded sub-resolution pieces may leave a vertex that is not of degree two, which
        # is bookkeeping below the library's resolution (observed, not judged)
        if (ok("is_closed") and not bool(obs["is_closed"])) or (ok("vertex_graph") and set(obs["vertex_graph"]) - {2}):
            run.count("sub_resolution_spur_observed")
    else:
        if ok("is_closed") and not bool(obs["is_closed"]):
            ctx.bad("is_closed", "false", "is_closed is False for a drawing of closed rings")
        if ok("vertex_graph") and set(obs["vertex_graph"]) - {2}:
            ctx.bad("vertex_graph", "degree", "vertex graph has nodes of degree != 2", degrees=sorted(set(obs["vertex_graph"])))
        if ok("dangling") and len(obs["dangling"]):
            ctx.bad("dangling", "nonempty", "entities reported dangling", got=np.asarray(obs["dangling"]).tolist())
    # ---- bounds
    if ok("bounds") or ok("extents") or ok("centroid"):
        P = _dense_points(D)
        P = P @ M[:2, :2].T + M[:2, 2]
        eb = np.array([P.min(axis=0), P.max(axis=0)])
        tol = (1e-8 * L0 + sl.get("pos", 0.0) + _bounds_arc_tol(D)) * s
        if ok("bounds") and (np.shape(obs["bounds"]) != (2, 2) or np.abs(obs["bounds"] - eb).max() > tol):
            ctx.bad("bounds", "wrong_value", "bounds differ from the extent of the rings", got=obs["bounds"], want=eb)
        if ok("extents") and (np.shape(obs["extents"]) != (2,) or np.abs(obs["extents"] - (eb[1] - eb[0])).max() > 2 * tol):
            ctx.bad("extents", "wrong_value", "extents differ from the extent of the rings", got=obs["extents"], want=eb[1] - eb[0])
        if ok("centroid") and (np.shape(obs["centroid"]) != (2,) or np.abs(obs["centroid"] - eb.mean(axis=0)).max() > 2 * tol):
            ctx.bad("centroid", "wrong_value", "bounding-box centroid wrong", got=obs["centroid"], want=eb.mean(axis=0))
    run.count("judgements")
    return path_ring if pr_ok else None


def summary(obs):
    """Order-free numbers used to compare a transformed path with a freshly built one."""
    out = {}
    for k in ("area", "length", "body_count", "is_closed"):
        v = obs.get(k)
        out[k] = None if isinstance(v, Exc) or v is None else float(v)
    for k in ("paths", "root"):
        v = obs.get(k)
        out["n_" + k] = None if isinstance(v, Exc) or v is None else len(v)
    v = obs.get("polygons_full")
    if v is not None and not isinstance(v, Exc):
        out["full"] = sorted((round(len(p.interiors)), float(p.area)) for p in v if p is not None)
    v = obs.get("enclosure_directed")
    if v is not None and not isinstance(v, Exc):
        out["n_edges"] = len(v[1])
    v = obs.get("bounds")
    if v is not None and not isinstance(v, Exc):
        out["bounds"] = np.asarray(v, dtype=np.float64)
    return out


def compare_fresh(ctx, got, want, D, s):
    """Differential: the mutated path against a freshly built one with the same geometry."""
    sl = ctx.slack or {}
    rtol = sl.get("rtol_total", sl.get("rtol", RTOL))
    arc = (ARC_RTOL * D.arc_area() + sl.get("area", 0.0)) * s * s
    if ctx.root_fired and ctx.loop_root:
        return
    for k in ("n_paths", "n_root", "n_edges", "body_count", "is_closed"):
        if k == "is_closed" and sl.get("spurs"):
            continue
        if got.get(k) != want.get(k) and got.get(k) is not None and want.get(k) is not None:
            ctx.bad(k, "differs_from_fresh", "value differs from a freshly built path", got=got.get(k), want=want.get(k))
    for k, tol in (("area", rtol * (want.get("area") or 0) + 2 * arc),
                   ("length", rtol * (want.get("length") or 0) + 2 * sl.get("length", 0.0) * s)):
        if got.get(k) is not None and want.get(k) is not None and abs(got[k] - want[k]) > tol:
            ctx.bad(k, "differs_from_fresh", "value differs from a freshly built path", got=got[k], want=want[k])
    if "full" in got and "full" in want:
        a, b = got["full"], want["full"]
        if len(a) != len(b) or [x[0] for x in a] != [x[0] for x in b]:
            if sorted(x[0] for x in a) != sorted(x[0] for x in b):
                ctx.bad("polygons_full", "differs_from_fresh", "hole counts differ from a freshly built path",
                        got=[x[0] for x in a], want=[x[0] for x in b])


# ----------------------------------------------------------------------------
# histories


def _apply(path, step, rnd):
    """Apply one transform step through the chosen public method; returns the matrix that the
    method is documented to apply (3x3)."""
    M = np.array(step["M"], dtype=np.float64)
    via = step["via"]
    if via == "apply_transform":
        path.apply_transform(M)
    elif via == "apply_scale":
        # documented argument: float or (2,) float; a negative uniform factor is a half turn
        # combined with a change of size (determinant factor^2 > 0: a similarity)
        if step.get("scale_form") == "vector":
            path.apply_scale(np.array([float(step["scale"])] * 2))
        else:
            path.apply_scale(float(step["scale"]))
    elif via == "apply_translation":
        path.apply_translation(np.array(step["offset"], dtype=np.float64))
    elif via == "rezero":
        # documented to return the matrix that was applied; the caller checks it against the law
        return ("rezero", np.array(path.rezero(), dtype=np.float64))
    elif via == "vertices_assign":
        V = np.asarray(path.vertices)
        path.vertices = V @ M[:2, :2].T + M[:2, 2]
    else:
        raise ValueError(via)
    return M


def _drawing(spec):
    cls = spec.get("cls")
    if cls in gp.SPECIAL:
        return gp.special_drawing_from_seed(cls, spec["dseed"])
    return gp.drawing_from_seed(spec["dseed"], kinds=spec.get("kinds"), max_rings=spec.get("max_rings", 10))


def class_of_case(D, pres, spec):
    """
    -> (key fragment, slack) of the opt-in drawing classes next to the library's resolution.
    The fragment names the class by the quantity the mechanism depends on:
      arcs=shallow                     some three point arc spans less than 0.02 rad
      detail=fillet_near_merge_grid    corner fillets / chamfers of 3e-6 ... 5e-4 of the diagonal
      gap=below_chord_sag              nested curves closer than the sagitta of a legitimate chord
    """
    cls = spec.get("cls")
    pieces = arc_pieces_info(pres)
    slack = {"area": shallow_slack_area(pieces)}
    frag = ""
    if pieces and min(t for _, t in pieces) < 0.02:
        frag = "arcs=shallow"
        slack["shallow"] = True
    if cls == "fillet":
        frag = "detail=fillet_near_merge_grid"
        b0 = D.bounds()
        diag = float(np.linalg.norm(b0[1] - b0[0]))
        # merge_vertices welds vertices that round to the same cell of a grid of at most 1e-4 of the
        # diagonal (tol.merge * scale rounded up to a power of ten): a welded vertex moves by at most
        # sqrt(2) cells; the region must survive, displaced by no more than that
        pos = 1.5e-4 * diag
        slack.update(pos=pos, area=slack["area"] + pos * D.length(), length=6.0 * pos * len(pres.entities), spurs=True)
    elif cls == "close":
        frag = "gap=below_chord_sag"
    return frag, slack


def observe_nesting(ctx, path):
    """
    Root observation of the enclosure tree for nested curves with a small gap: the number of
    (shell, hole) edges.  When it is wrong the reads computed from the tree are its consequences.
    """
    want = len(ctx.D.expected_edges())
    try:
        got = len(path.enclosure_directed.edges())
    except BaseException as e:  # noqa
        ctx.bad("enclosure_tree", "exception:" + type(e).__name__, "enclosure_directed raised", error=repr(e)[:200])
        return True
    if got != want:
        ctx.bad("enclosure_tree", "nesting_not_found", "%d shell -> hole edges for curves nested with a small gap, "
                "expected %d" % (got, want), got=got, want=want, gap=getattr(ctx.D, "gap", None))
        ctx.root_masked |= NEST_DOWNSTREAM
        ctx.root_fired = True
        return True
    return False


def _min_vertex_distance(pres):
    """smallest distance between two vertex rows that are not bit-identical"""
    from scipy.spatial import cKDTree

    V = np.unique(pres.vertices, axis=0)
    if len(V) < 2:
        return np.inf
    d, _ = cKDTree(V).query(V, k=2)
    return float(d[:, 1].min())


def execute(run, spec):
    """Run one case described by a JSON-able spec; judge after every step."""
    import trimesh

    cls = spec.get("cls")
    D = _drawing(spec)
    ap = spec.get("arc_pieces")
    pres = gp.presentation_from_seed(D, spec["pseed"], allow_closed_arc=spec.get("closed_arc", True),
                                     arc_pieces=tuple(ap) if ap else None)
    rnd = random.Random(spec.get("rseed", 0))
    process = spec.get("process", True)
    ckey, slack0 = class_of_case(D, pres, spec)
    b0 = D.bounds()
    diag0 = float(np.linalg.norm(b0[1] - b0[0]))
    if cls in ("close", "shallow") and _min_vertex_distance(pres) < 1.2e-3 * diag0:
        # control points (of the two close curves / of neighbouring small pieces) within ten cells of the
        # grid of merge_vertices (at most 1e-4 of the diagonal): they might legitimately be welded
        run.skip("%s: control points within ten cells of the merge grid" % cls)
        return None

    # flat arcs are also observed one by one (read=arc_discrete): once one of them is off its circle the
    # reads computed from the polygonised arcs are consequences, for the rest of this case (cached
    # curves are carried through the transforms)
    arc_masked = set()

    def context(route, extra="", **kw):
        c = Ctx(run, D, spec, route, " ".join(x for x in (extra, ckey) if x), **kw)
        c.slack = dict(slack0)
        c.loop_root = cls == "fillet"
        c.masked |= arc_masked
        return c

    try:
        path = pres.build(process=process)
    except BaseException as e:  # noqa
        run.violation("route=direct input=%s read=constructor sym=exception:%s" % (D.input_class, type(e).__name__),
                      "Path2D constructor raised", dict(spec, error=repr(e)[:300]))
        return None
    nent = len(pres.entities)
    steps = spec.get("steps", [])
    final = spec.get("final")
    nontrivial = nent > len(D.rings) or any(r.depth for r in D.rings) or bool(steps) or bool(final)
    sig = pres.signature()
    # entity provenance is only known while the path holds the presentation's entities one to one
    # (merge_vertices legitimately drops an entity whose points all fall into one cell)
    pres_of = lambda q: pres if len(q.entities) == nent else None  # noqa
    # ---- direct
    ctx = context("direct")
    if cls == "close":
        observe_nesting(ctx, path)
    shallow = bool(slack0.get("shallow"))
    if shallow and len(path.entities) == nent and observe_arc_entities(context("direct"), path, pres, np.eye(3)):
        arc_masked |= ARC_DOWNSTREAM
        ctx.masked |= arc_masked
    obs = observe(path, READS, rnd)
    judge(ctx, obs, None, pres_of(path))
    run.case("direct:%s:%s:%s" % (D.input_class, pres.mode, cls or "std"), sig[0], sig[1], process, nontrivial=nontrivial)
    run.state("nesting", D.depth_profile())
    run.state("entity_kinds", tuple(sorted(set(t + ("C" if c else "") for t, _, c in pres.entities))))
    run.state("ring_kinds", tuple(sorted(set(r.kind for r in D.rings))))
    if ckey:
        run.state("drawing_class", ckey)
        run.count("cases_" + ckey.split("=")[0] + "_class")
    run.count("rings", len(D.rings))
    run.count("entities", nent)
    if ctx.root_fired:
        # the path is broken from the start: a history on it shows the same thing again
        run.count("case_ended_at_root_symptom")
        return None
    first = summary(obs)
    first["_slack"] = dict(slack0)
    if arc_masked:
        # not a reference for the comparison across presentations
        first.pop("area", None)
    last_symptoms = set(ctx.symptoms)
    # ---- transforms
    Macc = np.eye(3)
    gkey, gtags, masked = "", set(), set()
    fresh_root = False
    slack = dict(slack0)
    for si, step in enumerate(steps):
        pre = step.get("pre", [])
        pre_class = "none" if not pre else ("all" if len(pre) >= len(READS) else "some")
        if si > 0 or pre_class != "all":
            # the direct observation above already read everything: rebuild for a clean cache
            if si == 0:
                path = pres.build(process=process)
            observe(path, pre, None)
        tfc = step["tf"].split(":")[0]
        via = step["via"]
        extra = "tf=%s via=%s pre=%s" % (tfc, via, pre_class)
        if via == "apply_scale":
            extra += " factor=%s%s" % ("negative" if float(step["scale"]) < 0 else "positive",
                                       "_vector" if step.get("scale_form") == "vector" else "")
        ctx = context("transform", extra)
        try:
            M = _apply(path, step, rnd)
        except BaseException as e:  # noqa
            ctx.bad(via, "exception:" + type(e).__name__, "transform method raised", error=repr(e)[:300])
            break
        if isinstance(M, tuple):
            # rezero: the returned matrix must be the translation that moves the lower-left corner of
            # the (exact) bounds to the origin; arc bounds are approximate (documented), hence the tolerance
            M = M[1]
            P = _dense_points(D) @ Macc[:2, :2].T + Macc[:2, 2]
            want = np.eye(3)
            want[:2, 2] = -P.min(axis=0)
            s0 = _mat_props(Macc)[1]
            if M.shape != (3, 3) or np.abs(M - want).max() > (_bounds_arc_tol(D) + slack0.get("pos", 0.0)) * s0 + 1e-8 * (np.abs(P).max() + 1):
                ctx.bad("rezero", "wrong_matrix", "rezero did not translate the lower-left corner to the origin",
                        got=M, want=want)
                break
        # (matrices within 1e-8 of the identity used to be skipped by apply_transform; since 7e187dd
        # only the exact identity is, so the expected matrix is the one that was passed - at ordinary
        # sizes the two expectations differ by less than the positional tolerance anyway)
        Macc = M @ Macc
        det, s = _mat_props(Macc)
        gkey, gtags = geometry_class(D, pres, Macc)
        if gkey:
            ctx.prefix += " " + gkey
            run.state("geometry_class", gkey)
        # conditioning of the placement: coordinates `cond` times larger than the drawing leave
        # 2.2e-16 * cond of its size as the resolution of float64
        far, ext = placement(D, Macc)
        cond = far / ext
        slack = dict(slack0)
        if cond > 1e3:
            slack["rtol"] = RTOL + 2e-14 * cond
            slack["pos"] = slack.get("pos", 0.0) + 4e-16 * far / s
        if tfc == "similarity_near_one" and cond <= 1e3:
            slack["rtol_total"] = NEAR_ONE_RTOL
        ctx.slack = dict(slack)
        resolution_class = bool(gtags & {"size=extents_above_1e6", "place=far_from_origin"})
        ctx.loop_root = ctx.loop_root or resolution_class
        masked = set()
        # a freshly built path with the same geometry (new entities, empty cache) is judged first:
        # what it shows too is not caused by the history and is reported under route=direct
        fsum = None
        fctx = context("direct", gkey)
        fctx.spec = dict(spec, fresh_with_matrix=Macc.tolist())
        fctx.slack = dict(slack)
        fctx.loop_root = ctx.loop_root
        if resolution_class and cls != "fillet":
            # distinct generated points are >= 8e-4 of the extents apart at every scale
            fctx.expect_vertices = len(np.unique(pres.vertices, axis=0))
        fresh = None
        try:
            fresh = pres.build(matrix=Macc, process=process)
        except BaseException as e:  # noqa
            # the same drawing given in the transformed coordinates cannot even be constructed
            fctx.bad("constructor", "exception:" + type(e).__name__, "Path2D constructor raised for the transformed "
                     "geometry: %s" % str(e)[:120], error=repr(e)[:300])
        if fresh is not None:
            try:
                # (its key carries the arc class only: the overall size plays no part in it)
                actx = Ctx(run, D, fctx.spec, "direct", "arcs=cross_below_tol_zero")
                if "arcs=cross_below_tol_zero" in gtags and observe_arc_entities(actx, fresh, pres, Macc):
                    # the root symptom is on record: what is computed from the polygonised arcs is a
                    # consequence (for this geometry only - arcs above the threshold stay fully judged)
                    masked = set(ARC_DOWNSTREAM)
                    fctx.masked = ctx.masked = masked
                    run.count("geometries_with_arc_off_circle")
                elif shallow and len(fresh.entities) == nent and observe_arc_entities(context("direct"), fresh, pres, Macc):
                    arc_masked |= ARC_DOWNSTREAM
                    fctx.masked |= arc_masked
                    ctx.masked |= arc_masked
                fobs = observe(fresh, READS, rnd)
                judge(fctx, fobs, Macc, pres_of(fresh))
                ctx.inherited = set(fctx.symptoms)
                if not fctx.symptoms - {("length", "arc_length_counted_twice")}:
                    fsum = summary(fobs)
            except BaseException as e:  # noqa
                run.skip("fresh path could not be judged: %s" % type(e).__name__)
        if shallow and not masked and not arc_masked and len(path.entities) == nent and observe_arc_entities(context("direct"), path, pres, Macc):
            arc_masked |= ARC_DOWNSTREAM
            ctx.masked |= arc_masked
        obs = observe(path, READS, rnd)
        judge(ctx, obs, Macc, pres_of(path))
        if fsum is not None:
            compare_fresh(ctx, summary(obs), fsum, D, s)
        # (a path read back from a file is built from the same coordinates as the fresh one)
        last_symptoms = set(ctx.symptoms) | set(fctx.symptoms)
        fresh_root = fctx.root_fired
        run.case("transform:%s:%s:%s" % (tfc, via, pre_class), sig[0], sig[1], si, tuple(sorted(pre)),
                 np.asarray(step["M"]), nontrivial=tfc != "identity")
        run.state("tf_pre", (tfc, via, pre_class))
        run.state("cache_keys_before", tuple(sorted(pre)) if len(pre) < 4 else len(pre))
    # ---- final route
    det0, s0 = _mat_props(Macc)
    far, ext = placement(D, Macc)
    if final == "path3d" and cls == "fillet":
        # to_2D constructs a new path in a frame of its own: the constructor's merge once more, in a
        # form that is not one of the statement's
        final = None
    if final in ("dxf", "svg") and cls in (None, "shallow"):
        rmax = max([R for R, _ in arc_pieces_info(pres)] + [0.0])
        if rmax > 100.0 * diag0:
            # DXF / SVG describe an arc by its centre and radius: for a radius hundreds of times the
            # drawing the stored digits, not the code, decide where its end points are read back
            run.count("text_roundtrip_of_large_radius_arcs_replaced_by_dict")
            final = "dict"
    if final == "dxf" and "size=extents_above_1e6" in gtags and ext > 2e9:
        # beyond this size one unit in the last place of a coordinate is comparable to the finest
        # grid merge_vertices ever uses (0.1): whether the end points of an arc read back from its
        # centre, radius and angles weld with their neighbours is then decided by float64 rounding
        run.count("dxf_roundtrip_of_huge_drawing_replaced_by_dict")
        final = "dict"
    if final in ("dxf", "svg"):
        # DXF / SVG store a fixed number of decimals: after a similarity of 1e-3 (or 1e3, where the
        # exporters switch notation) the stored precision, not the code, decides the relative
        # error.  The statement promises "the precision the format stores": judge the text round
        # trips for drawings of ordinary size only (the dict route is exact and always judged).
        # DXF writes 12 SIGNIFICANT digits (%.12g) - a relative precision: a change of units about
        # the origin leaves the stored relative precision where it was, and the DXF form is judged
        # whenever the coordinates are no larger, relative to the drawing, than in the generated
        # drawing itself.  SVG writes 13 DECIMALS (absolute): small drawings lose digits, skipped.
        if not (0.05 <= s0 <= 200.0):
            P0 = _dense_points(D, n=64)
            far0 = float(np.abs(P0).max())
            far1 = float(np.abs(P0 @ Macc[:2, :2].T + Macc[:2, 2]).max())
            if final == "dxf" and far1 <= 1.5 * s0 * max(far0, diag0):
                run.count("dxf_roundtrip_after_change_of_units")
            else:
                run.skip("text round trip at extreme scale: format precision dominates")
                final = None
    if final in ("dxf", "svg", "dict"):
        det, s = _mat_props(Macc)
        fslack = dict(slack)
        # (the files store 12-13 digits: the tolerance of the exact totals after a step next to one is not theirs)
        fslack.pop("rtol_total", None)
        if final == "dxf" and "place=far_from_origin" in gtags:
            # twelve significant digits of coordinates `far`: where the curve is read back is the format's
            # business (5e-12 relative per stored number, an arc is rebuilt from five of them) -
            # whether the regions are still there is the library's
            pos = 5e-11 * far / s
            fslack.update(pos=fslack.get("pos", 0.0) + pos, area=fslack.get("area", 0.0) + 2.0 * pos * D.length(),
                          length=fslack.get("length", 0.0) + 8.0 * pos * nent)
        ctx = context(final, gkey, inherited=last_symptoms, masked=masked)
        ctx.slack = fslack
        ctx.loop_root = cls == "fillet" or bool(gtags & {"size=extents_above_1e6", "place=far_from_origin"})
        ctx.root_inherited = fresh_root
        loaded = None
        units = spec.get("units") if final == "dxf" else None
        via = spec.get("dict_via", "dict_to_path") if final == "dict" else None
        try:
            if final == "dict":
                from trimesh.path.exchange.misc import dict_to_path

                stage = "export"
                exported = path.export(file_type="dict")
                if via == "dict_to_path":
                    stage = "dict_to_path"
                    kwargs = dict_to_path(exported)
                    stage = "constructor"
                    loaded = trimesh.path.Path2D(**kwargs)
                elif via == "load_path":
                    # documented: load_path accepts a "dict with kwargs for Path constructor", and
                    # export_dict returns "a dict of kwargs for the Path constructor"
                    stage = "load_path_of_exported_dict"
                    loaded = trimesh.load_path(exported)
                elif via == "load":
                    stage = "load_of_exported_dict"
                    loaded = trimesh.load(exported)
                    if type(loaded).__name__ == "Scene" and len(loaded.geometry) == 1:
                        # `load` hands kwargs back wrapped in a scene (also for meshes): its one geometry
                        loaded = list(loaded.geometry.values())[0]
                else:
                    stage = "constructor_with_exported_dict"
                    loaded = trimesh.path.Path2D(**exported)
                run.count("dict_reimport_via_" + via)
            else:
                stage = "export"
                if units:
                    path.units = units
                exported = path.export(file_type=final)
                stage = "load_path"
                data = exported.encode("utf-8") if isinstance(exported, str) else exported
                loaded = trimesh.load_path(io.BytesIO(data), file_type=final)
        except BaseException as e:  # noqa
            name = type(e).__name__
            if stage in ("constructor", "load_path") and ("constructor", "exception:" + name) in last_symptoms:
                # the loader builds a Path2D from the same coordinates: the constructor's refusal, on record
                run.count("symptom_inherited_from_source")
            elif stage.endswith("exported_dict"):
                run.violation("route=dict stage=%s sym=exception:%s" % (stage, name),
                              "the exported dict is refused: %s" % str(e)[:120], dict(spec, error=repr(e)[:300]))
            else:
                kinds = "with_Line" if any(t == "Line" for t, _, _ in pres.entities) else "arcs_only"
                tag = (" " + " ".join(x for x in (gkey, ckey) if x)) if (gkey or ckey) else ""
                run.violation("route=%s stage=%s entities=%s%s sym=exception:%s" % (final, stage, kinds, tag, name),
                              "%s round trip raised in %s: %s" % (final, stage, str(e)[:120]), dict(spec, error=repr(e)[:300]))
        if loaded is not None:
            if type(loaded).__name__ != "Path2D":
                ctx.bad("type", "not_path2d", "round trip returned %s" % type(loaded).__name__)
            else:
                if units:
                    run.count("dxf_roundtrip_with_units")
                    run.state("units", units)
                    got_units = getattr(loaded, "units", None)
                    if got_units != units:
                        run.violation("route=%s units=declared read=units sym=changed" % final,
                                      "a drawing exported in %s is read back in %s: its area and length are not the "
                                      "ones that were exported" % (units, got_units),
                                      dict(spec, observed={"exported": units, "loaded": got_units}))
                lobs = observe(loaded, READS, rnd)
                judge(ctx, lobs, Macc, None)
                ls = summary(lobs)
                vctx = context(final, ("check=vs_source " + gkey).strip(), inherited=last_symptoms, masked=masked)
                vctx.slack = fslack
                vctx.root_masked, vctx.root_fired, vctx.loop_root = set(ctx.root_masked), ctx.root_fired, ctx.loop_root
                compare_fresh(vctx, ls, summary(observe(path, ["area", "length", "body_count", "is_closed", "paths", "root", "polygons_full", "enclosure_directed"])), D, s)
        run.case("roundtrip:%s:%s:%s" % (final, D.input_class, via or units or ""), sig[0], sig[1], np.asarray(Macc), nontrivial=True)
        run.count("roundtrip_" + final)
    elif final == "path3d":
        ctx = context("path3d", gkey, inherited=last_symptoms, masked=masked)
        det, s = _mat_props(Macc)
        try:
            T = np.array(spec.get("to3d", np.eye(4).tolist()), dtype=np.float64)
            p3 = path.to_3D(transform=T)
            try:
                l3 = float(p3.length)
            except BaseException as e:  # noqa
                # (the same read as on the planar path: inherited when that one raises too)
                ctx.bad("length", "exception:" + type(e).__name__, "Path3D length raised", error=repr(e)[:200])
                l3 = D.length() * s
            c3, n3 = bool(p3.is_closed), len(p3.paths)
            if abs(l3 - D.length() * s) > slack.get("rtol", RTOL) * D.length() * s + slack.get("length", 0.0) * s:
                al = D.arc_length() * s
                sym = "arc_length_counted_twice" if al > 0 and abs(l3 - D.length() * s - al) < 1e-9 * D.length() * s else "wrong_value"
                ctx.bad("length", sym, "Path3D length differs from the sum of ring perimeters", got=l3, want=D.length() * s)
            if not c3:
                ctx.bad("is_closed", "false", "Path3D of closed rings is not closed")
            if n3 != len(D.rings):
                ctx.bad("paths", "count", "Path3D closed path count differs from ring count", got=n3, want=len(D.rings))
            back, to3 = p3.to_2D()
            # to_2D picks its own planar frame (a rigid motion, possibly mirrored): compare invariants only
            bobs = observe(back, ["area", "length", "body_count", "is_closed", "paths", "root", "polygons_full", "enclosure_directed"])
            for k, v in bobs.items():
                if isinstance(v, Exc):
                    ctx.bad(k, "exception:" + v.name, "reading `%s` after to_3D/to_2D raised" % k, error=repr(v))
            bs = summary(bobs)
            want = {"area": D.area() * s * s, "n_paths": len(D.rings), "n_root": len(D.shells()), "body_count": float(len(D.shells())),
                    "is_closed": 1.0, "n_edges": len(D.expected_edges())}
            for k, w in want.items():
                g = bs.get(k)
                if g is None:
                    continue
                tol = (slack.get("rtol", RTOL) * w + 2 * (ARC_RTOL * D.arc_area() + slack.get("area", 0.0)) * s * s) if k == "area" else 0
                if abs(g - w) > tol:
                    ctx.bad(k, "wrong_value", "value after to_3D -> to_2D differs from the drawing", got=g, want=w)
        except BaseException as e:  # noqa
            ctx.bad("to_3D", "exception:" + type(e).__name__, "3D conversion raised", error=repr(e)[:300])
        run.case("path3d:%s" % D.input_class, sig[0], sig[1], nontrivial=True)
    return first


# ----------------------------------------------------------------------------
# workload


def _pre_reads(rnd):
    """What is read (= cached) before a step: nothing / everything / a few values - half of the
    time with one of the statement's totals among them."""
    k = rnd.random()
    if k < 0.25:
        return []
    if k < 0.5:
        return list(READS)
    pre = rnd.sample(READS, rnd.randint(1, 5))
    if rnd.random() < 0.5:
        t = rnd.choice(["area", "length"])
        if t not in pre:
            pre.append(t)
    return pre


def _scale_step(step, factor, rnd):
    """Express a uniform scale about the origin through Path2D.apply_scale (scalar or (2,) form)."""
    step.update(via="apply_scale", scale=float(factor), M=np.diag([factor, factor, 1.0]).tolist())
    if rnd.random() < 0.2:
        step["scale_form"] = "vector"
    return step


def _random_step(run, rnd, mats):
    # choose the class first (near-identity matrices outnumber the others in G-matrix)
    want = rnd.choices(["identity", "near_identity", "rigid", "similarity", "mirror_axis", "mirror_rot"],
                       [1, 3, 4, 5, 3, 4])[0]
    pool = [m for m in mats if m[0].split(":")[0] == want] or mats
    tag, M = pool[rnd.randrange(len(pool))]
    tfc = tag.split(":")[0]
    step = {"tf": tag, "M": M.tolist(), "via": "apply_transform"}
    r = rnd.random()
    if tfc == "similarity" and r < 0.35:
        # apply_scale takes any real factor: a negative one is a half turn about the origin combined
        # with the change of size (still a similarity: lengths grow by |factor|, areas by factor^2)
        sc = float(tag.split(":")[1])
        _scale_step(step, -sc if rnd.random() < 0.5 else sc, rnd)
    elif tfc == "rigid" and r < 0.2:
        off = [float(M[0, 2]), float(M[1, 2])]
        T = np.eye(3)
        T[:2, 2] = off
        step.update(via="apply_translation", offset=off, M=T.tolist())
    elif tfc == "rigid" and r < 0.3:
        step.update(via="rezero", M=np.eye(3).tolist())
    elif tfc == "rigid" and r < 0.4:
        # the half turn about the origin, spelled as a scale by -1
        _scale_step(step, -1.0, rnd)
    elif r > 0.85 and tfc not in ("identity", "near_identity"):
        step.update(via="vertices_assign")
    step["pre"] = _pre_reads(rnd)
    return step


def _tiny_step(run, rnd):
    """
    A change of units about the origin: similarity with factor 1e-6 ... 1e-9 (a rotation and an offset
    of a few drawing units are scaled along, so coordinates stay as large relative to the drawing as
    they were: float64 conditioning is unchanged, only the absolute size is).
    """
    sc = rnd.choice(TINY_SCALES)
    tag = "similarity_tiny:%g" % sc
    r = rnd.random()
    if r < 0.35:
        step = _scale_step({"tf": tag}, -sc if rnd.random() < 0.3 else sc, rnd)
    else:
        a = rnd.uniform(-math.pi, math.pi)
        M = np.eye(3)
        M[:2, :2] = sc * np.array([[math.cos(a), -math.sin(a)], [math.sin(a), math.cos(a)]])
        M[:2, 2] = sc * np.array([rnd.uniform(-5, 5), rnd.uniform(-5, 5)])
        step = {"tf": tag, "M": M.tolist(), "via": "vertices_assign" if r > 0.85 else "apply_transform"}
    step["pre"] = _pre_reads(rnd)
    return step


def _near_one_step(run, rnd):
    """
    A similarity next to the identity: factor 1 +- {1e-4 ... 1e-9}, with no / an equally small / an ordinary
    rotation and offset, through every public way of applying it.  ALWAYS after reading the statement's
    totals (and a few / all other values): the read - transform - read again history.
    """
    eps = rnd.choice(NEAR_ONE_EPS)
    sc = 1.0 + eps if rnd.random() < 0.5 else 1.0 - eps
    tag = "similarity_near_one:%g" % eps
    r = rnd.random()
    if r < 0.25:
        step = _scale_step({"tf": tag}, sc, rnd)
    else:
        k = rnd.random()
        a = 0.0 if k < 0.3 else (rnd.choice([-1, 1]) * eps if k < 0.5 else rnd.uniform(-math.pi, math.pi))
        k = rnd.random()
        off = [0.0, 0.0] if k < 0.3 else ([rnd.choice([-1, 1]) * eps, eps] if k < 0.5 else [rnd.uniform(-5, 5), rnd.uniform(-5, 5)])
        M = np.eye(3)
        M[:2, :2] = sc * np.array([[math.cos(a), -math.sin(a)], [math.sin(a), math.cos(a)]])
        M[:2, 2] = off
        step = {"tf": tag, "M": M.tolist(), "via": "vertices_assign" if r > 0.88 else "apply_transform"}
    k = rnd.random()
    if k < 0.3:
        pre = list(READS)
    else:
        pre = rnd.sample(READS, rnd.randint(0, 4))
        for t in (("area", "length") if k < 0.7 else (rnd.choice(["area", "length"]),)):
            if t not in pre:
                pre.append(t)
    step["pre"] = pre
    return step


def _huge_step(run, rnd):
    """
    The change of units the other way (the same drawing in nanometres instead of metres): similarity
    about the origin with factor 1e5 ... 1e12, rotation and an offset of a few drawing units scaled along.
    Extents of 4e6 ... 1e15: exactly representable, float64 is scale free.
    """
    sc = 10.0 ** rnd.randint(5, 12)
    tag = "similarity_huge:%g" % sc
    r = rnd.random()
    if r < 0.35:
        step = _scale_step({"tf": tag}, -sc if rnd.random() < 0.3 else sc, rnd)
    else:
        a = rnd.uniform(-math.pi, math.pi)
        M = np.eye(3)
        M[:2, :2] = sc * np.array([[math.cos(a), -math.sin(a)], [math.sin(a), math.cos(a)]])
        M[:2, 2] = sc * np.array([rnd.uniform(-5, 5), rnd.uniform(-5, 5)])
        step = {"tf": tag, "M": M.tolist(), "via": "vertices_assign" if r > 0.85 else "apply_transform"}
    step["pre"] = _pre_reads(rnd)
    return step


def _far_step(run, rnd, D, acc):
    """
    A georeferenced placement: translation by 1e5 ... 5e5 diagonals of the drawing (`acc` = factor
    accumulated by the steps before).  float64 keeps 1e-11 of the drawing's size there.
    """
    b0 = D.bounds()
    diag = float(np.linalg.norm(b0[1] - b0[0])) * acc
    ratio = 10.0 ** rnd.uniform(5.0, 5.7)
    a = rnd.uniform(-math.pi, math.pi)
    off = [ratio * diag * math.cos(a), ratio * diag * math.sin(a)]
    T = np.eye(3)
    T[:2, 2] = off
    r = rnd.random()
    step = {"tf": "translation_far:1e%d" % int(round(math.log10(ratio))), "M": T.tolist(), "via": "apply_transform"}
    if r < 0.45:
        step.update(via="apply_translation", offset=off)
    elif r > 0.85:
        step.update(via="vertices_assign")
    step["pre"] = _pre_reads(rnd)
    return step


# opt-in drawing classes next to the library's resolution (see class_of_case): spec fragments
def _special_class(rnd, k):
    if k == 0:
        # circles cut into hundreds of arcs: spans of 0.005 ... 0.02 rad
        return {"cls": "shallow", "kinds": ["circle"], "max_rings": 1, "arc_pieces": [350, 700, "mid"]}, (2, 3)
    if k == 1:
        # crowned plates: single arcs of 1.6e-4 ... 0.025 rad with a radius of 40 ... 6000 chords
        return {"cls": "shallow", "kinds": ["crowned", "crowned", "rect", "circle"], "max_rings": 4}, (5, 8)
    if k == 2:
        return {"cls": "shallow", "kinds": ["crowned", "circle", "bullet"], "max_rings": 3, "arc_pieces": [20, 80]}, (4, 6)
    if k == 3:
        return {"cls": "fillet"}, (6, 9)
    if k == 5:
        # circles as a major arc and its complement, control points next to the ends of the pieces
        return {"kinds": ["circle", "circle", "bullet", "rect"], "arc_pieces": ["major"]}, (5, 8)
    return {"cls": "close"}, (4, 6)


KIND_SETS = [
    None,
    ["rect", "convex", "star", "rectilinear"],  # line-only drawings: exact tolerances
    ["rect", "convex", "star", "rectilinear"],
    ["circle"],
    ["circle", "bullet", "rect"],
]


def workload(run):
    rnd = run.pyrng
    quick = run.tier == "quick"
    n_pres = (10, 14) if quick else (20, 50)
    di = 0
    while not run.out_of_time(0.92):
        di += 1
        dseed = rnd.randrange(1 << 30)
        base = {"dseed": dseed}
        if di % 2:
            # every other drawing belongs to a class next to the library's resolution (the flat arcs
            # are the expensive ones: one drawing in eight; fillets and close curves cost next to nothing)
            k = (di // 8) % 3 if di % 8 == 3 else (5 if di % 8 == 7 else (3 if (di // 2) % 2 else 4))
            frag, n_sp = _special_class(rnd, k)
            base.update(frag)
            kinds = base.get("kinds")
        else:
            kinds = KIND_SETS[di % len(KIND_SETS)]
            base["kinds"] = kinds
            n_sp = None
        D = _drawing(base)
        b0 = D.bounds()
        mats = [(t, M) for t, M in matrices(run.rng, dim=2) if t.split(":")[0] in TF_CLASSES
                and not t.startswith("near_identity:scale")]
        firsts = []
        npres = rnd.randint(*(n_sp or n_pres))
        if n_sp and not quick:
            npres *= 2
        run.count("drawings")
        for pi in range(npres):
            if run.out_of_time(0.95):
                break
            spec = dict(base, pseed=rnd.randrange(1 << 30), rseed=rnd.randrange(1 << 30))
            last_class = None
            # merged presentations may be built without processing
            r = rnd.random()
            if r < 0.45:
                nsteps = 1 if rnd.random() < 0.75 else 2
                steps = [_random_step(run, rnd, mats) for _ in range(nsteps)]
                # keep the drawing well conditioned: two extreme similarities in a row leave a
                # drawing of size 1e-4 several units away from the origin, where the shoelace sum
                # cancels nine digits and the exact-tolerance judgements (1e-9) test float64
                # rounding instead of the code
                for _try in range(20):
                    acc = 1.0
                    for st in steps:
                        if st["tf"].startswith("similarity:"):
                            acc *= float(st["tf"].split(":")[1])
                    if 5e-4 <= acc <= 2e3:
                        break
                    steps[-1] = _random_step(run, rnd, mats)
                else:
                    steps = steps[:1]
                u = rnd.random()
                if u < 0.5 and not base.get("cls"):
                    # the history ends with a change of units / a georeferenced placement (always the LAST
                    # step: a later offset of a few units would put a drawing of size 1e-6 far from the
                    # origin; a placement far from the origin is left by the next offset)
                    first = steps[0]["tf"] if len(steps) == 2 else ""
                    if first.startswith("similarity:") and not (0.4 <= float(first.split(":")[1]) <= 2.5):
                        steps = []
                    if u < 0.2:
                        last_class = "tiny"
                        steps = steps[:-1] + [_tiny_step(run, rnd)]
                    elif u < 0.34:
                        last_class = "huge"
                        steps = steps[:-1] + [_huge_step(run, rnd)]
                    else:
                        last_class = "far"
                        acc = 1.0
                        for st in steps[:-1]:
                            acc *= math.sqrt(abs(np.linalg.det(np.array(st["M"])[:2, :2])))
                        steps = steps[:-1] + [_far_step(run, rnd, D, acc)]
                if base.get("cls") == "close" or len(base.get("arc_pieces") or ()) > 2:
                    # the enclosure tree is what is observed here / hundreds of entities: no histories
                    steps = []
                spec["steps"] = steps
            elif r < 0.62 and base.get("cls") in (None, "shallow") and len(base.get("arc_pieces") or ()) <= 2:
                # read - transform - read again with similarities next to the identity: alone, after an
                # ordinary step, or two in a row (factors that nearly cancel)
                u = rnd.random()
                steps = [_near_one_step(run, rnd)]
                if u < 0.25:
                    for _try in range(20):
                        st = _random_step(run, rnd, mats)
                        if not st["tf"].startswith("similarity:") or 0.4 <= float(st["tf"].split(":")[1]) <= 2.5:
                            steps.insert(0, st)
                            break
                elif u < 0.45:
                    steps.append(_near_one_step(run, rnd))
                spec["steps"] = steps
                run.count("histories_with_similarity_next_to_one")
            r2 = rnd.random()
            if last_class == "tiny":
                # SVG stores absolute decimals (skipped at this size) and the 3D detour is not a form
                # of the statement: DXF or dict instead
                r2 = 0.0 if r2 < 0.2 else (0.25 if r2 < 0.34 else 1.0)
            elif last_class == "huge":
                r2 = 0.0 if r2 < 0.45 else (0.25 if r2 < 0.6 else 1.0)
            elif last_class == "far":
                r2 = 0.0 if r2 < 0.5 else (0.2 if r2 < 0.6 else (0.25 if r2 < 0.7 else 1.0))
            elif base.get("cls") == "close":
                r2 = 1.0
            if r2 < 0.12:
                spec["final"] = "dxf"
                if rnd.random() < 0.4:
                    # a drawing that declares its unit
                    spec["units"] = rnd.choice(UNITS)
            elif r2 < 0.24:
                spec["final"] = "svg"
            elif r2 < 0.30:
                spec["final"] = "dict"
                # the helper dict_to_path, or one of the three documented ways to hand the exported
                # dict back to the library
                spec["dict_via"] = rnd.choice(["dict_to_path", "dict_to_path", "load_path", "load", "constructor"])
            elif r2 < 0.34:
                spec["final"] = "path3d"
                if rnd.random() < 0.5:
                    import trimesh.transformations as tf

                    q = run.rng.normal(size=4)
                    T = tf.quaternion_matrix(q / np.linalg.norm(q))
                    T[:3, 3] = run.rng.uniform(-50, 50, size=3)
                    spec["to3d"] = T.tolist()
            t_case = time.time()
            first = execute(run, spec)
            run.count("ms_in_class_%s" % (base.get("cls") or "std"), int(1000 * (time.time() - t_case)))
            run.count("presentations_of_class_%s" % (base.get("cls") or "std"))
            if first is not None:
                firsts.append((spec, first))
        # ---- metamorphic equality across the presentations of this drawing
        if len(firsts) >= 2:
            ctag = {"fillet": " detail=fillet_near_merge_grid", "close": " gap=below_chord_sag", "shallow": " arcs=shallow"}
            ctx = Ctx(run, D, dict(base, pseeds=[f[0]["pseed"] for f in firsts]), "direct",
                      "check=metamorphic" + ctag.get(base.get("cls"), ""))
            ref = firsts[0][1]
            sl_a = max(f[1].get("_slack", {}).get("area", 0.0) for f in firsts)
            sl_l = max(f[1].get("_slack", {}).get("length", 0.0) for f in firsts)
            tol_a = RTOL * (ref.get("area") or 0.0) + 2 * (ARC_RTOL * D.arc_area() + sl_a)
            for spec, f in firsts[1:]:
                for k in ("n_paths", "n_root", "n_edges", "body_count", "is_closed"):
                    if k == "is_closed" and base.get("cls") == "fillet":
                        continue
                    if f.get(k) != ref.get(k):
                        ctx.bad(k, "presentation_dependent", "value depends on how the drawing is cut into entities",
                                a=ref.get(k), b=f.get(k), pseed_a=firsts[0][0]["pseed"], pseed_b=spec["pseed"])
                for k, tol in (("area", tol_a), ("length", RTOL * (ref.get("length") or 0.0) + 2 * sl_l)):
                    if f.get(k) is not None and ref.get(k) is not None and abs(f[k] - ref[k]) > tol:
                        ctx.bad(k, "presentation_dependent", "value depends on how the drawing is cut into entities",
                                a=ref.get(k), b=f.get(k), pseed_a=firsts[0][0]["pseed"], pseed_b=spec["pseed"])
                if "full" in f and "full" in ref and sorted(x[0] for x in f["full"]) != sorted(x[0] for x in ref["full"]):
                    ctx.bad("polygons_full", "presentation_dependent", "hole counts depend on the presentation")
            run.case("metamorphic:%s" % D.input_class, dseed, len(firsts), nontrivial=True)
            run.count("presentations_compared", len(firsts))
            run.state("presentations_per_drawing", len(firsts))


def replay(run, case):
    if not isinstance(case, dict) or "dseed" not in case:
        return
    spec = {k: v for k, v in case.items() if k not in ("observed", "error")}
    if "pseeds" in spec:
        for ps in spec.pop("pseeds"):
            execute(run, dict(spec, pseed=ps))
    else:
        execute(run, spec)
