"""
C15 - created shapes and primitives are valid solids with analytic measures.

Monitor shape: parameter grids + independent closed-form oracle observed on every execution.

  creation functions   every function x section counts from the minimum (odd / even) x random sizes
                       x placement (none / rigid / mirrored `transform=`); the result is judged by
                         * edge-counting topology (watertight, winding) computed here, and the
                           library's own is_watertight / is_winding_consistent flags
                         * signed volume / area / bounds / inertia from tetrahedron sums computed here
                         * the closed form of the INSCRIBED tessellation (stacks of frusta of regular
                           N-gons; k flat wedges for partial revolutions; polygon area x height for
                           extrusions) and the vertex set such a tessellation must have
                         * the smooth value as an upper bound and monotone convergence over 4 doublings
  primitives           Box / Sphere / Cylinder / Capsule / Extrusion x sequences of 1-5 edits
                       (attribute assignment, in-place array edits, transform assignment,
                       apply_transform / apply_translation / apply_scale, center, slide) with cached
                       reads in between; after EVERY step the primitive is compared with a newly
                       constructed primitive holding the parameters of a reference model stepped
                       alongside, and with the analytic formulae.

Keys:  fn=<function> placement=<none|rigid|mirror> [engine= angle= cap= ...] sym=<symptom>
       prim=<class> placement=<..> [edit=<op>] read=<value> sym=<symptom>
       round-4 input classes (first symptom in a fixed check order only):
       fn=<function> <size=small|large | aspect=extreme | profile=open_ring> sym=..
       fn=sweep_polygon path=<near_straight|smooth_planar> pole=<through|start|near|away> sym=not_a_prism
       prim=<class> <size=..|aspect=..> sym=..     prim=any edit=<param_write:<route> | move:below_1e-8> sym=..
"""

from __future__ import annotations

import math
import random

import numpy as np

from vmon.gen import path as gp
from vmon.gen.matrix import matrices
from vmon.oracle import shapes as sh

PROP = "C15"
LEVEL = "exploration"
RULE = (
    "a case = one call of a trimesh.creation function (box, icosphere, uv_sphere, cylinder, capsule, cone, "
    "annulus, torus, revolve, extrude_polygon, extrude_triangulation, sweep_polygon, triangulate_polygon) with "
    "parameters from enumerated grids (section counts from the minimum upwards, odd and even, partial "
    "revolutions with/without caps, polygons with 0-3 holes, three triangulation engines, open/closed/bent "
    "sweep paths) x random sizes x placement none/rigid/mirrored; or one step of an edit history (1-5 edits) "
    "on a primitive. Round 4 adds enumerated input classes: the same shapes at sizes 1e-6 / 1e-7 / 1e9 / 1e12, "
    "radius/height ratios 1e-9 .. 1e9, revolve profiles given as open rings, sweeps along paths that are straight "
    "up to 1e-3 (or smooth planar S curves) placed along, near and away from +-Z, parameter arrays written "
    "through 7 numpy write routes (kept view, out=, copyto, flat, ufunc.at, putmask, place) and moves below 1e-8 "
    "(400 in a row, or one on a primitive of size 1e-6). distinct = distinct (function, parameters, placement "
    "matrix) or (class, edit history prefix); trivial = default parameters without placement."
)
ANCHORS = [
    "trimesh/creation.py:revolve",
    "trimesh/creation.py:cylinder",
    "trimesh/creation.py:cone",
    "trimesh/creation.py:capsule",
    "trimesh/creation.py:annulus",
    "trimesh/creation.py:torus",
    "trimesh/creation.py:uv_sphere",
    "trimesh/creation.py:icosphere",
    "trimesh/creation.py:icosahedron",
    "trimesh/creation.py:box",
    "trimesh/creation.py:extrude_polygon",
    "trimesh/creation.py:extrude_triangulation",
    "trimesh/creation.py:sweep_polygon",
    "trimesh/creation.py:triangulate_polygon",
    "trimesh/primitives.py:Primitive.apply_transform",
    "trimesh/primitives.py:PrimitiveAttributes.__setattr__",
    "trimesh/primitives.py:Cylinder._create_mesh",
    "trimesh/primitives.py:Capsule._create_mesh",
    "trimesh/primitives.py:Sphere._create_mesh",
    "trimesh/primitives.py:Box._create_mesh",
    "trimesh/primitives.py:Extrusion._create_mesh",
    "trimesh/primitives.py:Box.volume",
    "trimesh/primitives.py:Sphere.volume",
    "trimesh/primitives.py:Sphere.area",
    "trimesh/primitives.py:Sphere.moment_inertia",
    "trimesh/primitives.py:Cylinder.volume",
    "trimesh/primitives.py:Cylinder.moment_inertia",
    "trimesh/primitives.py:Extrusion.volume",
    "trimesh/primitives.py:Extrusion.area",
    "trimesh/inertia.py:cylinder_inertia",
    "trimesh/inertia.py:sphere_inertia",
]
SHARDS = {"quick": 1, "thorough": 8}
BUDGET = {"quick": 48, "thorough": 420}
MIN_EVENTS = {"quick": 800, "thorough": 6000}
ASSUMPTIONS = [
    "a revolved shape with `sections = N` is the stack of frusta of inscribed regular N-gons with vertices "
    "at angles 2*pi*j/N (partial: angle*j/N); uv_sphere / capsule latitude and longitude counts are read "
    "off the mesh (distinct z levels / azimuths) because `count` is only loosely documented",
    "sweeps are only given paths whose slices cannot intersect (turning angle <= 50 deg, segments >= 6x the "
    "profile radius); only straight untwisted sweeps have an exact volume",
    "Primitive.apply_transform with a uniform scale s multiplies radius / height / extents by s (documented)",
    "float64 tetrahedron sums from the vertex mean are accurate to 1e-10 relative on these meshes",
]
EXHAUSTIVE = {"quick": False, "thorough": False}

RTOL = 1e-9


# ----------------------------------------------------------------------------
# helpers


def _placements(run, k=1):
    """[(tag, T or None)]: none, rigid, mirrored"""
    out = [("none", None)]
    ms = matrices(run.rng, dim=3, classes={"rigid", "mirror_axis", "mirror_rot", "mirror_point"})
    rig = [m for t, m in ms if t == "rigid"]
    mir = [m for t, m in ms if t.startswith("mirror")]
    for i in range(k):
        out.append(("rigid", rig[int(run.rng.integers(len(rig)))]))
        out.append(("mirror", mir[int(run.rng.integers(len(mir)))]))
    return out


def _tp(P, T):
    P = np.asarray(P, dtype=np.float64).reshape((-1, 3))
    if T is None:
        return P
    T = np.asarray(T, dtype=np.float64)
    return P @ T[:3, :3].T + T[:3, 3]


def _poly(spec):
    from shapely.geometry import Polygon

    return Polygon(spec["shell"], spec.get("holes") or [])


def _poly_measures(spec):
    """exact-ish area and perimeter of a polygon spec (own shoelace, not shapely)"""
    def ring(r):
        r = [tuple(map(float, p)) for p in r]
        if r[0] == r[-1]:
            r = r[:-1]
        a = 0.5 * sum(r[i][0] * r[(i + 1) % len(r)][1] - r[(i + 1) % len(r)][0] * r[i][1] for i in range(len(r)))
        l = sum(math.hypot(r[(i + 1) % len(r)][0] - r[i][0], r[(i + 1) % len(r)][1] - r[i][1]) for i in range(len(r)))
        return abs(a), l, r

    a, l, pts = ring(spec["shell"])
    for h in spec.get("holes") or []:
        ha, hl, hp = ring(h)
        a -= ha
        l += hl
        pts = pts + hp
    return a, l, np.array(pts, dtype=np.float64)


ORIENT_SYMS = ("negative_volume",)


class Judge:
    """
    key = core [+ orient] + sym.  `orient` (placement class, sign of the height) is part of the key
    only for orientation symptoms (inside-out / inconsistent winding): other symptoms of a function do
    not depend on where the result is placed, so one defect keeps one key.
    `inherited`: symptoms already shown by an object without history (reported there).
    """

    def __init__(self, run, core, spec, orient="", inherited=(), first_only=False):
        self.run, self.core, self.orient, self.spec = run, core, orient, spec
        self.fired = set()
        self.inherited = set(inherited)
        # first_only: input classes of round 4 (extreme size / aspect, open rings, near-straight sweeps,
        # parameter write routes, moves below 1e-8).  One broken object shows many symptoms; the checks run
        # in a fixed order (topology first) and only the first symptom is reported, so one defect has one
        # key per function instead of one per (function, symptom).
        self.first_only = first_only
        self.reported = 0

    def bad(self, sym, what, **info):
        self.fired.add(sym)
        if sym in self.inherited:
            self.run.count("symptom_inherited_from_fresh")
            return
        if self.first_only and self.reported:
            self.run.count("later_symptom_of_a_reported_object")
            return
        self.reported += 1
        case = dict(self.spec)
        case["observed"] = info
        mid = (" " + self.orient) if (self.orient and any(o in sym for o in ORIENT_SYMS)) else ""
        self.run.violation("%s%s sym=%s" % (self.core, mid, sym), what, case)


def _collinear_class(spec):
    """1 when a vertex of one ring lies on the supporting line of an edge of another ring"""
    rings = [spec["shell"]] + list(spec.get("holes") or [])
    R = []
    for r in rings:
        r = [tuple(map(float, q)) for q in r]
        if r[0] == r[-1]:
            r = r[:-1]
        R.append(r)
    for i, a in enumerate(R):
        for k in range(len(a)):
            p, q = a[k], a[(k + 1) % len(a)]
            for j, b in enumerate(R):
                if i == j:
                    continue
                for c in b:
                    if abs((q[0] - p[0]) * (c[1] - p[1]) - (q[1] - p[1]) * (c[0] - p[0])) < 1e-12:
                        return 1
    return 0


def _poly_class(spec):
    return "holes=%s collinear=%d" % ("1+" if spec.get("holes") else "0", _collinear_class(spec))


def judge_mesh(J, mesh, exp):
    """
    exp keys (all optional): volume, area, points (world), smooth_volume, watertight (default True),
    inertia (world axes, about the centre of mass), scale
    Reads the library's flags and numbers and compares them and our own measurements with exp.
    """
    run = J.run
    V = np.asarray(mesh.vertices, dtype=np.float64)
    F = np.asarray(mesh.faces, dtype=np.int64)
    if len(F) == 0 or len(V) == 0:
        J.bad("empty", "created mesh has no faces")
        return None
    if F.min() < 0 or F.max() >= len(V):
        J.bad("bad_index", "faces refer to vertices that do not exist")
        return None
    if not np.isfinite(V).all():
        J.bad("nonfinite", "vertices are not finite")
        return None
    topo = sh.topology(F)
    own = sh.mesh_measures(V, F)
    want_wt = exp.get("watertight", True)
    scale = exp.get("scale") or float(np.linalg.norm(own["bounds"][1] - own["bounds"][0])) or 1.0
    run.count("meshes_judged")
    # ---- topology (own) and the library's flags
    if want_wt:
        if not topo["watertight"]:
            J.bad("not_watertight", "edge counting: some edge is not shared by exactly two faces",
                  open_edges=topo["open_edges"], nonmanifold=topo["nonmanifold_edges"], degenerate=topo["degenerate"])
        if not topo["consistent"]:
            J.bad("winding_inconsistent", "edge counting: some directed edge is used twice")
        try:
            lw, lc = bool(mesh.is_watertight), bool(mesh.is_winding_consistent)
            if topo["watertight"] and topo["consistent"] and not (lw and lc):
                J.bad("flags_disagree", "is_watertight / is_winding_consistent False on a closed consistent surface", lib=[lw, lc])
        except BaseException as e:  # noqa
            J.bad("exception:" + type(e).__name__, "reading is_watertight raised", error=repr(e)[:200])
    else:
        if not topo["consistent"]:
            J.bad("winding_inconsistent", "edge counting: some directed edge is used twice (open surface)")
    # ---- volume
    ev = exp.get("volume")
    inverted = False
    if want_wt and topo["watertight"] and topo["consistent"]:
        if own["volume"] <= 0:
            inverted = True
            J.bad("negative_volume", "closed consistent surface is wound inside out (signed volume <= 0)",
                  volume=own["volume"], expected=ev)
        try:
            lv = float(mesh.volume)
            if abs(lv - own["volume"]) > RTOL * max(abs(own["volume"]), scale ** 3 * 1e-3):
                J.bad("volume_differs_from_tetra_sum", "mesh.volume differs from the tetrahedron sum of its own faces",
                      lib=lv, own=own["volume"])
        except BaseException as e:  # noqa
            J.bad("exception:" + type(e).__name__, "reading volume raised", error=repr(e)[:200])
        if ev is not None and abs(abs(own["volume"]) - ev) > RTOL * ev:
            J.bad("volume_mismatch", "volume differs from the closed form of the tessellation", own=own["volume"], expected=ev)
        sv = exp.get("smooth_volume")
        if sv is not None and abs(own["volume"]) > sv * (1 + 1e-12):
            J.bad("volume_exceeds_smooth", "inscribed tessellation has more volume than the smooth shape", own=own["volume"], smooth=sv)
    # ---- area
    ea = exp.get("area")
    try:
        la = float(mesh.area)
        if abs(la - own["area"]) > RTOL * own["area"]:
            J.bad("area_differs_from_triangle_sum", "mesh.area differs from the sum of triangle areas", lib=la, own=own["area"])
    except BaseException as e:  # noqa
        J.bad("exception:" + type(e).__name__, "reading area raised", error=repr(e)[:200])
    if ea is not None and abs(own["area"] - ea) > RTOL * ea:
        J.bad("area_mismatch", "area differs from the closed form of the tessellation", own=own["area"], expected=ea)
    # ---- vertex set and bounds
    pts = exp.get("points")
    if pts is not None:
        ok, worst = sh.same_point_set(V[np.unique(F)], pts, 1e-9 * scale)
        if not ok:
            J.bad("vertex_set", "referenced vertices are not the vertex set of the expected tessellation", worst_distance=worst,
                  n_mesh=int(len(np.unique(F))), n_expected=int(len(pts)))
        eb = np.array([pts.min(axis=0), pts.max(axis=0)])
        try:
            lb = np.asarray(mesh.bounds, dtype=np.float64)
            if lb.shape != (2, 3) or np.abs(lb - eb).max() > 1e-9 * scale:
                J.bad("bounds", "mesh.bounds differ from the bounds of the expected tessellation", lib=lb, expected=eb)
        except BaseException as e:  # noqa
            J.bad("exception:" + type(e).__name__, "reading bounds raised", error=repr(e)[:200])
    # ---- inertia
    if want_wt and topo["watertight"] and topo["consistent"] and not inverted and "inertia" in own:
        ei = exp.get("inertia")
        try:
            li = np.asarray(mesh.moment_inertia, dtype=np.float64)
            ref = ei if ei is not None else own["inertia"]
            tol = (RTOL if ei is None else 1e-8) * max(np.abs(ref).max(), 1e-300) * 10
            if li.shape != (3, 3) or np.abs(li - ref).max() > tol:
                J.bad("inertia_analytic" if ei is not None else "inertia_differs_from_tetra_sum",
                      "moment_inertia differs from the reference tensor", lib=li, expected=ref)
            lcm = np.asarray(mesh.center_mass, dtype=np.float64)
            if np.abs(lcm - own["center_mass"]).max() > 1e-9 * scale:
                J.bad("center_mass", "center_mass differs from the tetrahedron sum", lib=lcm, own=own["center_mass"])
        except BaseException as e:  # noqa
            J.bad("exception:" + type(e).__name__, "reading moment_inertia raised", error=repr(e)[:200])
    return {"topo": topo, "own": own}


def _derive_counts(V, T):
    """(distinct z levels, distinct azimuths off the axis) of a revolved mesh in its local frame"""
    if T is not None:
        Ti = np.linalg.inv(np.asarray(T, dtype=np.float64))
        V = _tp(V, Ti)
    size = float(np.abs(V).max()) or 1.0
    z = np.unique(np.round(V[:, 2] / size, 9))
    rad = np.hypot(V[:, 0], V[:, 1])
    off = rad > 1e-9 * size
    az = np.unique(np.round(np.mod(np.arctan2(V[off, 1], V[off, 0]), 2 * math.pi) / (2 * math.pi), 9) % 1.0)
    return len(z), len(az)


# ----------------------------------------------------------------------------
# creation cases.  Every case is a JSON-able spec; run_case dispatches on spec["fn"].


def _call(J, fn, *a, refuse=(), **kw):
    try:
        return fn(*a, **kw)
    except refuse as e:
        J.run.skip("refused:%s:%s" % (J.spec.get("fn"), type(e).__name__))
        return None
    except BaseException as e:  # noqa
        J.bad("exception:" + type(e).__name__, "%s raised: %s" % (J.spec.get("fn"), str(e)[:120]), error=repr(e)[:300])
        return None


def case_revolved(run, spec):
    """cylinder / cone / annulus / torus / uv_sphere / capsule / revolve(full or partial)"""
    from trimesh import creation as c

    fn = spec["fn"]
    T = None if spec.get("T") is None else np.array(spec["T"], dtype=np.float64)
    pl = spec["placement"]
    a = spec["args"]
    kw = {} if T is None else {"transform": T}
    extra = ""
    angle, cap = None, True
    if fn == "revolve":
        angle = a.get("angle")
        cap = bool(a.get("cap", False))
        full = angle is None or abs(angle - 2 * math.pi) < 1e-10
        extra = " angle=%s cap=%d" % ("full" if full else "partial", int(cap))
        if a.get("sections") == 1:
            extra += " sections=1"
    cls = spec.get("cls")
    J = Judge(run, "fn=%s%s%s" % (fn, extra, (" " + cls) if cls else ""), spec, orient="placement=%s" % pl, first_only=bool(cls))
    N = None
    if fn == "cylinder":
        mesh = _call(J, c.cylinder, radius=a["radius"], height=a["height"], sections=a.get("sections"), **kw)
        prof, N = sh.profile_cylinder(a["radius"], a["height"]), a.get("sections") or 32
    elif fn == "cone":
        mesh = _call(J, c.cone, radius=a["radius"], height=a["height"], sections=a.get("sections"), **kw)
        prof, N = sh.profile_cone(a["radius"], a["height"]), a.get("sections") or 32
    elif fn == "annulus":
        mesh = _call(J, c.annulus, r_min=a["r_min"], r_max=a["r_max"], height=a["height"], sections=a.get("sections"), **kw)
        prof, N = sh.profile_annulus(a["r_min"], a["r_max"], a["height"]), a.get("sections") or 32
    elif fn == "torus":
        mesh = _call(J, c.torus, major_radius=a["major"], minor_radius=a["minor"], major_sections=a["major_sections"],
                     minor_sections=a["minor_sections"], **kw)
        prof, N = sh.profile_torus(a["major"], a["minor"], a["minor_sections"]), a["major_sections"]
    elif fn == "uv_sphere":
        mesh = _call(J, c.uv_sphere, radius=a["radius"], count=a.get("count"), **kw)
        prof = None
    elif fn == "capsule":
        mesh = _call(J, c.capsule, height=a["height"], radius=a["radius"], count=a.get("count"), **kw)
        prof = None
    elif fn == "revolve":
        prof = [tuple(p) for p in a["profile"]]
        N = a.get("sections")
        full = angle is None or abs(angle - 2 * math.pi) < 1e-10
        if N is None:
            # default: 32 sections per full turn, and never fewer than one
            N = 32 if full else max(1, int(angle / (2 * math.pi) * 32))
        mesh = _call(J, c.revolve, np.array(prof, dtype=np.float64), angle=angle, cap=cap, sections=a.get("sections"), **kw)
        if full:
            angle = None
    else:
        raise ValueError(fn)
    run.case("%s:%s" % (fn, pl), fn, repr(sorted(a.items())), T if T is not None else 0,
             nontrivial=not (pl == "none" and not any(v is not None for k, v in a.items() if k in ("sections", "count"))))
    if mesh is None:
        return None
    exp = {}
    if fn in ("uv_sphere", "capsule"):
        nz, naz = _derive_counts(np.asarray(mesh.vertices), T)
        N = naz
        want = a.get("count")
        run.state("%s_counts" % fn, (tuple(want) if want else None, nz, naz))
        if want and (naz < want[1] or nz < want[0]):
            J.bad("coarser_than_requested", "fewer latitude / longitude lines than requested", requested=want, z_levels=nz, azimuths=naz)
        if nz < 3 or naz < 3:
            J.bad("degenerate_counts", "sphere-like shape with fewer than 3 levels / azimuths", z_levels=nz, azimuths=naz)
            return None
        if fn == "uv_sphere":
            prof = sh.profile_uv_sphere(a["radius"], nz)
            exp["smooth_volume"] = 4.0 / 3.0 * math.pi * a["radius"] ** 3
        else:
            # capsule: nz levels = nlat points of the half circle (the two halves never share a level)
            prof = sh.profile_capsule(abs(a["radius"]), abs(a["height"]), nz)
            exp["smooth_volume"] = math.pi * a["radius"] ** 2 * abs(a["height"]) + 4.0 / 3.0 * math.pi * abs(a["radius"]) ** 3
    elif angle is None:
        exp["smooth_volume"] = sh.revolve_smooth(prof)[0]
    ev, ea = sh.revolve_closed_form(prof, N, angle=angle, cap=cap)
    exp["points"] = _tp(sh.revolve_points(prof, N, angle=angle), T)
    exp["scale"] = float(np.abs(np.array(prof)).max()) * 2
    exp["area"] = ea
    if angle is not None and not cap:
        exp["watertight"] = False
    else:
        exp["volume"] = ev
    res = judge_mesh(J, mesh, exp)
    run.state("sections_class", (fn, "min" if N <= 3 else ("odd" if N % 2 else "even")))
    return res


def case_box(run, spec):
    from trimesh import creation as c

    T = None if spec.get("T") is None else np.array(spec["T"], dtype=np.float64)
    a = spec["args"]
    cls = spec.get("cls")
    J = Judge(run, "fn=box%s%s" % (" via=bounds" if "bounds" in a else "", (" " + cls) if cls else ""), spec,
              orient="placement=%s" % spec["placement"], first_only=bool(cls))
    if "bounds" in a:
        b = np.array(a["bounds"], dtype=np.float64)
        mesh = _call(J, c.box, bounds=b)
        ext = b[1] - b[0]
        corners = np.array([[b[i][0], b[j][1], b[k][2]] for i in (0, 1) for j in (0, 1) for k in (0, 1)])
        R = np.eye(3)
    else:
        ext = np.array(a["extents"], dtype=np.float64)
        kw = {} if T is None else {"transform": T}
        mesh = _call(J, c.box, extents=ext, **kw)
        corners = _tp(np.array([[sx * ext[0] / 2, sy * ext[1] / 2, sz * ext[2] / 2] for sx in (-1, 1) for sy in (-1, 1) for sz in (-1, 1)]), T)
        R = np.eye(3) if T is None else T[:3, :3]
    run.case("box:%s" % spec["placement"], repr(a), T if T is not None else 0)
    if mesh is None:
        return
    exp = {"volume": float(np.prod(ext)), "area": 2.0 * float(ext[0] * ext[1] + ext[1] * ext[2] + ext[0] * ext[2]),
           "points": corners, "inertia": sh.rotate_tensor(R, sh.box_inertia(ext)), "scale": float(np.linalg.norm(ext))}
    judge_mesh(J, mesh, exp)


def case_icosphere(run, spec):
    from trimesh import creation as c

    a = spec["args"]
    cls = spec.get("cls")
    J = Judge(run, "fn=icosphere%s" % ((" " + cls) if cls else ""), spec, first_only=bool(cls))
    R = a["radius"]
    prev = None
    for s in range(0, a["max_subdivisions"] + 1):
        mesh = _call(J, c.icosphere, subdivisions=s, radius=R)
        run.case("icosphere:none", s, R)
        if mesh is None:
            return
        V = np.asarray(mesh.vertices)
        off = float(np.abs(np.linalg.norm(V, axis=1) - R).max())
        if off > RTOL * R:
            J.bad("off_sphere", "icosphere vertices are not on the sphere", worst=off)
        elif off > 1e-11 * R:
            # observation: the radius is refined as `vertices += unit * (radius - 1)`; for radius << 1 the
            # relative error is ~1e-16 / radius (2e-11 at 1e-6, 7e-10 at 1e-7) - inside RTOL, no finding
            run.count("icosphere_radius_cancellation_observed")
        if len(mesh.faces) != 20 * 4 ** s or len(V) != 10 * 4 ** s + 2:
            J.bad("face_count", "icosphere does not have 20*4^s faces / 10*4^s+2 vertices", faces=len(mesh.faces), vertices=len(V), s=s)
        res = judge_mesh(J, mesh, {"smooth_volume": 4.0 / 3.0 * math.pi * R ** 3, "scale": 2 * R})
        if res is None:
            return
        v, ar = res["own"]["volume"], res["own"]["area"]
        if ar > 4 * math.pi * R * R * (1 + 1e-12):
            J.bad("area_exceeds_smooth", "inscribed sphere has more area than the sphere", area=ar)
        if prev is not None and not (v > prev[0] and ar > prev[1]):
            J.bad("not_monotone", "volume / area do not grow with subdivisions", previous=prev, now=[v, ar], s=s)
        prev = (v, ar)
    # the finest one is close
    sv = 4.0 / 3.0 * math.pi * R ** 3
    if prev and a["max_subdivisions"] >= 3 and abs(prev[0] - sv) > 0.02 * sv:
        J.bad("not_converging", "icosphere volume is not within 2% of the sphere at 3+ subdivisions", volume=prev[0], smooth=sv)


def case_convergence(run, spec):
    """errors to the smooth value shrink monotonically over 4 doublings of the section count"""
    from trimesh import creation as c

    fn, a = spec["fn_inner"], spec["args"]
    J = Judge(run, "fn=%s check=convergence" % fn, spec)
    n0 = a["n0"]
    errs = []
    for k in range(5):
        n = n0 * 2 ** k
        if fn == "cylinder":
            m = _call(J, c.cylinder, radius=a["radius"], height=a["height"], sections=n)
            sv, sa = math.pi * a["radius"] ** 2 * a["height"], 2 * math.pi * a["radius"] * (a["radius"] + a["height"])
        elif fn == "cone":
            m = _call(J, c.cone, radius=a["radius"], height=a["height"], sections=n)
            sv = math.pi * a["radius"] ** 2 * a["height"] / 3
            sa = math.pi * a["radius"] * (a["radius"] + math.hypot(a["radius"], a["height"]))
        elif fn == "annulus":
            m = _call(J, c.annulus, r_min=a["r_min"], r_max=a["r_max"], height=a["height"], sections=n)
            sv = math.pi * (a["r_max"] ** 2 - a["r_min"] ** 2) * a["height"]
            sa = 2 * math.pi * (a["r_max"] ** 2 - a["r_min"] ** 2) + 2 * math.pi * (a["r_max"] + a["r_min"]) * a["height"]
        elif fn == "torus":
            m = _call(J, c.torus, major_radius=a["major"], minor_radius=a["minor"], major_sections=n, minor_sections=n)
            sv, sa = 2 * math.pi ** 2 * a["major"] * a["minor"] ** 2, 4 * math.pi ** 2 * a["major"] * a["minor"]
        elif fn == "uv_sphere":
            m = _call(J, c.uv_sphere, radius=a["radius"], count=[n, n])
            sv, sa = 4 / 3 * math.pi * a["radius"] ** 3, 4 * math.pi * a["radius"] ** 2
        elif fn == "capsule":
            m = _call(J, c.capsule, radius=a["radius"], height=a["height"], count=[n, n])
            sv = math.pi * a["radius"] ** 2 * a["height"] + 4 / 3 * math.pi * a["radius"] ** 3
            sa = 2 * math.pi * a["radius"] * a["height"] + 4 * math.pi * a["radius"] ** 2
        else:
            raise ValueError(fn)
        if m is None:
            return
        own = sh.mesh_measures(m.vertices, m.faces)
        errs.append((sv - own["volume"], sa - own["area"]))
        try:
            if abs(float(m.volume) - own["volume"]) > RTOL * abs(own["volume"]):
                J.bad("volume_differs_from_tetra_sum", "mesh.volume differs from our tetrahedron sum", lib=float(m.volume), own=own["volume"])
        except BaseException as e:  # noqa
            J.bad("exception:" + type(e).__name__, "reading volume raised")
    run.case("convergence:%s" % fn, repr(sorted(a.items())))
    ev = [e[0] for e in errs]
    ea = [e[1] for e in errs]
    if not all(x > 0 for x in ev) or not all(ev[i + 1] < ev[i] for i in range(4)):
        J.bad("volume_not_converging", "volume deficit to the smooth shape is not positive and decreasing over doublings", deficits=ev)
    if not all(x > 0 for x in ea) or not all(ea[i + 1] < ea[i] for i in range(4)):
        J.bad("area_not_converging", "area deficit to the smooth shape is not positive and decreasing over doublings", deficits=ea)
    # second order: each doubling divides the deficit by ~4
    if ev[0] > 0 and ev[4] > 0 and not (ev[4] < ev[0] / 100.0):
        J.bad("volume_converging_slowly", "volume deficit shrank by less than 100x over 4 doublings", deficits=ev)


def case_extrude(run, spec):
    from trimesh import creation as c

    T = None if spec.get("T") is None else np.array(spec["T"], dtype=np.float64)
    a = spec["args"]
    eng = a.get("engine")
    fn = spec["fn"]
    cls = spec.get("cls")
    # (the collinearity class is measured with an absolute epsilon: it is not part of the key of scaled polygons)
    J = Judge(run, "fn=%s engine=%s %s" % (fn, eng, cls if cls else _poly_class(a["polygon"])), spec,
              orient="placement=%s height=%s" % (spec["placement"], "neg" if a["height"] < 0 else "pos"), first_only=bool(cls))
    area, per, pts2 = _poly_measures(a["polygon"])
    h = a["height"]
    kw = {} if T is None else {"transform": T}
    if fn == "extrude_polygon":
        mesh = _call(J, c.extrude_polygon, _poly(a["polygon"]), h, engine=eng, **kw)
    else:
        # extrude_triangulation on a triangulation made here (fan of the convex shell) in either winding
        shell = np.array(a["polygon"]["shell"], dtype=np.float64)
        faces = np.array([[0, i, i + 1] for i in range(1, len(shell) - 1)], dtype=np.int64)
        if a.get("flip"):
            faces = faces[:, ::-1].copy()
        mesh = _call(J, c.extrude_triangulation, shell, faces, h, **kw)
    run.case("%s:%s:%s" % (fn, spec["placement"], eng), repr(a), T if T is not None else 0)
    if mesh is None:
        return
    z = np.array([0.0, h])
    pts = np.array([[p[0], p[1], zz] for p in pts2 for zz in z])
    exp = {"volume": area * abs(h), "area": per * abs(h) + 2 * area, "points": _tp(pts, T),
           "scale": float(np.linalg.norm(np.ptp(pts, axis=0)))}
    judge_mesh(J, mesh, exp)


def case_triangulate(run, spec):
    from shapely.geometry import Point
    from trimesh import creation as c

    a = spec["args"]
    eng = a["engine"]
    J = Judge(run, "fn=triangulate_polygon engine=%s %s" % (eng, _poly_class(a["polygon"])), spec)
    poly = _poly(a["polygon"])
    res = _call(J, c.triangulate_polygon, poly, engine=eng)
    run.case("triangulate:%s" % eng, repr(a))
    if res is None:
        return
    V, F = np.asarray(res[0], dtype=np.float64), np.asarray(res[1], dtype=np.int64)
    area, per, pts2 = _poly_measures(a["polygon"])
    if len(F) == 0 or F.min() < 0 or F.max() >= len(V):
        J.bad("bad_index", "triangulation refers to vertices that do not exist")
        return
    tri = V[F]
    sa = 0.5 * ((tri[:, 1, 0] - tri[:, 0, 0]) * (tri[:, 2, 1] - tri[:, 0, 1]) - (tri[:, 1, 1] - tri[:, 0, 1]) * (tri[:, 2, 0] - tri[:, 0, 0]))
    if abs(np.abs(sa).sum() - area) > 1e-9 * area:
        J.bad("area_mismatch", "triangle areas do not add up to the polygon area", got=float(np.abs(sa).sum()), want=area)
    if (sa == 0).any():
        # observation: a zero-area triangle over collinear vertices keeps a triangulation conforming (manifold
        # engine); it has no winding, so it is not "mixed winding"
        run.count("triangulation_zero_area_triangles_observed")
        run.state("zero_area_triangle", (eng, _poly_class(a["polygon"])))
    if (sa > 0).any() and (sa < 0).any():
        J.bad("mixed_winding", "triangles of one triangulation wind both ways", positive=int((sa > 0).sum()), negative=int((sa < 0).sum()), zero=int((sa == 0).sum()))
    # observation only (not part of the statement): a vertex in the interior of a triangle edge
    tj = 0
    for t in F:
        for k in range(3):
            pa, pb = V[t[k]], V[t[(k + 1) % 3]]
            ab = pb - pa
            w = pts2 - pa
            cr = np.abs(ab[0] * w[:, 1] - ab[1] * w[:, 0])
            tt = (w @ ab) / (ab @ ab)
            tj += int(((cr < 1e-12 * (1 + np.abs(ab).max())) & (tt > 1e-9) & (tt < 1 - 1e-9)).sum())
    if tj:
        run.count("triangulation_t_junctions_observed")
        run.state("t_junction", (eng, _poly_class(a["polygon"])))
    cen = tri.mean(axis=1)
    # (a zero-area triangle over collinear vertices covers nothing: its centroid, a point of a hole's
    # own edge or of the segment between two holes in line, says nothing about what is filled -
    # thorough tier, false alarm with the manifold engine)
    outside = [i for i, p in enumerate(cen) if sa[i] != 0 and not poly.contains(Point(p))]
    if outside:
        J.bad("triangle_outside", "a triangle centroid lies outside the polygon (hole filled / exterior covered)", count=len(outside))
    if eng != "triangle":
        ok, worst = sh.same_point_set(np.column_stack([V[np.unique(F)], np.zeros(len(np.unique(F)))]),
                                      np.column_stack([pts2, np.zeros(len(pts2))]), 1e-12 * (np.abs(pts2).max() + 1))
        if not ok:
            J.bad("vertex_set", "triangulation vertices are not the polygon vertices", worst=worst)


def _sweep_path(a):
    kind = a["path_kind"]
    if kind == "straight":
        d = np.array(a["direction"], dtype=np.float64)
        d /= np.linalg.norm(d)
        n = a.get("n", 2)
        return np.array(a["origin"], dtype=np.float64) + np.outer(np.linspace(0, a["length"], n), d)
    if kind == "bent":
        pts = [np.array(a["origin"], dtype=np.float64)]
        d = np.array(a["direction"], dtype=np.float64)
        d /= np.linalg.norm(d)
        for ang, axis, L in a["turns"]:
            import trimesh.transformations as tf

            pts.append(pts[-1] + d * L)
            d = tf.rotation_matrix(ang, axis)[:3, :3] @ d
        pts.append(pts[-1] + d * a["turns"][-1][2])
        return np.array(pts)
    if kind == "loop":
        n, R = a["n"], a["R"]
        t = np.linspace(0, 2 * math.pi, n + 1)
        P = np.column_stack([R * np.cos(t), R * np.sin(t), a.get("wobble", 0.0) * np.sin(2 * t)])
        P[-1] = P[0]
        Q = np.array(a.get("frame", np.eye(4).tolist()), dtype=np.float64)
        return _tp(P, Q)
    if kind == "explicit":
        return np.array(a["points"], dtype=np.float64)
    raise ValueError(kind)


def case_sweep(run, spec):
    from trimesh import creation as c

    a = spec["args"]
    path = _sweep_path(a)
    closed = a["path_kind"] == "loop"
    cap, connect = a.get("cap", True), a.get("connect", True)
    eng = a.get("engine")
    holes = len(a["polygon"].get("holes") or [])
    cls = spec.get("cls")
    if cls:
        J = Judge(run, "fn=sweep_polygon %s" % cls, spec, first_only=True)
    else:
        J = Judge(run, "fn=sweep_polygon path=%s cap=%d connect=%d engine=%s %s twist=%d" % (
            a["path_kind"], int(cap), int(connect), eng, _poly_class(a["polygon"]), int(a.get("angles") is not None)), spec)
    kw = {}
    if a.get("angles") is not None:
        kw["angles"] = np.array(a["angles"], dtype=np.float64)
    if eng:
        kw["engine"] = eng
    mesh = _call(J, c.sweep_polygon, _poly(a["polygon"]), path, cap=cap, connect=connect, refuse=(NotImplementedError,), **kw)
    run.case("sweep:%s:%s" % (a.get("path_class") or a["path_kind"], eng), repr(sorted((k, repr(v)) for k, v in a.items())))
    if mesh is None:
        return
    area, per, pts2 = _poly_measures(a["polygon"])
    exp = {"scale": float(np.linalg.norm(np.ptp(path, axis=0))) + float(np.abs(pts2).max())}
    wt = (closed and connect) or cap
    exp["watertight"] = wt
    if a.get("near_prism"):
        # A path that is straight up to a sideways wiggle of `eps` (relative to its segments), or a
        # finely sampled smooth planar curve whose tangent returns to where it started: the swept solid is
        # a prism up to O(eps) (Pappus: area x length of the centroid's path), wherever the path is placed.
        # eps <= 1e-3 gives deviations <= 3e-3 (measured along X / generic directions); the bound is 2e-2.
        res = judge_mesh(J, mesh, exp)
        if res and res["topo"]["watertight"] and res["topo"]["consistent"]:
            L = float(np.linalg.norm(np.diff(path, axis=0), axis=1).sum())
            v, ar = res["own"]["volume"], res["own"]["area"]
            run.state("near_prism_class", cls)
            if abs(v - area * L) > 2e-2 * area * L or abs(ar - (per * L + 2 * area)) > 2e-2 * (per * L + 2 * area):
                J.bad("not_a_prism", "sweep along a (nearly) straight / smooth planar path: volume is not area x length, or area not "
                      "perimeter x length + 2 area, within 2%", volume=v, prism_volume=area * L, area=ar, prism_area=per * L + 2 * area)
        return
    if a["path_kind"] == "straight" and a.get("angles") is None:
        L = a["length"]
        exp["area"] = per * L + (2 * area if cap else 0.0)
        if wt:
            exp["volume"] = area * L
    res = judge_mesh(J, mesh, exp)
    if res and wt and res["topo"]["watertight"] and closed and connect:
        run.state("closed_sweep_components", (holes, res["topo"]["components"]))
        if res["topo"]["components"] != 1 + holes:
            J.bad("component_count", "closed sweep of a polygon with h holes does not have 1+h surface components",
                  components=res["topo"]["components"], holes=holes)
    if res and wt and a["path_kind"] != "straight":
        # no closed form for bent sweeps (slices are not scaled on the mitre planes, and the roll of
        # consecutive slices comes from spherical coordinates of the tangent: paths heading near -Z get
        # a strong twist).  Observation only - the statement claims a closed, consistently wound,
        # positive-volume surface, which is what is judged above.
        seg = np.linalg.norm(np.diff(path, axis=0), axis=1).sum()
        v = abs(res["own"]["volume"])
        if not (0.5 * area * seg < v < 1.5 * area * seg):
            run.count("sweep_volume_far_from_area_x_length_observed")
            run.state("sweep_pinched", (a["path_kind"], eng))


# ----------------------------------------------------------------------------
# primitives: reference model stepped alongside an edit history


def _new_prim(kind, p, U):
    from trimesh import primitives as P

    if kind == "Box":
        return P.Box(extents=np.array(p["extents"], dtype=np.float64), transform=np.array(U))
    if kind == "Sphere":
        return P.Sphere(radius=p["radius"], transform=np.array(U), subdivisions=p["subdivisions"])
    if kind == "Cylinder":
        return P.Cylinder(radius=p["radius"], height=p["height"], transform=np.array(U), sections=p["sections"])
    if kind == "Capsule":
        return P.Capsule(radius=p["radius"], height=p["height"], transform=np.array(U), sections=p["sections"])
    if kind == "Extrusion":
        return P.Extrusion(polygon=_poly(p["polygon"]), transform=np.array(U), height=p["height"])
    raise ValueError(kind)


PRIM_READS = ["vertices", "faces", "volume", "area", "bounds", "moment_inertia", "face_normals", "center_mass", "extents"]


def _apply_edit(prim, kind, p, U, ed):
    """Apply one edit to the real primitive and to the model (p, U). Returns (p, U, refused)."""
    op = ed["op"]
    P = prim.primitive
    p = dict(p)
    U = np.array(U, dtype=np.float64)
    if op in ("radius", "height", "sections", "subdivisions"):
        setattr(P, op, ed["value"])
        p[op] = ed["value"]
    elif op == "extents":
        P.extents = np.array(ed["value"], dtype=np.float64)
        p["extents"] = list(ed["value"])
    elif op == "extents_inplace":
        P.extents[ed["index"]] = ed["value"]
        e = list(p["extents"])
        e[ed["index"]] = ed["value"]
        p["extents"] = e
    elif op == "polygon":
        P.polygon = _poly(ed["value"])
        p["polygon"] = ed["value"]
    elif op == "transform":
        P.transform = np.array(ed["value"], dtype=np.float64)
        U = np.array(ed["value"], dtype=np.float64)
    elif op == "transform_inplace":
        P.transform[:3, 3] = np.array(ed["value"], dtype=np.float64)
        U[:3, 3] = ed["value"]
    elif op == "center":
        P.center = np.array(ed["value"], dtype=np.float64)
        U = np.eye(4)
        U[:3, 3] = ed["value"]
    elif op == "slide":
        prim.slide(ed["value"])
        Tz = np.eye(4)
        Tz[2, 3] = ed["value"]
        U = U @ Tz
    elif op in ("apply_transform", "apply_translation", "apply_scale"):
        if op == "apply_transform":
            M = np.array(ed["value"], dtype=np.float64)
            prim.apply_transform(M)
        elif op == "apply_translation":
            M = np.eye(4)
            M[:3, 3] = ed["value"]
            prim.apply_translation(np.array(ed["value"], dtype=np.float64))
        else:
            M = np.diag([ed["value"]] * 3 + [1.0])
            prim.apply_scale(ed["value"])
        det = float(np.linalg.det(M[:3, :3]))
        s = abs(det) ** (1.0 / 3.0)
        if abs(s - 1.0) > 1e-8:
            for k in ("radius", "height"):
                if k in p:
                    p[k] = p[k] * s
            if "extents" in p:
                p["extents"] = [x * s for x in p["extents"]]
            S = np.diag([1 / s] * 3 + [1.0])
            U = M @ U @ S
        else:
            U = M @ U
    elif op == "height_hash_twins":
        # two numbers the builtin hash() cannot tell apart (hash(-1.0) == hash(-2.0) == -2): the
        # second assignment must still be noticed
        for h in (-1.0, -2.0) if kind == "Extrusion" else (1.0, float(2 ** 61)):
            if kind == "Extrusion":
                P.height = h
                p["height"] = h
            if ed.get("read_between") and h in (-1.0, 1.0):
                _ = prim.vertices
    elif op == "transform_buffer_reused":
        # the caller keeps and re-uses the array it handed over as `transform`
        buf = np.array(ed["value"], dtype=np.float64)
        P.transform = buf
        U = np.array(ed["value"], dtype=np.float64)
        _ = prim.vertices
        buf[:3, 3] += 7.5  # the caller's scratch buffer moves on; the primitive must not follow silently
    elif op == "trade":
        # two parameters exchange their values, written back to back with NO read in between:
        # the multiset of parameter values is unchanged, which parameter holds which is not
        if kind in ("Cylinder", "Capsule"):
            r, h = p["radius"], p["height"]
            P.radius = h
            P.height = r
            p["radius"], p["height"] = h, r
        elif kind == "Box":
            i, j = ed["index"], (ed["index"] + 1) % 3
            e = list(p["extents"])
            if ed.get("inplace"):
                P.extents[i] = e[j]
                P.extents[j] = e[i]
            else:
                e2 = list(e)
                e2[i], e2[j] = e[j], e[i]
                P.extents = np.array(e2, dtype=np.float64)
            e[i], e[j] = e[j], e[i]
            p["extents"] = e
        elif kind == "Sphere":
            # radius and subdivisions hold numbers that compare (and hash) equal across int / float
            r, k = p["radius"], p["subdivisions"]
            P.radius = float(k + 1)
            P.subdivisions = int(round(r)) % 4
            p["radius"], p["subdivisions"] = float(k + 1), int(round(r)) % 4
        else:
            raise ValueError("trade is not defined for " + kind)
    elif op == "multi":
        for sub in ed["edits"]:
            p, U = _apply_edit(prim, kind, p, U, sub)
    elif op == "repeat":
        # the same (small) edit many times, nothing read in between
        for _ in range(int(ed["times"])):
            p, U = _apply_edit(prim, kind, p, U, ed["edit"])
    elif op == "param_write":
        # A parameter array (`primitive.extents`, `primitive.transform`, `primitive.center`) is written
        # through a numpy route other than assignment / indexing / the in-place operators.  The model only
        # knows the new values; deltas are taken from the model so that the library's array is touched by
        # nothing but the write under test.
        route, param = ed["route"], ed["param"]
        new = np.array(ed["value"], dtype=np.float64)
        if param == "extents":
            arr = P.extents
            cur = np.array(p["extents"], dtype=np.float64)
            target = new
            where = np.ones(3, dtype=bool)
            index = (np.arange(3),)
        else:
            arr = P.transform
            cur = U.copy()
            target = U.copy()
            target[:3, 3] = new
            where = np.zeros((4, 4), dtype=bool)
            where[:3, 3] = True
            index = (np.arange(3), np.array([3, 3, 3]))
        if not isinstance(arr, np.ndarray) or arr.shape != target.shape:
            raise ValueError("parameter is not handed out as an array")
        if route == "kept_view":
            # the handle is taken first, then the mesh is built (or not), then the handle is written
            view = P.center if param == "center" else (arr[:3, 3] if param == "transform" else arr[0:3])
            if ed.get("read_between", True):
                _ = prim.vertices
            if ed.get("inplace_op"):
                view += new - cur[index]
            else:
                view[:] = new
        else:
            if ed.get("read_between", True):
                _ = prim.vertices
            if route == "ufunc_out":
                np.add(arr, target - cur, out=arr)
            elif route == "copyto":
                np.copyto(arr, target)
            elif route == "flat_setitem":
                for k in np.flatnonzero(where):
                    arr.flat[int(k)] = target.flat[int(k)]
            elif route == "ufunc_at":
                np.add.at(arr, index, (target - cur)[index])
            elif route == "putmask":
                np.putmask(arr, where, target)
            elif route == "place":
                np.place(arr, where, new)
            else:
                raise ValueError(route)
        if param == "extents":
            p["extents"] = [float(x) for x in new]
        else:
            U = target
    else:
        raise ValueError(op)
    return p, U


def _prim_expect(kind, p, U):
    """analytic expectations of the parameters (not of the mesh)"""
    R = U[:3, :3]
    out = {}
    if kind == "Box":
        e = np.array(p["extents"], dtype=np.float64)
        out["volume"] = float(np.prod(e))
        out["area"] = 2.0 * float(e[0] * e[1] + e[1] * e[2] + e[0] * e[2])
        out["inertia"] = sh.rotate_tensor(R, sh.box_inertia(e))
        out["mesh_volume"] = out["volume"]
    elif kind == "Sphere":
        r = p["radius"]
        out["volume"] = 4.0 / 3.0 * math.pi * r ** 3
        out["area"] = 4.0 * math.pi * r * r
        out["inertia"] = sh.sphere_inertia(r)
        out["bounds"] = np.array([U[:3, 3] - r, U[:3, 3] + r])
    elif kind == "Cylinder":
        r, h = p["radius"], p["height"]
        out["volume"] = math.pi * r * r * h
        out["inertia"] = sh.rotate_tensor(R, sh.cylinder_inertia(r, h))
        v, a = sh.revolve_closed_form(sh.profile_cylinder(r, h), p["sections"])
        out["mesh_volume"], out["mesh_area"] = v, a
    elif kind == "Capsule":
        r, h = p["radius"], p["height"]
        out["smooth_volume"] = math.pi * r * r * h + 4.0 / 3.0 * math.pi * r ** 3
    elif kind == "Extrusion":
        area, per, _ = _poly_measures(p["polygon"])
        h = p["height"]
        out["volume"] = area * abs(h)
        out["area"] = per * abs(h) + 2 * area
        out["mesh_volume"], out["mesh_area"] = out["volume"], out["area"]
    return out


def _judge_prim_obj(J, prim, kind, p, U, step_tag):
    """Oracle checks of one primitive object against the parameters (p, U) it should reflect."""
    run = J.run
    mirrored = np.linalg.det(U[:3, :3]) < 0
    try:
        V = np.array(prim.vertices, dtype=np.float64)
        F = np.array(prim.faces, dtype=np.int64)
    except BaseException as e:  # noqa
        J.bad("mesh_exception:" + type(e).__name__, "building the primitive's mesh raised: %s" % str(e)[:100], step=step_tag)
        return None
    if len(F) == 0 or len(V) == 0 or F.max() >= len(V) or not np.isfinite(V).all():
        J.bad("mesh_empty_or_invalid", "primitive mesh is empty / refers to missing vertices / not finite", step=step_tag)
        return None
    scale = float(np.linalg.norm(np.ptp(V, axis=0))) or 1.0
    run.count("primitive_objects_judged")
    own = sh.mesh_measures(V, F)
    topo = sh.topology(F)
    if not (topo["watertight"] and topo["consistent"]):
        J.bad("mesh_not_watertight", "primitive mesh is not a closed consistently wound surface", step=step_tag,
              **{k: topo[k] for k in ("open_edges", "nonmanifold_edges", "degenerate")})
    elif own["volume"] <= 0:
        J.bad("mesh_negative_volume", "primitive mesh is wound inside out", step=step_tag, volume=own["volume"])
    exp = _prim_expect(kind, p, U)
    if "mesh_volume" in exp and abs(abs(own["volume"]) - exp["mesh_volume"]) > RTOL * exp["mesh_volume"]:
        J.bad("mesh_volume_mismatch", "mesh volume differs from the closed form for the current parameters",
              step=step_tag, own=own["volume"], expected=exp["mesh_volume"])
    if "mesh_area" in exp and abs(own["area"] - exp["mesh_area"]) > RTOL * exp["mesh_area"]:
        J.bad("mesh_area_mismatch", "mesh area differs from the closed form for the current parameters",
              step=step_tag, own=own["area"], expected=exp["mesh_area"])
    if "smooth_volume" in exp and not (0.5 * exp["smooth_volume"] < abs(own["volume"]) <= exp["smooth_volume"] * (1 + 1e-12)):
        J.bad("mesh_volume_vs_smooth", "mesh volume is not below (and near) the smooth volume", step=step_tag,
              own=own["volume"], smooth=exp["smooth_volume"])
    if kind in ("Cylinder", "Capsule"):
        nz, naz = _derive_counts(V, U)
        run.state("prim_azimuths", (kind, p["sections"], naz))
        if naz != p["sections"]:
            J.bad("mesh_param=sections_not_reflected", "number of facets around the axis differs from `sections`",
                  step=step_tag, sections=p["sections"], azimuths=naz)
        # every vertex within the smooth shape's surface: distance to the axis segment
        Ti = np.linalg.inv(U)
        L = _tp(V, Ti)
        r, h = p["radius"], p["height"]
        rad = np.hypot(L[:, 0], L[:, 1])
        if kind == "Cylinder":
            off = rad[rad > 0.5 * r]  # a cylinder's vertices are on the axis or on a rim
            if len(off) == 0 or np.abs(off - r).max() > 1e-9 * scale or rad[rad <= 0.5 * r].max(initial=0.0) > 1e-9 * scale \
                    or np.abs(np.abs(L[:, 2]) - h / 2).max() > 1e-9 * scale:
                J.bad("mesh_off_surface", "cylinder vertices are not on the rims of radius `radius` at +-height/2", step=step_tag)
        else:
            zc = np.clip(L[:, 2], -h / 2, h / 2)
            d = np.sqrt(rad ** 2 + (L[:, 2] - zc) ** 2)
            if np.abs(d - r).max() > 1e-9 * scale:
                J.bad("mesh_off_surface", "capsule vertices are not at `radius` from the axis segment of length `height`",
                      step=step_tag, worst=float(np.abs(d - r).max()))
    if kind == "Sphere":
        r = p["radius"]
        d = np.abs(np.linalg.norm(V - U[:3, 3], axis=1) - r).max()
        if d > 1e-9 * max(r, 1.0):
            J.bad("mesh_off_surface", "sphere vertices are not at `radius` from `center`", step=step_tag, worst=float(d))
        if len(F) != 20 * 4 ** p["subdivisions"]:
            J.bad("mesh_param=subdivisions_not_reflected", "face count is not 20*4^subdivisions", step=step_tag, faces=len(F), subdivisions=p["subdivisions"])
    if kind == "Box":
        e = np.array(p["extents"], dtype=np.float64)
        corners = _tp(np.array([[sx * e[0] / 2, sy * e[1] / 2, sz * e[2] / 2] for sx in (-1, 1) for sy in (-1, 1) for sz in (-1, 1)]), U)
        ok, worst = sh.same_point_set(V, corners, 1e-9 * (scale + np.abs(corners).max()))
        if not ok:
            J.bad("mesh_vertex_set", "box vertices are not the corners given by extents and transform", step=step_tag, worst=worst)
    if kind == "Extrusion":
        _, _, pts2 = _poly_measures(p["polygon"])
        pts = _tp(np.array([[q[0], q[1], zz] for q in pts2 for zz in (0.0, p["height"])]), U)
        ok, worst = sh.same_point_set(V, pts, 1e-9 * (scale + np.abs(pts).max()))
        if not ok:
            J.bad("mesh_vertex_set", "extrusion vertices are not the polygon vertices at 0 and height, transformed", step=step_tag, worst=worst)
    # ---- analytic reads
    for name in ("volume", "area"):
        if name in exp and not (kind == "Cylinder" and name == "area"):
            try:
                got = float(getattr(prim, name))
            except BaseException as e:  # noqa
                J.bad("read=%s_exception:%s" % (name, type(e).__name__), "reading %s raised" % name, step=step_tag)
                continue
            if abs(got - exp[name]) > RTOL * exp[name]:
                J.bad("read=%s_analytic_mismatch" % name, "%s differs from the formula for the current parameters" % name,
                      step=step_tag, got=got, expected=exp[name])
    if "inertia" in exp and not mirrored:
        try:
            got = np.asarray(prim.moment_inertia, dtype=np.float64)
            ref = exp["inertia"]
            if got.shape != (3, 3) or np.abs(got - ref).max() > 1e-8 * np.abs(ref).max():
                J.bad("read=moment_inertia_analytic_mismatch", "moment_inertia differs from the analytic tensor", step=step_tag, got=got, expected=ref)
        except BaseException as e:  # noqa
            J.bad("read=moment_inertia_exception:%s" % type(e).__name__, "reading moment_inertia raised", step=step_tag)
    if "bounds" in exp:
        try:
            got = np.asarray(prim.bounds, dtype=np.float64)
            if np.abs(got - exp["bounds"]).max() > 1e-9 * scale:
                J.bad("read=bounds_analytic_mismatch", "bounds differ from center +- radius", step=step_tag, got=got, expected=exp["bounds"])
        except BaseException as e:  # noqa
            J.bad("read=bounds_exception:%s" % type(e).__name__, "reading bounds raised", step=step_tag)
    return V, F, own


def _compare_fresh(J, prim, fresh, step_tag):
    """`a primitive's mesh always reflects its current parameters`: equal to a newly built one."""
    try:
        V, F = np.array(prim.vertices, dtype=np.float64), np.array(prim.faces, dtype=np.int64)
        FV, FF = np.array(fresh.vertices, dtype=np.float64), np.array(fresh.faces, dtype=np.int64)
    except BaseException:  # noqa
        return
    scale = (float(np.linalg.norm(np.ptp(FV, axis=0))) or 1.0) + float(np.abs(FV).max())
    same = V.shape == FV.shape and F.shape == FF.shape and np.abs(V - FV).max() <= 1e-9 * scale and np.array_equal(F, FF)
    if not same:
        ok, worst = sh.same_point_set(V, FV, 1e-9 * scale) if V.size and FV.size else (False, None)
        mo, mf = sh.mesh_measures(V, F), sh.mesh_measures(FV, FF)
        if not ok or abs(mo["volume"] - mf["volume"]) > 1e-9 * abs(mf["volume"]) or abs(mo["area"] - mf["area"]) > 1e-9 * mf["area"]:
            J.bad("mesh_differs_from_fresh", "vertices/faces differ from a newly constructed primitive with the same parameters",
                  step=step_tag, worst_vertex_distance=worst, volume=[mo["volume"], mf["volume"]], n=[len(V), len(FV)])
    for name in ("volume", "area", "bounds", "moment_inertia", "center_mass", "extents"):
        try:
            a, b = np.asarray(getattr(prim, name), dtype=np.float64), np.asarray(getattr(fresh, name), dtype=np.float64)
        except BaseException as e:  # noqa
            J.bad("read=%s_exception:%s" % (name, type(e).__name__), "reading %s raised" % name, step=step_tag)
            continue
        if a.shape != b.shape or np.abs(a - b).max() > 1e-9 * max(np.abs(b).max(), scale * 1e-3):
            J.bad("read=%s_differs_from_fresh" % name, "%s differs from a newly constructed primitive" % name, step=step_tag, got=a, fresh=b)


def _placement_of(U):
    if np.linalg.det(U[:3, :3]) < 0:
        return "mirror"
    return "none" if np.allclose(U, np.eye(4)) else "rigid"


def case_primitive(run, spec):
    kind = spec["kind"]
    p = dict(spec["params"])
    U = np.array(spec["U"], dtype=np.float64)
    pl0 = _placement_of(U)

    def core(params):
        # the polygon class is part of an Extrusion's input class
        return "prim=%s%s" % (kind, (" " + _poly_class(params["polygon"])) if kind == "Extrusion" else "")

    cls = spec.get("cls")
    J = Judge(run, core(p) + ((" " + cls) if cls else ""), spec, orient="placement=%s" % pl0, first_only=bool(cls))
    try:
        prim = _new_prim(kind, p, U)
    except BaseException as e:  # noqa
        J.bad("constructor_exception:" + type(e).__name__, "constructor raised", error=repr(e)[:200])
        return
    _judge_prim_obj(J, prim, kind, p, U, "constructed")
    run.case("prim:%s:constructed:%s" % (kind, pl0), kind, repr(sorted(p.items(), key=str)), U, nontrivial=True)
    hist = []
    for i, ed in enumerate(spec.get("edits", [])):
        # cached reads before the edit
        for name in ed.get("pre", []):
            try:
                getattr(prim, name)
            except BaseException:  # noqa
                pass
        op = ed["op"]
        tag = ed.get("tag") or (op if op != "apply_transform" else "apply_transform:" + ed.get("tf", "rigid"))
        try:
            p2, U2 = _apply_edit(prim, kind, p, U, ed)
        except ValueError as e:
            # documented refusals (non-rigid result, immutable ...)
            run.skip("prim edit refused: %s %s: %s" % (kind, tag, str(e)[:40]))
            break
        except BaseException as e:  # noqa
            Judge(run, "prim=%s edit=%s" % (kind, tag), spec).bad("edit_exception:" + type(e).__name__, "edit raised: %s" % str(e)[:100], step=i)
            break
        p, U = p2, U2
        pl = _placement_of(U)
        hist.append(tag)
        # a newly constructed primitive with the model's parameters is judged first: what it shows too
        # is not caused by the history
        try:
            fresh = _new_prim(kind, p, U)
        except BaseException as e:  # noqa
            run.skip("fresh primitive could not be built: %s" % type(e).__name__)
            break
        Jf = Judge(run, core(p), dict(spec, fresh_after_step=i), orient="placement=%s" % pl)
        _judge_prim_obj(Jf, fresh, kind, p, U, i)
        if ed.get("tag"):
            # round-4 edit classes (write routes into parameter arrays, moves below 1e-8): mechanisms of
            # Primitive / PrimitiveAttributes / TrackedArray shared by every class, so the class is not
            # in the key; the comparison with the newly built primitive comes first, one symptom is reported
            Je = Judge(run, "prim=any edit=%s" % tag, spec, orient="placement=%s" % pl, inherited=Jf.fired, first_only=True)
            _compare_fresh(Je, prim, fresh, i)
            _judge_prim_obj(Je, prim, kind, p, U, i)
        else:
            Je = Judge(run, "%s edit=%s" % (core(p), tag), spec, orient="placement=%s" % pl, inherited=Jf.fired)
            _judge_prim_obj(Je, prim, kind, p, U, i)
            _compare_fresh(Je, prim, fresh, i)
        run.case("prim:%s:%s" % (kind, tag), kind, tuple(hist), repr(spec["params"]), repr(spec.get("edits", [])[: i + 1]),
                 nontrivial=bool(ed.get("pre")))
        run.state("prim_edit", (kind, tag, "pre" if ed.get("pre") else "cold"))


DISPATCH = {
    "cylinder": case_revolved, "cone": case_revolved, "annulus": case_revolved, "torus": case_revolved,
    "uv_sphere": case_revolved, "capsule": case_revolved, "revolve": case_revolved,
    "box": case_box, "icosphere": case_icosphere, "convergence": case_convergence,
    "extrude_polygon": case_extrude, "extrude_triangulation": case_extrude,
    "triangulate_polygon": case_triangulate, "sweep_polygon": case_sweep, "primitive": case_primitive,
}


def run_case(run, spec):
    return DISPATCH[spec["fn"]](run, spec)


# ----------------------------------------------------------------------------
# workload


FIXED_POLYGONS = [
    {"shell": [[0, 0], [4, 0], [4, 3], [0, 3]]},
    {"shell": [[0, 0], [5, 0], [2, 4]]},
    {"shell": [[0, 0], [6, 0], [6, 2], [2, 2], [2, 5], [0, 5]]},
    {"shell": [[0, 0], [10, 0], [10, 8], [0, 8]], "holes": [[[1, 1], [1, 3], [3, 3], [3, 1]]]},
    {"shell": [[0, 0], [10, 0], [10, 8], [0, 8]], "holes": [[[1, 1], [3, 1], [3, 3], [1, 3]], [[5, 4], [8, 4], [8, 7], [5, 7]]]},
    {"shell": [[0, 0], [12, 0], [12, 9], [0, 9]],
     "holes": [[[1, 1], [3, 1], [2, 3]], [[5, 1], [8, 1], [8, 3], [5, 3]], [[2, 5], [10, 5], [10, 8], [2, 8]]]},
    # clockwise shell, counter-clockwise hole
    {"shell": [[0, 0], [0, 6], [7, 6], [7, 0]], "holes": [[[2, 2], [4, 2], [4, 4], [2, 4]]]},
]
CONVEX = [
    [[0, 0], [3, 0], [3, 2], [0, 2]],
    [[0, 0], [4, 0], [5, 2], [2, 4], [-1, 2]],
    [[1, 0], [0, 2], [-1, 0]],
]
SWEEP_POLYGONS = [
    {"shell": [[-1, -1], [1, -1], [1, 1], [-1, 1]]},
    {"shell": [[-1, -0.5], [1, -0.5], [0, 1]]},
    {"shell": [[-1.5, -1], [1.5, -1], [1.5, 1], [-1.5, 1]], "holes": [[[-0.5, -0.5], [0.5, -0.5], [0.5, 0.5], [-0.5, 0.5]]]},
    # hole vertices collinear with shell vertices (y = 1)
    {"shell": [[-2, -1], [2, -1], [2, 1], [0, 2], [-2, 1]], "holes": [[[-1, -0.5], [1, -0.5], [1, 1], [-1, 1]]]},
]
ENGINES = ["earcut", "triangle", "manifold"]


def _engines_available():
    import importlib.util

    mods = {"earcut": "mapbox_earcut", "triangle": "triangle", "manifold": "manifold3d"}
    return [e for e in ENGINES if importlib.util.find_spec(mods[e]) is not None]


def _drawing_polygons(rnd, n):
    """polygons with holes from G-path drawings (line-only kinds): shell + its direct children"""
    out = []
    tries = 0
    while len(out) < n and tries < 20 * n:
        tries += 1
        D = gp.drawing_from_seed(rnd.randrange(1 << 30), kinds=["rect", "convex", "star", "rectilinear"], max_depth=1)
        for i in D.shells():
            r = D.rings[i]
            spec = {"shell": [list(e[1]) for e in r.edges]}
            if r.children:
                spec["holes"] = [[list(e[1]) for e in D.rings[c].edges] for c in r.children]
            out.append(spec)
    return out[:n]


def _revolve_profiles(rnd):
    r0 = rnd.uniform(0.5, 3)
    w, h = rnd.uniform(0.5, 2), rnd.uniform(0.5, 3)
    out = [
        ("ring_rect", [(r0, 0), (r0 + w, 0), (r0 + w, h), (r0, h), (r0, 0)]),
        ("ring_tri", [(r0, 0), (r0 + w, 0.3 * h), (r0 + 0.2 * w, h), (r0, 0)]),
        ("axis_cyl", [(0, 0), (w, 0), (w, h), (0, h)]),
        ("axis_diamond", [(0, -h), (w, 0), (0, h)]),
        ("axis_step", [(0, 0), (w + r0, 0), (w + r0, 0.4 * h), (w, 0.4 * h), (w, h), (0, h)]),
    ]
    return out


def workload(run):
    rnd = run.pyrng
    quick = run.tier == "quick"
    engines = _engines_available()
    run.note("engines", engines)
    idx = 0

    def mine():
        nonlocal idx
        idx += 1
        return run.mine(idx)

    def emit(spec):
        if run.out_of_time(0.97):
            return
        run_case(run, spec)

    def placed(fn, args, places):
        for tag, T in places:
            emit({"fn": fn, "args": args, "placement": tag, "T": None if T is None else T.tolist()})

    rounds = 0
    while not run.out_of_time(0.9):
        rounds += 1
        places = _placements(run, 1)
        U = lambda a, b: float(rnd.uniform(a, b))  # noqa
        # ---- A. revolved shapes x section counts
        secs = [3, 4, 5, 6, 7, 8, 9, 12, 16, 17, 32, 33, None] if (quick and rounds == 1) or not quick else [rnd.choice([3, 4, 5, 6, 7, 9, 16, 31, 64])]
        for n in secs:
            if mine():
                placed("cylinder", {"radius": U(0.2, 5), "height": U(0.2, 8), "sections": n}, places)
            if mine():
                placed("cone", {"radius": U(0.2, 5), "height": U(0.2, 8), "sections": n}, places)
            if mine():
                r1 = U(0.2, 3)
                placed("annulus", {"r_min": r1, "r_max": r1 + U(0.2, 3), "height": U(0.2, 5), "sections": n}, places)
        pairs = [(3, 3), (3, 8), (8, 3), (4, 4), (5, 4), (4, 5), (7, 9), (9, 7), (16, 8), (32, 32), (33, 17)] if rounds == 1 else [(rnd.randint(3, 20), rnd.randint(3, 20))]
        for M, m in pairs:
            if mine():
                mr = U(0.2, 1.5)
                placed("torus", {"major": mr + U(0.5, 4), "minor": mr, "major_sections": M, "minor_sections": m}, places)
        counts = [[3, 2], [3, 3], [4, 4], [4, 5], [5, 4], [5, 8], [6, 3], [7, 7], [8, 8], [12, 5], [16, 16], [17, 9], None] if rounds == 1 else [[rnd.randint(3, 14), rnd.randint(2, 14)]]
        for cnt in counts:
            if mine():
                placed("uv_sphere", {"radius": U(0.2, 5), "count": cnt}, places)
            if mine() and (cnt is None or cnt[1] >= 3):
                # a capsule is revolved with count[1] sections (no doubling): 2 would be flat
                placed("capsule", {"radius": U(0.2, 3), "height": U(0.2, 6), "count": cnt}, places)
        if mine():
            placed("cylinder", {"radius": 1.0, "height": 1.0, "sections": None}, [("none", None)])
        # ---- general revolve: profiles x angle x cap x sections
        for pname, prof in _revolve_profiles(rnd):
            for angle in ([None, 2 * math.pi, math.pi / 3, math.pi, 1.0, 5.0, 0.1] if rounds == 1 else [rnd.choice([None, rnd.uniform(0.02, 6.0)])]):
                full = angle is None or abs(angle - 2 * math.pi) < 1e-10
                for n in ([3, 4, 5, 8, 9, None] if full else [1, 2, 3, 4, 7, None]) if rounds == 1 else [rnd.choice([3, 5, 6, 11] if full else [1, 2, 3, 6])]:
                    for cap in ([False] if full else [True, False]):
                        if not mine():
                            continue
                        if not full and n is not None and angle / n > math.pi - 0.2:
                            # one flat wedge cannot span half a turn or more: not a valid parameter set
                            continue
                        pls = places if (rounds > 1 or rnd.random() < 0.3) else [("none", None)]
                        placed("revolve", {"profile": [list(map(float, q)) for q in prof], "angle": angle, "cap": cap, "sections": n,
                                           "profile_name": pname}, pls)
        # ---- B. boxes
        for _ in range(2):
            if mine():
                placed("box", {"extents": [U(0.1, 5), U(0.1, 5), U(0.1, 5)]}, places)
            if mine():
                lo = [U(-5, 5) for _ in range(3)]
                emit({"fn": "box", "args": {"bounds": [lo, [x + U(0.1, 4) for x in lo]]}, "placement": "none", "T": None})
        # ---- C. icospheres
        if mine():
            emit({"fn": "icosphere", "args": {"radius": U(0.1, 10), "max_subdivisions": 4 if quick else 5}, "placement": "none"})
        # ---- D. extrusions
        polys = FIXED_POLYGONS if rounds == 1 else _drawing_polygons(rnd, 3)
        for poly in polys:
            for eng in engines:
                for h in (U(0.2, 4), -U(0.2, 4)):
                    if mine():
                        placed("extrude_polygon", {"polygon": poly, "height": h, "engine": eng}, places if rnd.random() < 0.5 else places[:1])
                if mine():
                    emit({"fn": "triangulate_polygon", "args": {"polygon": poly, "engine": eng}, "placement": "none"})
        for shell in CONVEX:
            for flip in (False, True):
                for h in (U(0.2, 3), -U(0.2, 3)):
                    if mine():
                        placed("extrude_triangulation", {"polygon": {"shell": shell if not flip else shell[::-1]}, "height": h, "flip": bool(rnd.random() < 0.5), "engine": None}, places)
        # ---- E. sweeps
        for poly in SWEEP_POLYGONS:
            for eng in engines:
                d = [U(-1, 1), U(-1, 1), U(-1, 1)]
                if np.linalg.norm(d) < 0.2:
                    d = [0, 0, 1]
                o = [U(-3, 3), U(-3, 3), U(-3, 3)]
                if mine():
                    emit({"fn": "sweep_polygon", "args": {"polygon": poly, "path_kind": "straight", "direction": d, "origin": o,
                                                          "length": U(2, 20), "n": rnd.choice([2, 3, 6]), "cap": True, "engine": eng}, "placement": "none"})
                if mine():
                    emit({"fn": "sweep_polygon", "args": {"polygon": poly, "path_kind": "straight", "direction": d, "origin": o,
                                                          "length": U(2, 20), "n": 2, "cap": False, "engine": eng}, "placement": "none"})
                if mine():
                    turns = [[U(-0.85, 0.85), [U(-1, 1), U(-1, 1), U(0.2, 1)], U(12, 20)] for _ in range(rnd.randint(1, 4))]
                    emit({"fn": "sweep_polygon", "args": {"polygon": poly, "path_kind": "bent", "direction": d, "origin": o, "turns": turns,
                                                          "cap": True, "engine": eng}, "placement": "none"})
                if mine():
                    n = rnd.choice([8, 9, 12, 16])
                    emit({"fn": "sweep_polygon", "args": {"polygon": poly, "path_kind": "loop", "n": n, "R": U(12, 20), "wobble": rnd.choice([0.0, 1.0]),
                                                          "cap": rnd.random() < 0.5, "connect": True, "engine": eng,
                                                          "frame": places[1][1].tolist()}, "placement": "none"})
                if mine():
                    emit({"fn": "sweep_polygon", "args": {"polygon": poly, "path_kind": "loop", "n": 10, "R": U(12, 20), "cap": True, "connect": False,
                                                          "engine": eng}, "placement": "none"})
                if mine():
                    n = rnd.choice([3, 5])
                    emit({"fn": "sweep_polygon", "args": {"polygon": poly, "path_kind": "straight", "direction": d, "origin": o, "length": U(5, 20), "n": n,
                                                          "angles": [U(-0.3, 0.3) for _ in range(n)], "cap": True, "engine": eng}, "placement": "none"})
        # ---- F. convergence over 4 doublings
        if rounds == 1 or not quick:
            for fn, a in [
                ("cylinder", {"radius": U(0.5, 3), "height": U(0.5, 3), "n0": rnd.choice([3, 4, 5])}),
                ("cone", {"radius": U(0.5, 3), "height": U(0.5, 3), "n0": rnd.choice([3, 4, 5])}),
                ("annulus", {"r_min": 1.0, "r_max": U(1.5, 3), "height": U(0.5, 3), "n0": rnd.choice([3, 4, 5])}),
                ("torus", {"major": U(2, 4), "minor": U(0.3, 1.2), "n0": rnd.choice([3, 4, 5])}),
                ("uv_sphere", {"radius": U(0.5, 3), "n0": 4}),
                ("capsule", {"radius": U(0.5, 2), "height": U(0.5, 3), "n0": 4}),
            ]:
                if mine():
                    emit({"fn": "convergence", "fn_inner": fn, "args": a, "placement": "none"})
        # ---- G. primitives x edit histories
        if rounds == 1:
            # seed-independent core: parameters trading values after everything / nothing was read
            for kind, p0 in (("Cylinder", {"radius": 2.0, "height": 3.0, "sections": 12}),
                             ("Capsule", {"radius": 1.0, "height": 4.0, "sections": 32}),
                             ("Box", {"extents": [1.0, 2.0, 3.0]}),
                             ("Sphere", {"radius": 2.0, "subdivisions": 0})):
                for pre in (list(PRIM_READS), []):
                    for extra in ({"inplace": True}, {"inplace": False}) if kind == "Box" else ({},):
                        if mine():
                            emit({"fn": "primitive", "kind": kind, "params": dict(p0), "U": places[1][1].tolist(),
                                  "edits": [dict({"op": "trade", "index": 0, "pre": pre}, **extra),
                                            {"op": "trade", "index": 1, "pre": ["vertices"]}], "rseed": 0})
            for rb in (True, False):
                if mine():
                    emit({"fn": "primitive", "kind": "Extrusion", "params": {"polygon": FIXED_POLYGONS[0], "height": 1.5},
                          "U": places[1][1].tolist(),
                          "edits": [{"op": "height_hash_twins", "read_between": rb, "pre": ["vertices"] if rb else []}], "rseed": 0})
            for kind, p0 in (("Box", {"extents": [1.0, 2.0, 3.0]}), ("Cylinder", {"radius": 2.0, "height": 3.0, "sections": 12})):
                if mine():
                    emit({"fn": "primitive", "kind": kind, "params": dict(p0), "U": np.eye(4).tolist(),
                          "edits": [{"op": "transform_buffer_reused", "value": places[1][1].tolist(), "pre": ["vertices"]}], "rseed": 0})
        # ---- H. round 4: extreme sizes / aspect ratios, open rings, sweeps along (nearly) straight paths in
        # every direction, parameter arrays written through numpy routes, moves below 1e-8
        for spec in _round4_specs(run, rnd, rounds, engines):
            if mine():
                emit(spec)
        nhist = 40 if quick else 80
        for _ in range(nhist):
            if run.out_of_time(0.93):
                break
            if mine():
                emit(_random_primitive_spec(run, rnd))
    run.note("rounds", rounds)


PARAM_WRITE_ROUTES = ["kept_view", "ufunc_out", "copyto", "flat_setitem", "ufunc_at", "putmask", "place"]
UNIT_PRIMS = [("Box", {"extents": [1.0, 2.0, 3.0]}), ("Sphere", {"radius": 1.5, "subdivisions": 1}),
              ("Cylinder", {"radius": 2.0, "height": 3.0, "sections": 12}),
              # (64: the number of facets a Capsule has whatever `sections` says - open finding 3 - so that symptom
              # stays with its own key)
              ("Capsule", {"radius": 1.0, "height": 4.0, "sections": 64}),
              ("Extrusion", {"polygon": FIXED_POLYGONS[3], "height": 1.5})]


def _scaled_polygon(spec, k):
    out = {"shell": [[float(x) * k, float(y) * k] for x, y in spec["shell"]]}
    if spec.get("holes"):
        out["holes"] = [[[float(x) * k, float(y) * k] for x, y in h] for h in spec["holes"]]
    return out


def _perp(d):
    d = np.asarray(d, dtype=np.float64)
    a = np.cross(d, [1.0, 0.0, 0.0]) if abs(d[0]) < 0.9 else np.cross(d, [0.0, 1.0, 0.0])
    a /= np.linalg.norm(a)
    return a, np.cross(d, a)


def _near_prism_path(rnd, pole):
    """
    A path that is straight up to a sideways wiggle of 1e-3 of its segment length, by the position of its
    tangents relative to the +-Z axis (the pole of the spherical coordinates a sweep may take them in):
      through  straight along +-Z, zigzag inside one vertical plane: the tangent passes through the pole
      start    the first segment(s) exactly along +-Z, then leaning away
      near     within 1e-2 rad of +-Z, the azimuth of the lean changes from segment to segment
      away     more than 0.3 rad from +-Z (control: any of the three wiggles)
    """
    U = lambda a, b: float(rnd.uniform(a, b))  # noqa
    eps = 1e-3
    sgn = rnd.choice([1.0, -1.0])
    if pole == "away":
        while True:
            d = np.array([U(-1, 1), U(-1, 1), U(-1, 1)])
            if np.linalg.norm(d) > 0.3 and abs(d[2]) / np.linalg.norm(d) < math.cos(0.3):
                break
        d /= np.linalg.norm(d)
        wiggle = rnd.choice(["planar", "lean", "spatial"])
    else:
        d = np.array([0.0, 0.0, sgn])
        wiggle = {"through": "planar", "start": "lean", "near": "spatial"}[pole]
        if pole == "near" and rnd.random() < 0.5:
            # the whole path leans by 1e-4 .. 1e-2 and wiggles in a plane that does not contain Z
            t, az = 10 ** U(-4, -2), U(0, 2 * math.pi)
            d = np.array([math.sin(t) * math.cos(az), math.sin(t) * math.sin(az), sgn * math.cos(t)])
            wiggle = "planar"
    a, b = _perp(d)
    if pole == "through":
        # any vertical plane
        az = U(0, 2 * math.pi)
        a = np.array([math.cos(az), math.sin(az), 0.0])
        b = np.cross(d, a)
    n = rnd.randint(3, 7)
    L = U(1, 5)
    o = np.array([U(-3, 3), U(-3, 3), U(-3, 3)])
    pts = []
    for i in range(n):
        if wiggle == "planar":
            off = a * eps * (-1) ** i
        elif wiggle == "spatial":
            t = U(0, 2 * math.pi)
            off = (a * math.cos(t) + b * math.sin(t)) * eps
        else:
            off = a * eps * max(0, i - rnd.choice([1, 2])) ** 2
        pts.append(o + d * L * i + off * L)
    return np.array(pts), wiggle


def _round4_specs(run, rnd, rounds, engines):
    U = lambda a, b: float(rnd.uniform(a, b))  # noqa
    out = []
    eng = engines[0] if engines else None
    ring_rect = [[1.0, 0.0], [2.0, 0.0], [2.0, 1.0], [1.0, 1.0]]
    ring_tri = [[1.5, 0.0], [2.5, 0.4], [1.7, 1.2]]
    if rounds == 1:
        # (a) the same shapes at sizes 1e-6, 1e-7 (10x and more above the 1e-8 merge distance) and 1e9, 1e12
        for s, tag in ((1e-6, "small"), (1e-7, "small"), (1e9, "large"), (1e12, "large")):
            cls = "size=%s" % tag
            for fn, a in [
                ("cylinder", {"radius": s, "height": s, "sections": None}),
                ("cylinder", {"radius": s, "height": s, "sections": 256}),
                ("cone", {"radius": s, "height": s, "sections": None}),
                ("annulus", {"r_min": s / 2, "r_max": s, "height": s, "sections": None}),
                ("torus", {"major": s, "minor": s / 4, "major_sections": 32, "minor_sections": 32}),
                ("uv_sphere", {"radius": s, "count": None}),
                ("capsule", {"radius": s, "height": s, "count": None}),
                ("revolve", {"profile": [[x * s, y * s] for x, y in ring_rect + ring_rect[:1]], "angle": 1.0, "cap": True, "sections": 8,
                             "profile_name": "ring_rect"}),
                ("box", {"extents": [s, 2 * s, 3 * s]}),
                ("icosphere", {"radius": s, "max_subdivisions": 3}),
                ("extrude_polygon", {"polygon": _scaled_polygon(FIXED_POLYGONS[3], s / 10), "height": s, "engine": eng}),
                ("sweep_polygon", {"polygon": _scaled_polygon(SWEEP_POLYGONS[0], s), "path_kind": "straight", "direction": [0.3, -0.5, 0.8],
                                   "origin": [0.0, 0.0, 0.0], "length": 5 * s, "n": 3, "cap": True, "engine": eng}),
            ]:
                out.append({"fn": fn, "args": a, "placement": "none", "T": None, "cls": cls})
            for kind, p0 in UNIT_PRIMS:
                p1 = dict(p0)
                for k in ("radius", "height"):
                    if k in p1:
                        p1[k] = p1[k] * s
                if "extents" in p1:
                    p1["extents"] = [x * s for x in p1["extents"]]
                if "polygon" in p1:
                    p1["polygon"] = _scaled_polygon(p1["polygon"], s / 10)
                out.append({"fn": "primitive", "kind": kind, "params": p1, "U": np.eye(4).tolist(), "edits": [], "cls": cls, "rseed": 0})
        # (b) slender and flat shapes of moderate size: radius / height = 1e-6 (control), 1e-9, 1e+9
        for r, h in ((1e-3, 1e3), (1e-4, 1e5), (1e5, 1e-4)):
            cls = "aspect=extreme"
            step = [[0, 0], [2 * r, 0], [2 * r, 0.4 * h], [r, 0.4 * h], [r, h], [0, h]]
            for fn, a in [
                ("cylinder", {"radius": r, "height": h, "sections": 16}),
                ("cone", {"radius": r, "height": h, "sections": 16}),
                ("annulus", {"r_min": r / 2, "r_max": r, "height": h, "sections": 16}),
                ("revolve", {"profile": [[float(x), float(y)] for x, y in step], "angle": None, "cap": False, "sections": 8, "profile_name": "axis_step"}),
            ]:
                out.append({"fn": fn, "args": a, "placement": "none", "T": None, "cls": cls})
            out.append({"fn": "primitive", "kind": "Cylinder", "params": {"radius": r, "height": h, "sections": 16}, "U": np.eye(4).tolist(),
                        "edits": [], "cls": cls, "rseed": 0})
        # (c) profiles given as a ring without the repeated first point (what creation.torus passes)
        for name, ring in (("ring_rect", ring_rect), ("ring_tri", ring_tri)):
            for angle in (None, math.pi / 2, 1.0, 3.0):
                for n in (3, 8, None):
                    if angle is not None and n is not None and angle / n > math.pi - 0.2:
                        continue
                    out.append({"fn": "revolve", "args": {"profile": ring, "angle": angle, "cap": angle is not None, "sections": n, "profile_name": name},
                                "placement": "none", "T": None, "cls": "profile=open_ring"})
    # (d) sweeps that must be prisms up to 2%: every round, new random paths
    offc = {"shell": [[0.0, 0.0], [2.0, 0.0], [2.0, 1.0], [0.0, 1.0]]}
    for pole in ("through", "start", "near", "away", "away"):
        pts, wiggle = _near_prism_path(rnd, pole)
        out.append({"fn": "sweep_polygon", "placement": "none", "cls": "path=near_straight pole=%s" % pole,
                    "args": {"polygon": rnd.choice([offc, SWEEP_POLYGONS[0], SWEEP_POLYGONS[1]]), "path_kind": "explicit", "path_class": "near_straight:" + pole,
                             "points": pts.tolist(), "wiggle": wiggle, "near_prism": True, "cap": True, "engine": eng}})
    for pole in ("through", "away"):
        # a smooth planar S curve (tangent back to its first direction), 200 samples, in a vertical / a tilted plane
        z = np.linspace(0, 2 * math.pi, 200)
        az = U(0, 2 * math.pi)
        P = np.column_stack([0.3 * np.sin(z) * math.cos(az), 0.3 * np.sin(z) * math.sin(az), z]) * U(1, 4)
        if pole == "away":
            # the same curve laid down: Z -> X, then turned about X
            c, sn = math.cos(az), math.sin(az)
            P = np.column_stack([P[:, 2], P[:, 0] * c - P[:, 1] * sn, P[:, 0] * sn + P[:, 1] * c])
        out.append({"fn": "sweep_polygon", "placement": "none", "cls": "path=smooth_planar pole=%s" % pole,
                    "args": {"polygon": rnd.choice([offc, SWEEP_POLYGONS[0]]), "path_kind": "explicit", "path_class": "smooth_planar:" + pole,
                             "points": P.tolist(), "near_prism": True, "cap": True, "engine": eng}})
    # (e) parameter arrays written through numpy routes
    todo = []
    for kind, p0 in UNIT_PRIMS:
        for param in (("extents", "transform", "center") if kind == "Box" else ("transform", "center")):
            for route in PARAM_WRITE_ROUTES:
                if param == "center" and route != "kept_view":
                    continue  # `primitive.center` is a new view on every access: same as transform otherwise
                todo.append((kind, p0, param, route))
    if rounds == 1:
        # (Capsule / Extrusion meshes are large: they take part in the random rounds)
        todo = [t for t in todo if t[0] in ("Box", "Sphere", "Cylinder")]
    else:
        if rnd.random() > 0.15:
            # a stale Capsule costs two O(n^2) point-set comparisons of 1922 vertices: one round in seven
            todo = [t for t in todo if t[0] != "Capsule"]
        todo = rnd.sample(todo, 5)
    for kind, p0, param, route in todo:
        for between in (True, False):
            def val():
                return [U(0.5, 4), U(0.5, 4), U(0.5, 4)] if param == "extents" else [U(-5, 5), U(-5, 5), U(-5, 5)]
            eds = [{"op": "param_write", "route": route, "param": param, "value": val(), "read_between": between,
                    "inplace_op": bool(rnd.random() < 0.5), "tag": "param_write:" + route, "pre": list(PRIM_READS) if k == 0 else []}
                   for k in range(2)]
            out.append({"fn": "primitive", "kind": kind, "params": dict(p0), "U": (np.eye(4) if rounds == 1 else _rigid(run)).tolist(),
                        "edits": eds, "rseed": 0})
    # (f) moves below 1e-8: many on primitives of unit size, one on primitives of size 1e-6
    tiny_rot = np.eye(4)
    ang = 3e-9
    tiny_rot[:2, :2] = [[math.cos(ang), -math.sin(ang)], [math.sin(ang), math.cos(ang)]]
    for kind, p0 in (UNIT_PRIMS if rounds == 1 else [rnd.choice(UNIT_PRIMS)]):
        step = [U(-9e-9, 9e-9), 9e-9 * rnd.choice([1, -1]), U(-9e-9, 9e-9)]
        out.append({"fn": "primitive", "kind": kind, "params": dict(p0), "U": np.eye(4).tolist(), "rseed": 0, "edits": [
            {"op": "repeat", "times": 400, "edit": {"op": "apply_translation", "value": step}, "tag": "move:below_1e-8", "pre": list(PRIM_READS)}]})
        out.append({"fn": "primitive", "kind": kind, "params": dict(p0), "U": _rigid(run).tolist(), "rseed": 0, "edits": [
            {"op": "repeat", "times": 400, "edit": {"op": "apply_transform", "value": tiny_rot.tolist()}, "tag": "move:below_1e-8", "pre": ["vertices"]}]})
    for kind, p0 in (("Box", {"extents": [1e-6, 2e-6, 3e-6]}), ("Sphere", {"radius": 1e-6, "subdivisions": 1})):
        out.append({"fn": "primitive", "kind": kind, "params": dict(p0), "U": np.eye(4).tolist(), "rseed": 0, "edits": [
            {"op": "apply_translation", "value": [5e-9, -3e-9, 2e-9], "tag": "move:below_1e-8", "pre": ["vertices", "bounds"]}]})
    return out


def _rigid(run):
    ms = [m for t, m in matrices(run.rng, dim=3, classes={"rigid"})]
    return ms[int(run.rng.integers(len(ms)))]


def _random_primitive_spec(run, rnd):
    U = lambda a, b: float(rnd.uniform(a, b))  # noqa
    kind = rnd.choice(["Box", "Sphere", "Cylinder", "Capsule", "Extrusion"])
    if kind == "Box":
        p = {"extents": [U(0.2, 4), U(0.2, 4), U(0.2, 4)]}
    elif kind == "Sphere":
        p = {"radius": U(0.2, 4), "subdivisions": rnd.choice([0, 1, 2])}
    elif kind == "Cylinder":
        p = {"radius": U(0.2, 3), "height": U(0.2, 5), "sections": rnd.choice([3, 4, 5, 8, 17, 32])}
    elif kind == "Capsule":
        p = {"radius": U(0.2, 2), "height": U(0.2, 5), "sections": rnd.choice([8, 32, 64])}
    else:
        p = {"polygon": rnd.choice(FIXED_POLYGONS), "height": rnd.choice([1, -1]) * U(0.2, 4)}
    r = rnd.random()
    if r < 0.3:
        U0 = np.eye(4)
    elif r < 0.8:
        U0 = _rigid(run)
    else:
        ms = [m for t, m in matrices(run.rng, dim=3, classes={"mirror_axis", "mirror_rot"})]
        U0 = ms[int(run.rng.integers(len(ms)))]
    edits = []
    for _ in range(rnd.randint(1, 5)):
        ops = ["transform", "transform_inplace", "center", "apply_transform", "apply_transform", "apply_translation", "apply_scale"]
        if kind in ("Cylinder", "Capsule"):
            ops += ["radius", "height", "sections"] * 2
        if kind == "Sphere":
            ops += ["radius", "subdivisions"] * 2
        if kind == "Box":
            ops += ["extents", "extents_inplace"] * 3
        if kind == "Extrusion":
            ops += ["height", "polygon", "slide"] * 2
            ops = [o for o in ops if o != "apply_scale"]
        else:
            ops += ["trade"] * 3
        op = rnd.choice(ops)
        ed = {"op": op}
        if op == "trade":
            ed["index"], ed["inplace"] = rnd.randrange(3), rnd.random() < 0.5
        if op in ("radius",):
            ed["value"] = U(0.2, 4)
        elif op == "height":
            ed["value"] = U(0.2, 6) * (rnd.choice([1, -1]) if kind == "Extrusion" else 1)
        elif op == "sections":
            ed["value"] = rnd.choice([3, 4, 6, 7, 12, 40])
        elif op == "subdivisions":
            ed["value"] = rnd.choice([0, 1, 2, 3])
        elif op == "extents":
            ed["value"] = [U(0.2, 4), U(0.2, 4), U(0.2, 4)]
        elif op == "extents_inplace":
            ed["index"], ed["value"] = rnd.randrange(3), U(0.2, 4)
        elif op == "polygon":
            ed["value"] = rnd.choice(FIXED_POLYGONS)
        elif op == "transform":
            ed["value"] = _rigid(run).tolist()
        elif op in ("transform_inplace", "center", "apply_translation"):
            ed["value"] = [U(-5, 5), U(-5, 5), U(-5, 5)]
        elif op == "slide":
            ed["value"] = U(-3, 3)
        elif op == "apply_scale":
            ed["value"] = rnd.choice([0.5, 2.0, 3.0, 0.1])
        elif op == "apply_transform":
            k = rnd.random()
            if k < 0.5:
                ed["tf"], ed["value"] = "rigid", _rigid(run).tolist()
            elif k < 0.8 and kind != "Extrusion":
                M = _rigid(run)
                s = rnd.choice([0.5, 2.0, 1.5])
                M[:3, :3] *= s
                ed["tf"], ed["value"] = "similarity", M.tolist()
            else:
                ms = [m for t, m in matrices(run.rng, dim=3, classes={"mirror_axis", "mirror_rot"})]
                ed["tf"], ed["value"] = "mirror", ms[int(run.rng.integers(len(ms)))].tolist()
        k = rnd.random()
        ed["pre"] = [] if k < 0.3 else (list(PRIM_READS) if k < 0.6 else rnd.sample(PRIM_READS, rnd.randint(1, 3)))
        edits.append(ed)
    return {"fn": "primitive", "kind": kind, "params": p, "U": U0.tolist(), "edits": edits, "rseed": rnd.randrange(1 << 30)}


def replay(run, case):
    if not isinstance(case, dict) or "fn" not in case:
        return
    spec = {k: v for k, v in case.items() if k not in ("observed", "error")}
    run_case(run, spec)
