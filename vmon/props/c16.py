"""
C16 - convex hulls and bounding volumes contain what they bound.

Monitor shape: independent reference / laws from the statement evaluated next to every call.

* hull: every hull vertex is looked up EXACTLY (bytes) among the input points; all input points
  on the inner side of every face plane (normals recomputed here); watertight + consistently
  wound by counting directed edges; outward = positive signed volume; convex by the oracle's own
  adjacent-face projections, which are also compared with convex.adjacency_projections; the
  support function of the hull equals that of the input on sampled directions (nothing dropped).
* AABB: exact min / max.  OBB: R^T R = I, det +1, image centred at 0 with the reported extents.
* sphere: containment always; minimality against an independent Welzl move-to-front ball
  (vmon/oracle/welzl.py, self-checked against an O(n^4) brute force at start-up).  The size of
  the oracle's minimal support set (2, 3, 4) is part of the case tag and of the key; clouds with
  extra co-spherical points, a borderline support or a thin margin are not judged for minimality.
* cylinder / bounding_primitive: containment in the primitive's own frame.

Input that does not span the dimension may be refused with an ordinary exception; a returned
result is still judged for containment, and what is answered for a flat shape at scale 1 about the
origin must also be answered for the same shape scaled / translated.

Round 4 classes: extreme points with a twin closer than tol.merge; points near a common sphere that
cover a cap of it; the hull by every option value convex_hull offers (joggle ...); primitives
(Box, Cylinder, Capsule, Sphere, Extrusion) placed, mirrored and re-scaled; a capsule (two times
~1000 co-spherical vertices) far from the origin; flat input at every placement, also as a mesh.

Round 5 classes: histories "another cached property is read first (is_convex, is_watertight, volume,
symmetry ...), then the hull and every bounding volume" on meshes whose faces look convex without the
mesh being its own hull (a dent of 1e-6 .. 3e-6 of the size, vertices no face uses) and on ordinary
closed meshes, also with a vertex edit between the read and the queries; input with more than 512
points / hull vertices without radial symmetry (points on an ellipsoid, the same filled, a scaled
icosphere mesh, a big gaussian cloud) through every route.
"""

from __future__ import annotations

import numpy as np

from ..gen import mesh as G
from ..oracle import welzl as W

PROP = "C16"
LEVEL = "exploration"
RULE = (
    "point clouds of classes random / gaussian / lattice / clustered / flat (aspect 1e-4) / cube "
    "corners / sphere samples / small n (4-7 points) / designed 2- and 3-point support, in 3-D and "
    "2-D, under scale 1e-4, 1, 1e4 and translation 0 / 1e5; each as raw array, PointCloud and "
    "Trimesh (its hull), plus closed generator meshes and radially symmetric creation meshes; clouds "
    "with extreme points doubled at 1e-10 .. 4e-9, caps of a sphere with radial noise 1e-8 / 1e-7, the hull "
    "under 10 qhull option values, 5 kinds of primitive x 4 placement histories (rigid, two mirrors, "
    "re-scaled), capsules 3e3 .. 2e5 from the origin, 8 kinds of flat input x every transform; 3 kinds of mesh "
    "(sub-tolerance dent, unreferenced vertices, plain) x a prior read of one of 21 cached properties "
    "(is_convex always) before the queries; 4 kinds of input with 530 .. 3000 (quick: 1400) points / hull "
    "vertices and three different axes.  One "
    "case = one (query, object); distinct = distinct (query, point bytes); non-trivial = the input "
    "spans its dimension and has more points than the dimension + 1 or is judged for minimality."
)
ANCHORS = [
    "trimesh/convex.py:convex_hull",
    "trimesh/convex.py:adjacency_projections",
    "trimesh/convex.py:is_convex",
    "trimesh/convex.py:hull_points",
    "trimesh/bounds.py:oriented_bounds",
    "trimesh/bounds.py:oriented_bounds_2D",
    "trimesh/bounds.py:minimum_cylinder",
    "trimesh/nsphere.py:minimum_nsphere",
    "trimesh/nsphere.py:fit_nsphere",
    "trimesh/parent.py:Geometry3D.bounding_box",
    "trimesh/parent.py:Geometry3D.bounding_box_oriented",
    "trimesh/parent.py:Geometry3D.bounding_sphere",
    "trimesh/parent.py:Geometry3D.bounding_cylinder",
    "trimesh/parent.py:Geometry3D.bounding_primitive",
    "trimesh/parent.py:Geometry3D.apply_obb",
]
SHARDS = {"quick": 1, "thorough": 12}
BUDGET = {"quick": 42, "thorough": 420}
MIN_EVENTS = {"quick": 1500, "thorough": 15000}
ASSUMPTIONS = [
    "float64 plane / distance evaluation with tolerance 1e-7*extent + 1e-11*|offset| is exact enough",
    "the Welzl oracle is correct (self-checked against brute force on small clouds at start-up)",
    "minimality is judged only when the oracle's minimal ball has exactly its support on the boundary, "
    "convex coefficients >= 1e-3 and every other point inside by >= 1e-6 relative",
]
EXHAUSTIVE = {"quick": False, "thorough": False}

XFORMS = (("s=1:t=0", 1.0, 0.0), ("s=1e-4:t=0", 1e-4, 0.0), ("s=1e4:t=0", 1e4, 0.0), ("s=1:t=1e5", 1.0, 1e5), ("s=1e4:t=1e5", 1e4, 1e5),
          # a part of ordinary size a few thousand kilometres from the origin (coordinates in mm)
          ("s=1:t=3e6", 1.0, 3e6))


# ------------------------------------------------------------------------------------------
# generators


def rand_rot(rng, d=3):
    A = rng.normal(size=(d, d))
    Q, Rr = np.linalg.qr(A)
    Q = Q * np.sign(np.diag(Rr))
    if np.linalg.det(Q) < 0:
        Q[:, 0] *= -1
    return Q


def base_cloud(rng, cls, d=3):
    if cls == "random":
        return rng.random((int(rng.integers(d + 2, 120)), d)) * 2 - 1
    if cls == "gaussian":
        return rng.normal(size=(int(rng.integers(d + 2, 120)), d))
    if cls == "lattice":
        k = int(rng.integers(2, 5))
        P = np.unique(rng.integers(-k, k + 1, size=(int(rng.integers(8, 70)), d)), axis=0).astype(np.float64)
        return P
    if cls == "lattice_full":
        k = int(rng.integers(2, 4))
        ax = [np.arange(k)] * d
        return np.stack(np.meshgrid(*ax, indexing="ij"), axis=-1).reshape(-1, d).astype(np.float64)
    if cls == "clustered":
        c = rng.random((int(rng.integers(d + 1, 7)), d)) * 2 - 1
        return (c[:, None, :] + rng.normal(size=(len(c), int(rng.integers(3, 12)), d)) * 1e-3).reshape(-1, d)
    if cls == "flat":
        P = rng.random((int(rng.integers(d + 3, 80)), d)) * 2 - 1
        P[:, -1] *= 1e-4
        return P @ rand_rot(rng, d).T if rng.random() < 0.5 else P
    if cls == "cube_corners":
        P = np.array(np.meshgrid(*([[-1.0, 1.0]] * d), indexing="ij")).reshape(d, -1).T.copy()
        if rng.random() < 0.5:
            P = np.vstack([P, rng.random((int(rng.integers(1, 20)), d)) - 0.5])
        return P * rng.choice([1.0, 1.0, 3.0], size=d) if rng.random() < 0.5 else P @ rand_rot(rng, d).T
    if cls == "sphere":
        P = rng.normal(size=(int(rng.integers(d + 2, 80)), d))
        P /= np.linalg.norm(P, axis=1, keepdims=True)
        if rng.random() < 0.5:
            P = np.vstack([P, (rng.random((int(rng.integers(1, 30)), d)) - 0.5)])
        return P
    if cls == "small_n":
        return rng.random((int(rng.integers(d + 1, d + 5)), d)) * 2 - 1
    if cls == "support2":
        # two far antipodal points, the rest well inside the ball they define
        u = rng.normal(size=d)
        u /= np.linalg.norm(u)
        Q = rng.normal(size=(int(rng.integers(d + 2, 40)), d))
        Q = Q / np.linalg.norm(Q, axis=1, keepdims=True) * rng.random((len(Q), 1)) * 0.8
        return np.vstack([u, -u, Q])
    if cls == "support3":
        # an acute triangle on a great circle, the rest well inside
        ang = np.array([0.0, 2.2, 4.3]) + rng.normal(size=3) * 0.1
        T = np.zeros((3, d))
        T[:, 0], T[:, 1] = np.cos(ang), np.sin(ang)
        Q = rng.normal(size=(int(rng.integers(d + 2, 40)), d))
        Q = Q / np.linalg.norm(Q, axis=1, keepdims=True) * rng.random((len(Q), 1)) * 0.7
        return np.vstack([T, Q]) @ rand_rot(rng, d).T
    if cls == "near_dup_extreme":
        # a cloud of ordinary size in which some extreme points have a twin closer than tol.merge
        # (1e-8, absolute) yet far above rounding and tol.zero: scanned parts, seams of a mesh
        # built with process=False.  The cloud clearly spans its dimension.
        kind = int(rng.integers(3))
        if kind == 0:
            P = np.array(np.meshgrid(*([[-1.0, 1.0]] * d), indexing="ij")).reshape(d, -1).T.copy()
            P = P @ rand_rot(rng, d).T if rng.random() < 0.5 else P
        elif kind == 1:
            P = rng.normal(size=(int(rng.integers(d + 3, 40)), d))
        else:
            P = rng.random((int(rng.integers(d + 3, 40)), d)) * 2 - 1
        twins = []
        for _ in range(int(rng.integers(1, 5))):
            u = rng.normal(size=d)
            i = int(np.argmax(P @ u))  # an extreme point
            v = rng.normal(size=d)
            v -= v @ u / (u @ u) * u  # sideways: the twin is (nearly always) extreme as well
            v /= np.linalg.norm(v)
            twins.append(P[i] + v * float(rng.choice([4e-9, 1e-9, 1e-10])))
        return np.vstack([P, np.array(twins)])
    if cls == "cap":
        # points within 1e-8 .. 1e-7 (relative) of a common sphere, covering only a cap of it
        # (a dome, a dish, a lens; an arc in 2-D): the minimal ball is NOT that sphere
        n = int(rng.integers(d + 3, 40))
        a = np.radians(float(rng.uniform(25.0, 70.0)))
        if d == 3:
            z = 1 - rng.random(n) * (1 - np.cos(a))
            phi = rng.random(n) * 2 * np.pi
            sxy = np.sqrt(1 - z * z)
            P = np.column_stack([sxy * np.cos(phi), sxy * np.sin(phi), z])
        else:
            ang = rng.uniform(-a, a, size=n)
            P = np.column_stack([np.cos(ang), np.sin(ang)])
        P = P * (1 + rng.normal(size=(n, 1)) * float(rng.choice([1e-8, 1e-7])))
        return P @ rand_rot(rng, d).T
    raise ValueError(cls)


CLOUD_CLASSES = ("random", "gaussian", "lattice", "lattice_full", "clustered", "flat", "cube_corners", "sphere", "small_n", "support2", "support3",
                 "near_dup_extreme", "cap")


def spans(P):
    """
    Does the cloud span its dimension clearly: relative singular value >= 1e-9, and above what
    the rounding of the coordinates alone produces (a planar cloud moved to 3e6 has a "thickness"
    of a few 1e-10 that is not a third dimension).
    """
    Q = P - P.mean(axis=0)
    sv = np.linalg.svd(Q, compute_uv=False)
    floor = 64 * np.finfo(np.float64).eps * float(np.abs(P).max()) * np.sqrt(len(P))
    return len(P) > P.shape[1] and sv[-1] > 1e-9 * max(sv[0], 1e-300) and sv[-1] > floor


class Ctx:
    """Per-cloud tolerances and witness."""

    def __init__(self, P, cls, xf, d):
        self.P = np.ascontiguousarray(P, dtype=np.float64)
        self.cls, self.xf, self.d = cls, xf, d
        self.ext = float(np.linalg.norm(np.ptp(self.P, axis=0))) or 1.0
        self.off = float(np.abs(self.P).max())
        self.tol = 1e-7 * self.ext + 1e-11 * self.off
        self.full = bool(spans(self.P))
        self.tiny = False
        self.neardup = False
        self.base_ok = ()  # query families the library answered for this shape at s=1, t=0
        self.simplices = None
        self.extra = {}  # merged into every witness (what replay needs beyond the points)
        if d == 3 and self.full:
            # classification only (never used to judge): the facets qhull produces for this input
            try:
                from scipy.spatial import ConvexHull

                # (on centred points, as convex_hull does since 0423125)
                h = ConvexHull(self.P - self.P.mean(axis=0), qhull_options="QbB Pp Qt")
                tri = self.P[h.simplices]
                cr = np.linalg.norm(np.cross(tri[:, 1] - tri[:, 0], tri[:, 2] - tri[:, 0]), axis=1)
                self.tiny = bool(cr.min() < 1e-12)
                self.simplices = np.asarray(h.simplices, dtype=np.int64)
                # two extreme points closer than tol.merge (1e-8, absolute)
                from scipy.spatial import cKDTree

                self.neardup = len(cKDTree(self.P[h.vertices]).query_pairs(1e-8)) > 0
            except Exception:  # noqa
                self.tiny = False

    def tag(self, q):
        return "%s:%s:%s:%dd" % (q, self.cls, self.xf, self.d)

    def wit(self, **kw):
        w = {"points": self.P.tolist(), "cls": self.cls, "xf": self.xf, "d": self.d}
        if self.base_ok:
            w["base_ok"] = list(self.base_ok)
        w.update(self.extra)
        w.update(kw)
        return w

    def klass(self):
        return "%dd" % self.d


def _family(key):
    return key.split(" ", 1)[0]


def _v(run, cx, key, what, wit):
    """
    Clouds whose hull has a facet with |cross product| < 1e-12 (10x tol.zero): convex_hull drops
    such facets as "zero magnitude" (absolute threshold), so the hull, and everything computed
    from its vertices, is judged under one key per query family.
    """
    if getattr(cx, "tiny", False) and _family(key) in ("hull", "obb", "sphere", "cylinder"):
        key = "%s class=hull_facet_cross_below_10x_tol_zero sym=facets_dropped_or_consequence" % _family(key)
    elif getattr(cx, "neardup", False) and _family(key) in ("hull", "obb", "sphere", "cylinder", "primitive", "history"):
        # an ordinary cloud with two extreme points closer than tol.merge: one key per family and
        # symptom, whatever the route (the hull is built by the same function for all of them)
        sym = key.split(" sym=", 1)[1] if " sym=" in key else "other"
        fn = " fn=" + key.split(" fn=", 1)[1].split(" ", 1)[0] if " fn=" in key else ""
        key = "%s%s class=extreme_points_closer_than_tol_merge sym=%s" % (_family(key), fn, sym)
    elif not cx.full and _family(key) == "obb" and " sym=" in key:
        # input that does not span the dimension takes the coplanar branch whatever the route
        key = "obb input=not_spanning %s sym=%s" % (cx.klass(), key.split(" sym=", 1)[1])
    elif not cx.full and _family(key) in ("sphere", "cylinder") and " sym=" in key:
        # likewise: flat input is measured from the same (hull) points whatever the route
        key = "%s input=not_spanning %s sym=%s" % (_family(key), cx.klass(), key.split(" sym=", 1)[1])
    run.violation(key, what, wit)


def rigid_defects(M, d):
    """Returns a list of symptoms for a (d+1, d+1) homogeneous matrix that should be rigid."""
    M = np.asarray(M, dtype=np.float64)
    out = []
    if M.shape != (d + 1, d + 1) or not np.isfinite(M).all():
        return ["malformed"]
    Rm = M[:d, :d]
    if np.abs(Rm.T @ Rm - np.eye(d)).max() > 1e-8:
        out.append("not_orthonormal")
    elif np.linalg.det(Rm) < 0:
        out.append("reflection")
    if np.abs(M[d] - np.eye(d + 1)[d]).max() > 1e-12:
        out.append("bad_last_row")
    return out


# ------------------------------------------------------------------------------------------
# hull


def tri_normals(V, F):
    N = np.cross(V[F[:, 1]] - V[F[:, 0]], V[F[:, 2]] - V[F[:, 0]])
    L = np.linalg.norm(N, axis=1)
    ok = L > 0
    Nn = np.zeros_like(N)
    Nn[ok] = N[ok] / L[ok, None]
    return Nn, L


def check_hull(run, cx, hull, route, refused_ok=False):
    P = cx.P
    key = "hull route=%s %s" % (route, cx.klass())
    V = np.asarray(hull.vertices, dtype=np.float64)
    F = np.asarray(hull.faces, dtype=np.int64)
    run.case(cx.tag("hull:" + route), P, nontrivial=cx.full and len(P) > 4)
    if len(F) < 4 or len(V) < 4:
        _v(run, cx, key + " sym=too_few_faces", "hull of a full-dimensional cloud has < 4 faces", cx.wit(route=route, faces=len(F)))
        return
    # 1. vertices are input points, exactly
    rows = {r.tobytes() for r in P}
    foreign = [i for i, v in enumerate(np.ascontiguousarray(V)) if v.tobytes() not in rows]
    if foreign:
        near = float(np.min(np.linalg.norm(P - V[foreign[0]], axis=1)))
        _v(run, cx, key + " sym=vertex_not_an_input_point", "a hull vertex is not (bitwise) one of the input points",
                      cx.wit(route=route, vertex=V[foreign[0]].tolist(), nearest_input_distance=near))
    # 2. watertight + consistent winding: each directed edge once, its reverse once
    E = {}
    for f in F:
        for i in range(3):
            e = (int(f[i]), int(f[(i + 1) % 3]))
            E[e] = E.get(e, 0) + 1
    closed = all(c == 1 and E.get((e[1], e[0]), 0) == 1 for e, c in E.items())
    if not closed:
        undirected = {}
        for (a, b), c in E.items():
            undirected[(min(a, b), max(a, b))] = undirected.get((min(a, b), max(a, b)), 0) + c
        sym = "not_watertight" if any(c != 2 for c in undirected.values()) else "winding_inconsistent"
        _v(run, cx, key + " sym=" + sym, "hull faces do not form a closed consistently wound surface", cx.wit(route=route))
    # 3. outward: positive signed volume
    c0 = V.mean(axis=0)
    vol6 = float(np.einsum("ij,ij->i", V[F[:, 0]] - c0, np.cross(V[F[:, 1]] - c0, V[F[:, 2]] - c0)).sum())
    if closed and not vol6 > 0:
        _v(run, cx, key + " sym=inward_wound", "hull has non-positive signed volume", cx.wit(route=route, volume6=vol6))
    # 4. every input point on the inner side of every face plane
    Nn, L = tri_normals(V, F)
    if closed and vol6 < 0:
        Nn = -Nn
    good = L > 1e-12 * cx.ext * cx.ext
    run.state("hull_zero_area_faces", int((~good).sum()) > 0)
    # the plane of a sliver facet (two extreme points close together, long edges) is known only
    # as well as its cross product: rounding of the coordinates (eps * |v|) tilts the normal by
    # eps * |v| * edge / |cross| and moves the plane by that times the extent at the far end
    # With the joggle option the facets were built on coordinates moved by 3e4 x qhull's
    # roundoff (~1e-11 x extent, x10 per retry): a facet thinner than that has no orientation.
    delta = 1e-9 * cx.ext if "option=QJ" in route else 16 * np.finfo(np.float64).eps * (cx.off + cx.ext)
    tolf = np.full(len(F), cx.tol)
    tolf[good] += delta * cx.ext * cx.ext / L[good]
    Dist = np.einsum("pfk,fk->pf", P[:, None, :] - V[F[good][:, 0]][None], Nn[good]) - tolf[good][None, :]
    worst = float(Dist.max()) if Dist.size else -1.0
    run.state("hull_depth_band", "out>tol" if worst > 0 else "ok")
    if worst > 0:
        pi, fi = np.unravel_index(int(Dist.argmax()), Dist.shape)
        _v(run, cx, key + " sym=input_point_outside", "an input point lies outside a hull face plane",
                      cx.wit(route=route, point=P[pi].tolist(), outside_by=worst + float(tolf[good][fi]), tol=float(tolf[good][fi])))
    # 5. convex: the oracle's own adjacent-face projections
    if closed:
        owner = {}
        for fi, f in enumerate(F):
            for i in range(3):
                owner[(int(f[i]), int(f[(i + 1) % 3]))] = (fi, int(f[(i + 2) % 3]))
        worstp = -np.inf
        for (a, b), (fi, _o) in owner.items():
            fj, opp = owner[(b, a)]
            if good[fi] and good[fj]:
                worstp = max(worstp, float(Nn[fi] @ (V[opp] - V[a])) - (tolf[fi] - cx.tol))
        if worstp > cx.tol:
            _v(run, cx, key + " sym=not_convex", "a neighbouring face's opposite vertex lies above a face plane", cx.wit(route=route, by=worstp))
        # the library's projections on the same pairs
        try:
            from trimesh import convex

            lib = np.asarray(convex.adjacency_projections(hull))
            adj = np.asarray(hull.face_adjacency)
            mine = np.zeros(len(adj))
            okrow = np.ones(len(adj), dtype=bool)
            for r, (f0, f1) in enumerate(adj):
                s0, s1 = set(F[f0].tolist()), set(F[f1].tolist())
                sh = sorted(s0 & s1)
                un = sorted(s1 - s0)
                if len(sh) != 2 or len(un) != 1 or not (good[f0] and good[f1]) or max(tolf[f0], tolf[f1]) > 2 * cx.tol:
                    okrow[r] = False
                    continue
                n0 = Nn[f0]
                mine[r] = float(n0 @ (V[un[0]] - V[sh[0]]))
            run.count("adjacency_projections_compared", int(okrow.sum()))
            if len(lib) != len(adj):
                _v(run, cx, "hull fn=adjacency_projections sym=wrong_length %s" % cx.klass(), "one projection per adjacent pair expected", cx.wit(route=route))
            elif okrow.any() and np.abs(lib[okrow] - mine[okrow]).max() > 1e-6 * cx.ext + cx.tol:
                r = int(np.abs(np.where(okrow, lib - mine, 0)).argmax())
                _v(run, cx, "hull fn=adjacency_projections sym=differs_from_recomputed %s" % cx.klass(),
                              "projection of the neighbour's opposite vertex onto the face normal differs from the recomputed one",
                              cx.wit(route=route, observed=float(lib[r]), expected=float(mine[r])))
            conv = bool(hull.is_convex)
            run.count("is_convex_on_hulls")
            if not conv and worstp <= 0.1 * cx.tol and not (~good).any() and (tolf <= 2 * cx.tol).all():
                _v(run, cx, "hull fn=is_convex sym=hull_reported_non_convex %s" % cx.klass(), "is_convex is False on a convex hull", cx.wit(route=route, worst_projection=worstp))
        except Exception as e:  # noqa
            _v(run, cx, "hull fn=adjacency_projections sym=exception:%s %s" % (type(e).__name__, cx.klass()), "raised %r" % (e,), cx.wit(route=route))
    # 6. support function on sampled directions (nothing extreme was dropped)
    U = np.vstack([np.eye(3), -np.eye(3), _DIRS3])
    hp, hv = (P @ U.T).max(axis=0), (V @ U.T).max(axis=0)
    if (hp - hv).max() > cx.tol:
        _v(run, cx, key + " sym=extreme_point_missing", "an extreme input point in a sampled direction is not a hull vertex", cx.wit(route=route, by=float((hp - hv).max())))


_DIRS3 = np.random.default_rng(12345).normal(size=(60, 3))
_DIRS3 /= np.linalg.norm(_DIRS3, axis=1, keepdims=True)
_DIRS2 = np.stack([np.cos(np.linspace(0, 2 * np.pi, 64, endpoint=False) + 0.01), np.sin(np.linspace(0, 2 * np.pi, 64, endpoint=False) + 0.01)], axis=1)


def check_hull_points(run, cx):
    from trimesh import convex

    P, d = cx.P, cx.d
    key = "hull fn=hull_points %s" % cx.klass()
    try:
        H = np.asarray(convex.hull_points(P.copy()))
    except Exception as e:  # noqa
        if cx.full:
            _v(run, cx, key + " sym=exception:%s" % type(e).__name__, "hull_points raised %r on a full-dimensional cloud" % (e,), cx.wit())
        else:
            run.skip("hull_points refused input that does not span the dimension")
        return
    run.case(cx.tag("hull_points"), P, nontrivial=cx.full and len(P) > d + 1)
    if not cx.full:
        # as for convex_hull: the statement speaks of sets that span the dimension
        run.skip("hull_points of a degenerate cloud returned: not judged")
        return
    rows = {r.tobytes() for r in P}
    if H.ndim != 2 or H.shape[1] != d:
        _v(run, cx, key + " sym=wrong_shape", "result is not (k, d)", cx.wit(shape=list(H.shape)))
        return
    if any(np.ascontiguousarray(h).tobytes() not in rows for h in H):
        _v(run, cx, key + " sym=vertex_not_an_input_point", "a returned hull point is not one of the input points", cx.wit())
    U = _DIRS3 if d == 3 else _DIRS2
    U = np.vstack([np.eye(d), -np.eye(d), U])
    gap = (P @ U.T).max(axis=0) - (H @ U.T).max(axis=0)
    if gap.max() > cx.tol:
        _v(run, cx, key + " sym=extreme_point_missing", "an extreme input point is not among the returned hull points", cx.wit(by=float(gap.max())))
    if d == 2 and len(H) >= 3:
        # convex position: every returned point is extreme (strictly outside the hull of the
        # others) or on its boundary - test by orientation along the scipy (ccw) order
        a, b, c = H, np.roll(H, -1, axis=0), np.roll(H, -2, axis=0)
        cr = (b[:, 0] - a[:, 0]) * (c[:, 1] - b[:, 1]) - (b[:, 1] - a[:, 1]) * (c[:, 0] - b[:, 0])
        if not ((cr >= -cx.tol * cx.ext).all() or (cr <= cx.tol * cx.ext).all()):
            _v(run, cx, key + " sym=not_in_convex_position", "returned 2-D hull points are not a convex polygon in order", cx.wit())


# ------------------------------------------------------------------------------------------
# boxes


def check_aabb(run, cx, obj, route):
    P = cx.P
    key = "aabb route=%s" % route
    run.case(cx.tag("aabb:" + route), P, nontrivial=len(P) > 1)
    try:
        b = np.asarray(obj.bounds, dtype=np.float64)
        lo, hi = P.min(axis=0), P.max(axis=0)
        if b.shape != (2, 3) or not (np.array_equal(b[0], lo) and np.array_equal(b[1], hi)):
            sym = "not_containing" if b.shape == (2, 3) and ((b[0] > lo).any() or (b[1] < hi).any()) else "not_tight"
            _v(run, cx, key + " fn=bounds sym=" + sym, "bounds differ from the exact min / max of the vertices", cx.wit(route=route, observed=b.tolist(), expected=[lo.tolist(), hi.tolist()]))
        ex = np.asarray(obj.extents, dtype=np.float64)
        if np.abs(ex - (hi - lo)).max() > 1e-12 * cx.ext:
            _v(run, cx, key + " fn=extents sym=differs", "extents differ from max - min", cx.wit(route=route, observed=ex.tolist()))
        box = obj.bounding_box
        Tm = np.asarray(box.primitive.transform, dtype=np.float64)
        be = np.asarray(box.primitive.extents, dtype=np.float64)
        q = P - Tm[:3, 3]
        if np.abs(Tm[:3, :3] - np.eye(3)).max() > 0:
            _v(run, cx, key + " fn=bounding_box sym=rotated", "axis aligned box has a rotation", cx.wit(route=route))
        slack = 1e-12 * (cx.ext + cx.off)
        if (np.abs(q) > be / 2 + slack).any():
            _v(run, cx, key + " fn=bounding_box sym=not_containing", "a vertex lies outside the axis aligned bounding box", cx.wit(route=route))
        if np.abs(be - (hi - lo)).max() > slack or np.abs(Tm[:3, 3] - (lo + hi) / 2).max() > slack:
            _v(run, cx, key + " fn=bounding_box sym=not_tight", "bounding_box extents / centre differ from the exact ones", cx.wit(route=route, extents=be.tolist()))
    except Exception as e:  # noqa
        _v(run, cx, key + " sym=exception:%s" % type(e).__name__, "axis aligned bounds raised %r" % (e,), cx.wit(route=route))


def judge_obb(run, cx, M, extents, route, Q=None, exact=True):
    """M maps the points into the box frame; extents reported.  exact=False (analytic primitives
    whose box is derived from their parameters, not their facets): containment and rigidity only."""
    d = cx.d
    P = cx.P if Q is None else Q
    key = "obb route=%s %s" % (route, cx.klass())
    M = np.asarray(M, dtype=np.float64)
    extents = np.asarray(extents, dtype=np.float64)
    for sym in rigid_defects(M, d):
        _v(run, cx, key + " sym=transform_" + sym, "the oriented-box transform is not a proper rigid motion", cx.wit(route=route, matrix=M.tolist()))
        if sym == "malformed":
            return
    if extents.shape != (d,) or not np.isfinite(extents).all():
        _v(run, cx, key + " sym=extents_malformed", "extents are not (d,) finite", cx.wit(route=route))
        return
    q = P @ M[:d, :d].T + M[:d, d]
    lo, hi = q.min(axis=0), q.max(axis=0)
    tol = 1e-6 * cx.ext + 1e-10 * cx.off
    run.state("obb_branch", (route, "flat" if extents.min() < 1e-3 * extents.max() else "full"))
    if (np.abs(q) > extents / 2 + tol).any():
        _v(run, cx, key + " sym=not_containing", "a transformed point lies outside the box of the reported extents", cx.wit(route=route, by=float((np.abs(q) - extents / 2).max())))
    if not exact:
        return
    if np.abs(lo + hi).max() / 2 > tol:
        _v(run, cx, key + " sym=not_centred", "the transformed points' bounding box is not centred at the origin", cx.wit(route=route, centre=((lo + hi) / 2).tolist()))
    if np.abs((hi - lo) - extents).max() > tol:
        _v(run, cx, key + " sym=extents_differ", "reported extents differ from the extents of the transformed points", cx.wit(route=route, observed=extents.tolist(), expected=(hi - lo).tolist()))


def check_obb(run, cx, obj, route, exact=True):
    from trimesh import bounds

    run.case(cx.tag("obb:" + route), cx.P, nontrivial=cx.full and len(cx.P) > cx.d + 1)
    try:
        if route.split(":")[0] == "array":
            M, ex = bounds.oriented_bounds(cx.P.copy())
        elif route == "array2d":
            M, ex = bounds.oriented_bounds_2D(cx.P.copy())
        elif route.endswith(".primitive"):
            box = obj.bounding_box_oriented
            M, ex = np.linalg.inv(np.asarray(box.primitive.transform)), np.asarray(box.primitive.extents)
        else:
            M, ex = bounds.oriented_bounds(obj)
    except Exception as e:  # noqa
        if cx.full:
            _v(run, cx, "obb route=%s %s sym=exception:%s" % (route, cx.klass(), type(e).__name__), "oriented bounds raised %r on a full-dimensional input" % (e,), cx.wit(route=route))
        elif "obb" in cx.base_ok:
            # the same flat shape got its box at s=1, t=0: the refusal depends on the placement
            # only, and the quantifier includes scaled / translated input
            _v(run, cx, "obb route=%s %s sym=exception_only_when_moved:%s" % (route, cx.klass(), type(e).__name__),
               "oriented bounds raised %r on a flat input whose box is computed at scale 1 about the origin" % (e,), cx.wit(route=route))
        else:
            run.skip("oriented bounds refused input that does not span the dimension")
        return
    judge_obb(run, cx, M, ex, route, exact=exact)


def check_apply_obb(run, cx, obj, route):
    from trimesh import bounds

    key = "obb route=%s.apply_obb %s" % (route, cx.klass())
    run.case(cx.tag("apply_obb:" + route), cx.P, nontrivial=cx.full)
    try:
        # the extents the library reports for the very object apply_obb is called on (a copy of a
        # primitive is rebuilt from its parameters; in a near tie it may get the other box)
        c = obj.copy()
        _M0, ex0 = bounds.oriented_bounds(c)
        before = np.asarray(c.vertices, dtype=np.float64).copy()
        M = np.asarray(c.apply_obb(), dtype=np.float64)
        after = np.asarray(c.vertices, dtype=np.float64)
    except Exception as e:  # noqa
        if cx.full:
            _v(run, cx, key + " sym=exception:%s" % type(e).__name__, "apply_obb raised %r" % (e,), cx.wit(route=route))
        elif "obb" in cx.base_ok:
            _v(run, cx, key + " sym=exception_only_when_moved:%s" % type(e).__name__, "apply_obb raised %r on a flat input whose box is computed at scale 1 about the origin" % (e,), cx.wit(route=route))
        return
    for sym in rigid_defects(M, 3):
        _v(run, cx, key + " sym=transform_" + sym, "apply_obb returned a non-rigid matrix", cx.wit(route=route))
        return
    tol = 1e-6 * cx.ext + 1e-10 * cx.off
    if after.shape != before.shape or np.abs(after - (before @ M[:3, :3].T + M[:3, 3])).max() > tol:
        _v(run, cx, key + " sym=vertices_not_transformed_by_returned_matrix", "vertices after apply_obb are not matrix @ vertices before", cx.wit(route=route))
        return
    lo, hi = after.min(axis=0), after.max(axis=0)
    if np.abs(lo + hi).max() / 2 > tol:
        _v(run, cx, key + " sym=not_centred", "after apply_obb the bounding box is not centred at the origin", cx.wit(route=route))
    if np.abs((hi - lo) - np.asarray(ex0)).max() > tol:
        _v(run, cx, key + " sym=extents_differ", "after apply_obb the extents differ from the oriented-bounds extents", cx.wit(route=route, observed=(hi - lo).tolist(), expected=np.asarray(ex0).tolist()))


# ------------------------------------------------------------------------------------------
# sphere


def support_class(mb, d):
    """'2' | '3' | '4' when minimality can be judged, else a reason."""
    if mb["support"] is None:
        return "tie"
    k = len(mb["support"])
    if len(mb["boundary"]) != k:
        return "tie"
    if mb["min_coeff"] < 1e-3:
        return "borderline"
    if mb["margin"] < 1e-6:
        return "thin_margin"
    return str(k)


def fit_sphere(P):
    """Algebraic least-squares sphere through P (classification only): centre, radius, max |dist - r|."""
    P = np.asarray(P, dtype=np.float64)
    o = P.mean(axis=0)
    Q = P - o
    A = np.column_stack([2 * Q, np.ones(len(Q))])
    try:
        x = np.linalg.lstsq(A, (Q * Q).sum(axis=1), rcond=None)[0]
    except np.linalg.LinAlgError:
        return o, np.inf, np.inf
    c = x[:-1]
    r2 = x[-1] + c @ c
    if not r2 > 0:
        return o, np.inf, np.inf
    r = float(np.sqrt(r2))
    return c + o, r, float(np.abs(np.linalg.norm(Q - c, axis=1) - r).max())


def check_sphere(run, cx, obj, route, mb=None, minimal=True):
    from trimesh import nsphere

    P, d = cx.P, cx.d
    if mb is None and not minimal and len(P) > 500:
        scls = "not_judged"  # containment only: the oracle's ball is not needed
    else:
        mb = mb or W.min_ball(P, rng=run.rng)
        scls = support_class(mb, d)
    key = "sphere route=%s %s" % (route, cx.klass())
    try:
        if route.split(":")[0] in ("array", "array2d"):
            c, r = nsphere.minimum_nsphere(P.copy())
        else:
            s = obj.bounding_sphere
            c, r = np.asarray(s.primitive.center), float(s.primitive.radius)
        c, r = np.asarray(c, dtype=np.float64), float(r)
    except Exception as e:  # noqa
        if cx.full:
            _v(run, cx, key + " sym=exception:%s" % type(e).__name__, "bounding sphere raised %r on a full-dimensional input" % (e,), cx.wit(route=route))
        elif "sphere" in cx.base_ok:
            _v(run, cx, key + " sym=exception_only_when_moved:%s" % type(e).__name__, "bounding sphere raised %r on a flat input that has one at scale 1 about the origin" % (e,), cx.wit(route=route))
        else:
            run.skip("bounding sphere refused input that does not span the dimension")
        return
    run.case(cx.tag("sphere:%s:support=%s" % (route, scls)), P, nontrivial=cx.full and (scls in "234" or len(P) > d + 1))
    run.state("sphere_support", (cx.klass(), scls))
    if c.shape != (d,) or not np.isfinite(c).all() or not np.isfinite(r):
        _v(run, cx, key + " sym=malformed", "centre / radius not finite or of the wrong shape", cx.wit(route=route, centre=repr(c), radius=repr(r)))
        return
    far = float(np.linalg.norm(P - c, axis=1).max())
    tol = 1e-7 * cx.ext + 1e-11 * cx.off
    if far > r + tol:
        _v(run, cx, key + " sym=not_containing", "a point lies outside the bounding sphere", cx.wit(route=route, outside_by=far - r, radius=r))
    if not minimal:
        return  # history routes: the same sphere code as the direct routes, judged for containment only
    if scls in ("2", "3", "4"):
        run.count("sphere_minimality_judged_support_%s_%s" % (scls, cx.klass()))
        if r > mb["radius"] * (1 + 1e-6) + tol:
            fc, fr, fe = fit_sphere(P)
            if fe < 1e-5 * fr and abs(r - fr) < 1e-5 * fr and mb["radius"] < fr * (1 - 1e-3):
                # the points are (nearly) on a common sphere, cover only a cap of it, and that
                # sphere is what came back: the shortcut for co-spherical input, not the search
                run.violation(key + " class=near_cospherical_cap sym=fitted_sphere_returned_not_minimal",
                              "points near a common sphere that cover a cap of it: the common sphere is returned, the minimal enclosing sphere is smaller",
                              cx.wit(route=route, radius=r, minimal_radius=mb["radius"], fitted_radius=fr, excess_relative=r / mb["radius"] - 1, support=mb["support"]))
                return
            run.violation(key + " sym=not_minimal support=%s" % scls,
                          "the bounding sphere is larger than the minimal enclosing sphere",
                          cx.wit(route=route, radius=r, minimal_radius=mb["radius"], excess_relative=r / mb["radius"] - 1, support=mb["support"]))
        else:
            run.count("sphere_minimal_support_%s_%s" % (scls, cx.klass()))
    else:
        run.skip("sphere minimality not judged: %s" % scls)


# ------------------------------------------------------------------------------------------
# cylinder / primitive


def judge_cylinder(run, cx, Tm, radius, height, route):
    key = "cylinder route=%s" % route
    Tm = np.asarray(Tm, dtype=np.float64)
    if Tm.shape != (4, 4) or not np.isfinite(Tm).all() or not np.isfinite([radius, height]).all():
        _v(run, cx, key + " sym=malformed", "cylinder parameters malformed", cx.wit(route=route))
        return
    for sym in rigid_defects(Tm, 3):
        _v(run, cx, key + " sym=transform_" + sym, "cylinder transform is not rigid", cx.wit(route=route, matrix=Tm.tolist()))
        return
    Rm, t = Tm[:3, :3], Tm[:3, 3]
    q = (cx.P - t) @ Rm  # inverse of a rigid transform
    # minimum_cylinder measures radius / height through transformations.transform_points, which
    # treats a matrix within 1e-8 of the identity as the identity (transformations.py:2181): the
    # optimiser's residual rotation (~1e-9 rad) is applied in the returned transform but not in
    # the measurement.  10x that documented shortcut times the lever arm |p|.
    tol = 1e-6 * cx.ext + 1e-7 * cx.off
    rr = np.linalg.norm(q[:, :2], axis=1).max()
    hh = np.abs(q[:, 2]).max()
    if rr > radius + tol:
        _v(run, cx, key + " sym=radius_not_containing", "a vertex is farther from the axis than the radius", cx.wit(route=route, by=float(rr - radius)))
    if hh > height / 2 + tol:
        _v(run, cx, key + " sym=height_not_containing", "a vertex is beyond the end caps", cx.wit(route=route, by=float(hh - height / 2)))


def check_cylinder(run, cx, obj, route):
    from trimesh import bounds

    run.case(cx.tag("cylinder:" + route), cx.P, nontrivial=cx.full and len(cx.P) > 4)
    try:
        if route.split(":")[0] == "array":
            k = bounds.minimum_cylinder(cx.P.copy())
            Tm, r, h = k["transform"], float(k["radius"]), float(k["height"])
        else:
            c = obj.bounding_cylinder
            Tm, r, h = c.primitive.transform, float(c.primitive.radius), float(c.primitive.height)
    except Exception as e:  # noqa
        if cx.full:
            _v(run, cx, "cylinder route=%s sym=exception:%s" % (route, type(e).__name__), "bounding cylinder raised %r on a full-dimensional input" % (e,), cx.wit(route=route))
        elif "cylinder" in cx.base_ok:
            _v(run, cx, "cylinder route=%s sym=exception_only_when_moved:%s" % (route, type(e).__name__), "bounding cylinder raised %r on a flat input that has one at scale 1 about the origin" % (e,), cx.wit(route=route))
        else:
            run.skip("bounding cylinder refused input that does not span the dimension")
        return
    judge_cylinder(run, cx, Tm, r, h, route)


def check_primitive(run, cx, obj, route, exact=True):
    run.case(cx.tag("primitive:" + route), cx.P, nontrivial=cx.full and len(cx.P) > 4)
    try:
        p = obj.bounding_primitive
        name = type(p).__name__
    except Exception as e:  # noqa
        if cx.full:
            _v(run, cx, "primitive route=%s sym=exception:%s" % (route.split(":")[0], type(e).__name__), "bounding_primitive raised %r" % (e,), cx.wit(route=route))
        return
    run.state("bounding_primitive_kind", name)
    r2 = route + ".bounding_primitive"
    if name == "Box":
        judge_obb(run, cx, np.linalg.inv(np.asarray(p.primitive.transform)), np.asarray(p.primitive.extents), r2, exact=exact)
    elif name == "Sphere":
        c, r = np.asarray(p.primitive.center, dtype=np.float64), float(p.primitive.radius)
        far = float(np.linalg.norm(cx.P - c, axis=1).max())
        if far > r + cx.tol:
            _v(run, cx, "sphere route=%s %s sym=not_containing" % (r2, cx.klass()), "a point lies outside the bounding primitive (sphere)", cx.wit(route=r2))
    elif name == "Cylinder":
        judge_cylinder(run, cx, p.primitive.transform, float(p.primitive.radius), float(p.primitive.height), r2)
    else:
        _v(run, cx, "primitive route=%s sym=unknown_kind" % route, "bounding_primitive is not a Box, Sphere or Cylinder", cx.wit(route=route, kind=name))


# ------------------------------------------------------------------------------------------
# is_convex on known meshes


def check_is_convex_known(run, rng):
    for tag, V, F in G.closed_meshes(rng, count=6, allow_multibody=False):
        V = np.asarray(V, dtype=np.float64)
        s = float(rng.choice([1e-3, 1.0, 1e3]))
        Vf = V @ rand_rot(rng).T * s + rng.normal(size=3) * s
        m = G.to_trimesh(Vf, F)
        # oracle: closed single body is convex iff every vertex is on the inner side of every face
        Nn, L = tri_normals(Vf, np.asarray(F))
        D = np.einsum("pfk,fk->pf", Vf[:, None, :] - Vf[np.asarray(F)[:, 0]][None], Nn)
        ext = float(np.linalg.norm(np.ptp(Vf, axis=0)))
        worst = float(D.max())
        if worst > 1e-3 * ext:
            want = False
        elif worst < 1e-9 * ext:
            want = True
        else:
            run.skip("is_convex: mesh within the tolerance band")
            continue
        run.case("is_convex:%s:%s" % (tag, "convex" if want else "nonconvex"), Vf, np.asarray(F))
        run.state("is_convex_truth", want)
        try:
            got = bool(m.is_convex)
        except Exception as e:  # noqa
            run.violation("hull fn=is_convex sym=exception:%s" % type(e).__name__, "is_convex raised %r" % (e,), {"V": Vf.tolist(), "F": np.asarray(F).tolist(), "kind": "is_convex"})
            continue
        if got != want:
            run.violation("hull fn=is_convex sym=%s" % ("convex_reported_non_convex" if want else "non_convex_reported_convex"),
                          "is_convex disagrees with the all-vertices half-space test", {"V": Vf.tolist(), "F": np.asarray(F).tolist(), "kind": "is_convex", "expected": want})


# ------------------------------------------------------------------------------------------


def oracle_selfcheck(run):
    rng = np.random.default_rng(7)
    bad = 0
    for k in range(40):
        d = 2 + k % 2
        P = rng.random((int(rng.integers(d + 1, 11)), d)) if k % 4 else rng.integers(-2, 3, size=(9, d)).astype(np.float64)
        if len(np.unique(P, axis=0)) < 2:
            continue
        mb = W.min_ball(P, rng=rng)
        _c, r, _s = W.brute_min_ball(P)
        run.count("welzl_selfcheck")
        if abs(mb["radius"] - r) > 1e-9 * r:
            bad += 1
    if bad:
        run.inconclusive("Welzl oracle disagrees with brute force on %d small clouds" % bad)


def hull_options():
    """
    Option values `convex_hull(points, qhull_options=...)` offers (strings and the QhullOptions
    helper) that ask for the same thing - the hull of the input - by another numerical route.
    """
    from trimesh.convex import QhullOptions

    return [
        ("QJ", "QJ"),
        ("QJ", QhullOptions(QJ=True, Qt=True)),
        ("QJ", QhullOptions(QJ=True, Pp=True, QbB=True)),
        ("None", None),
        ("Qt", QhullOptions(Qt=True)),
        ("Qs", QhullOptions(QbB=True, Pp=True, Qt=True, Qs=True)),
        ("Qx", QhullOptions(Qt=True, Qx=True)),
        ("Qc", QhullOptions(QbB=True, Qt=True, Qc=True)),
        ("Qv", "Qt Qv"),
        ("QR0", QhullOptions(Qt=True, QR0=True)),
    ]


def flat_mesh(P):
    """A Trimesh over points that do not span 3-D: a fan (one triangle for three points)."""
    import trimesh

    n = len(P)
    F = np.array([[0, i, i + 1] for i in range(1, n - 1)], dtype=np.int64)
    return trimesh.Trimesh(vertices=P.copy(), faces=F, process=False)


def run_cloud3(run, P, cls, xf, heavy, options=0, base_ok=()):
    import trimesh

    cx = Ctx(P, cls, xf, 3)
    cx.base_ok = tuple(base_ok)
    run.count("clouds_3d")
    run.state("cloud_class", (cls, xf, 3, cx.full))
    objs = [("array", None)]
    try:
        objs.append(("PointCloud", trimesh.PointCloud(P.copy())))
    except Exception as e:  # noqa
        _v(run, cx, "construct PointCloud sym=exception:%s" % type(e).__name__, repr(e), cx.wit())
    # --- hull
    hull = None
    for route in ("array", "PointCloud"):
        try:
            if route == "array":
                h = trimesh.convex.convex_hull(P.copy())
            else:
                h = objs[1][1].convex_hull
        except Exception as e:  # noqa
            if cx.full:
                _v(run, cx, "hull route=%s 3d sym=exception:%s" % (route, type(e).__name__), "convex_hull raised %r on a full-dimensional cloud" % (e,), cx.wit(route=route))
            else:
                run.skip("convex_hull refused input that does not span 3-D")
            continue
        if not cx.full:
            run.skip("hull of a degenerate cloud returned: not judged")
            continue
        check_hull(run, cx, h, route)
        hull = hull or h
    # --- hull by the other option values the function offers
    if cx.full and options:
        opts = hull_options()
        if options < len(opts):
            # joggle first, then a random choice of the others
            opts = opts[:1] + [opts[int(i)] for i in run.rng.choice(np.arange(1, len(opts)), size=options - 1, replace=False)]
        for oname, oval in opts:
            route = "array:option=" + oname
            run.state("hull_option", oname)
            try:
                h = trimesh.convex.convex_hull(P.copy(), qhull_options=oval)
            except Exception as e:  # noqa
                _v(run, cx, "hull route=%s 3d sym=exception:%s" % (route, type(e).__name__), "convex_hull(qhull_options=%r) raised %r on a full-dimensional cloud" % (oval, e), cx.wit(route=route))
                continue
            check_hull(run, cx, h, route)
    # --- hull of a mesh whose vertices are the cloud as it is (process=False: nothing merged)
    if cx.full and cx.simplices is not None and (cx.neardup or options):
        try:
            raw = trimesh.Trimesh(vertices=P.copy(), faces=cx.simplices.copy(), process=False)
            check_hull(run, cx, raw.convex_hull, "Trimesh:raw")
        except Exception as e:  # noqa
            _v(run, cx, "hull route=Trimesh:raw 3d sym=exception:%s" % type(e).__name__, "mesh.convex_hull raised %r" % (e,), cx.wit(route="Trimesh:raw"))
    check_hull_points(run, cx)
    if hull is not None:
        # the hull as a Trimesh whose vertices are the cloud: every query again on the mesh
        Vh = np.asarray(hull.vertices, dtype=np.float64)
        hx = Ctx(Vh, cls, xf, 3)
        mesh = trimesh.Trimesh(vertices=Vh.copy(), faces=np.asarray(hull.faces).copy(), process=False)
        try:
            check_hull(run, hx, mesh.convex_hull, "Trimesh")
        except Exception as e:  # noqa
            _v(run, cx, "hull route=Trimesh 3d sym=exception:%s" % type(e).__name__, "mesh.convex_hull raised %r" % (e,), hx.wit())
    else:
        mesh, hx = None, None
    mb = W.min_ball(P, rng=run.rng) if len(P) >= 2 else None
    for route, obj in objs:
        if route != "array":
            check_aabb(run, cx, obj, route)
            check_obb(run, cx, obj, route + ".primitive")
            check_apply_obb(run, cx, obj, route)
        check_obb(run, cx, obj, route)
        if mb is not None:
            check_sphere(run, cx, obj, route, mb)
        if heavy:
            check_cylinder(run, cx, obj, route)
            if route != "array":
                check_primitive(run, cx, obj, route)
    if not cx.full and len(P) >= 3:
        # flat input as a mesh: one triangle, a planar fan
        try:
            fm = flat_mesh(P)
        except Exception as e:  # noqa
            fm = None
            run.skip("flat mesh construction raised %s" % type(e).__name__)
        if fm is not None:
            check_aabb(run, cx, fm, "Trimesh")
            check_obb(run, cx, fm, "Trimesh")
            check_obb(run, cx, fm, "Trimesh.primitive")
            check_apply_obb(run, cx, fm, "Trimesh")
    if mesh is not None:
        check_aabb(run, hx, mesh, "Trimesh")
        check_obb(run, hx, mesh, "Trimesh")
        check_obb(run, hx, mesh, "Trimesh.primitive")
        check_apply_obb(run, hx, mesh, "Trimesh")
        check_sphere(run, hx, mesh, "Trimesh")
        if heavy:
            check_cylinder(run, hx, mesh, "Trimesh")
            check_primitive(run, hx, mesh, "Trimesh")


def run_cloud2(run, P, cls, xf):
    cx = Ctx(P, cls, xf, 2)
    run.count("clouds_2d")
    run.state("cloud_class", (cls, xf, 2, cx.full))
    check_hull_points(run, cx)
    check_obb(run, cx, None, "array2d")
    if len(P) >= 2:
        check_sphere(run, cx, None, "array2d")


def run_mesh(run, mesh, cls, xf, heavy):
    """A generator / creation mesh (not convex in general)."""
    P = np.asarray(mesh.vertices, dtype=np.float64)
    cx = Ctx(P, cls, xf, 3)
    run.count("meshes")
    try:
        check_hull(run, cx, mesh.convex_hull, "Trimesh")
    except Exception as e:  # noqa
        _v(run, cx, "hull route=Trimesh 3d sym=exception:%s" % type(e).__name__, "mesh.convex_hull raised %r" % (e,), cx.wit())
    check_aabb(run, cx, mesh, "Trimesh")
    check_obb(run, cx, mesh, "Trimesh")
    check_obb(run, cx, mesh, "Trimesh.primitive")
    check_apply_obb(run, cx, mesh, "Trimesh")
    check_sphere(run, cx, mesh, "Trimesh")
    if heavy:
        check_cylinder(run, cx, mesh, "Trimesh")
        check_primitive(run, cx, mesh, "Trimesh")


def run_mesh_history(run, mesh, cls, xf):
    """
    Bounding volumes asked again after the mesh (or a cache-sharing copy of it) was moved: what
    was computed for the first placement must neither stay behind nor travel with the wrong object.
    """
    import copy as _copy

    import trimesh

    P0 = np.asarray(mesh.vertices, dtype=np.float64).copy()
    F0 = np.asarray(mesh.faces).copy()
    if len(P0) < 4:
        return
    m = trimesh.Trimesh(P0.copy(), F0.copy(), process=False)
    cx0 = Ctx(P0, cls, xf, 3)
    run.count("mesh_histories")
    try:
        # first placement: everything computed (and cached)
        _ = m.convex_hull, m.bounding_box_oriented, m.bounding_sphere, m.bounds
        # (1) a copy that keeps the cache is moved: the original must still be bounded where it is
        c = _copy.copy(m)
        R = rand_rot(run.rng)
        # the move is a rotation, a mirror image or either with a uniform scale: whatever travels
        # with the mesh (a hull kept across the move) has to come out wound for the new placement
        # (from seeded change C16-r3-2, which the rotation-only history caught by chance)
        kind = int(run.rng.integers(4))
        if kind in (1, 3):
            R = R @ np.diag([-1.0, 1.0, 1.0])
        if kind in (2, 3):
            R = R * 2.5
        run.count("mesh_history_move:" + ("rotation", "mirror", "similarity", "mirrored_similarity")[kind])
        M = np.eye(4)
        M[:3, :3] = R
        M[:3, 3] = np.array([7.0, -11.0, 5.0]) * max(1.0, float(np.abs(P0).max()))
        c.apply_transform(M)
        check_hull(run, cx0, m.convex_hull, "Trimesh:after_copy_moved")
        check_aabb(run, cx0, m, "Trimesh:after_copy_moved")
        check_obb(run, cx0, m, "Trimesh:after_copy_moved")
        check_sphere(run, cx0, m, "Trimesh:after_copy_moved", minimal=False)
        P1 = P0 @ R.T + M[:3, 3]
        cx1 = Ctx(P1, cls, xf, 3)
        check_hull(run, cx1, c.convex_hull, "Trimesh:moved_copy")
        check_aabb(run, cx1, c, "Trimesh:moved_copy")
        check_obb(run, cx1, c, "Trimesh:moved_copy")
        # (2) the mesh itself is moved after its volumes were computed
        m.apply_transform(M)
        check_hull(run, cx1, m.convex_hull, "Trimesh:after_move")
        check_aabb(run, cx1, m, "Trimesh:after_move")
        check_obb(run, cx1, m, "Trimesh:after_move")
        check_sphere(run, cx1, m, "Trimesh:after_move", minimal=False)
        # (3) an in-place edit of one vertex (pulled far out): every volume must grow to hold it
        P2 = P1.copy()
        k = int(run.rng.integers(len(P2)))
        P2[k] = P2[k] + (P2[k] - P2.mean(axis=0)) * 3.0 + 1.0
        m.vertices[k] = P2[k]
        if k in set(np.asarray(m.faces).reshape(-1).tolist()):
            cx2 = Ctx(P2, cls, xf, 3)
            check_hull(run, cx2, m.convex_hull, "Trimesh:after_vertex_edit")
            check_aabb(run, cx2, m, "Trimesh:after_vertex_edit")
            check_obb(run, cx2, m, "Trimesh:after_vertex_edit")
    except Exception as e:  # noqa
        _v(run, cx0, "history route=Trimesh sym=exception:%s" % type(e).__name__, "a bounding query raised in a move / copy history: %r" % (e,), cx0.wit())


# ------------------------------------------------------------------------------------------
# round 5: something else was read from the mesh before the hull / the volumes are asked for


# cached properties a caller may have looked at first (each may leave a value in the cache of the
# mesh that a later hull / bounding query could be tempted to reuse)
PRIOR_READS = ("is_convex", "is_watertight", "is_winding_consistent", "is_volume", "volume", "area", "face_normals", "vertex_normals",
               "symmetry", "facets", "body_count", "euler_number", "center_mass", "principal_inertia_components",
               "face_adjacency_projections", "referenced_vertices", "scale", "extents", "centroid", "bounds", "triangles_center")
PRIOR_KINDS = ("dented", "unreferenced", "plain")


def _convex_base(rng):
    """A convex polyhedron with flat faces (float vertices, outward faces), randomly placed."""
    r = int(rng.integers(4))
    if r == 0:
        V, F = G.box_int(tuple(int(x) for x in rng.integers(1, 6, size=3)))
    elif r == 1:
        V, F = G.octahedron()
    elif r == 2:
        V, F = G.tetra(rng)
    else:
        V, F = G.hull_int(rng, int(rng.integers(6, 12)))
    s = float(rng.choice([1e-3, 1.0, 1.0, 1e3]))
    V = (np.asarray(V, dtype=np.float64) @ rand_rot(rng).T + rng.normal(size=3) * 3.0) * s
    return V, np.asarray(F, dtype=np.int64)


def prior_mesh(rng, kind):
    """
    (V, F) of a mesh for which "the faces look convex" and "the mesh is its own hull" differ, or
    an ordinary closed mesh:
      dented        a finely tessellated convex polyhedron, one or two vertices (not corners) 1e-6 ..
                    3e-6 of the size below their flat face / edge: far above rounding and above the
                    1e-7 the hull is judged with, below the 1e-5 `is_convex` forgives
      unreferenced  a convex polyhedron (or a generator mesh) that carries 1 - 3 vertices no face
                    uses: outside, far outside, inside
      plain         a closed generator mesh, convex or not
    """
    import trimesh

    if kind == "dented":
        V0, F0 = _convex_base(rng)
        m = trimesh.Trimesh(V0, F0, process=False)
        for _ in range(int(rng.integers(1, 3))):
            m = m.subdivide()
        V, F = np.asarray(m.vertices, dtype=np.float64).copy(), np.asarray(m.faces, dtype=np.int64).copy()
        ext = float(np.linalg.norm(np.ptp(V, axis=0)))
        c = V.mean(axis=0)
        for k in rng.choice(np.arange(len(V0), len(V)), size=int(rng.integers(1, 3)), replace=False):
            u = c - V[k]
            V[k] = V[k] + u / np.linalg.norm(u) * ext * 10 ** float(rng.uniform(-6.0, -5.5))
        return V, F
    if kind == "unreferenced":
        if rng.random() < 0.7:
            V, F = _convex_base(rng)
            if rng.random() < 0.5:
                m = trimesh.Trimesh(V, F, process=False).subdivide()
                V, F = np.asarray(m.vertices, dtype=np.float64).copy(), np.asarray(m.faces, dtype=np.int64).copy()
        else:
            for _tag, V, F in G.closed_meshes(rng, count=1, allow_multibody=False):
                pass  # the last one: the random one after the four fixed shapes
            V = np.asarray(V, dtype=np.float64) @ rand_rot(rng).T
            F = np.asarray(F, dtype=np.int64)
        ext = float(np.linalg.norm(np.ptp(V, axis=0)))
        c = V.mean(axis=0)
        extra = []
        for _ in range(int(rng.integers(1, 4))):
            u = rng.normal(size=3)
            u /= np.linalg.norm(u)
            extra.append(c + u * ext * float(rng.choice([0.05, 0.8, 1.5, 4.0])))
        if not any(np.linalg.norm(e - c) > 0.7 * ext for e in extra):
            extra[0] = c + (extra[0] - c) / np.linalg.norm(extra[0] - c) * ext * 1.5
        return np.vstack([V, np.array(extra)]), F
    for _tag, V, F in G.closed_meshes(rng, count=1, allow_multibody=False):
        pass
    s = float(rng.choice([1e-3, 1.0, 1e3]))
    return (np.asarray(V, dtype=np.float64) @ rand_rot(rng).T + rng.normal(size=3)) * s, np.asarray(F, dtype=np.int64)


def run_prior_read(run, V, F, kind, read, edit=None):
    """
    History: build the mesh, READ ONE OTHER PROPERTY, then ask for the hull and every bounding volume.
    What the mesh was asked before must not change what bounds it; the answers are judged by the
    same independent checks as on a fresh mesh, against ALL vertices of the mesh.
    edit = [k, depth]: after the read, vertex k is pushed `depth` of the size towards the centroid in
    place (the convex mesh becomes clearly non-convex) before the queries.
    """
    import trimesh

    V = np.ascontiguousarray(V, dtype=np.float64)
    F = np.asarray(F, dtype=np.int64)
    m = trimesh.Trimesh(V.copy(), F.copy(), process=False)
    try:
        val = getattr(m, read)
    except Exception as e:  # noqa
        run.skip("prior read %s raised %s" % (read, type(e).__name__))
        return
    run.count("prior_read_histories")
    run.state("prior_read", (kind, read, str(val) if isinstance(val, (bool, np.bool_, str, type(None))) else "-"))
    route = "Trimesh:%s:after_read=%s" % (kind, read)
    if edit is not None:
        k, depth = int(edit[0]), float(edit[1])
        V = V.copy()
        V[k] = V[k] + (V.mean(axis=0) - V[k]) * depth
        m.vertices[k] = V[k]
        route += ":then_vertex_pushed_in"
    cx = Ctx(V, "prior:" + kind, "read=" + read, 3)
    cx.extra = {"prior": {"F": F.tolist(), "kind": kind, "read": read, "edit": edit}}
    try:
        h = m.convex_hull
    except Exception as e:  # noqa
        _v(run, cx, "hull route=%s 3d sym=exception:%s" % (route, type(e).__name__), "mesh.convex_hull raised %r" % (e,), cx.wit(route=route))
        h = None
    if h is not None:
        check_hull(run, cx, h, route)
    check_obb(run, cx, m, route)
    check_obb(run, cx, m, route + ".primitive")
    check_sphere(run, cx, m, route, minimal=False)
    check_cylinder(run, cx, m, route)
    check_primitive(run, cx, m, route)


def prior_read_case(run, rng, kind, read):
    V, F = prior_mesh(rng, kind)
    run_prior_read(run, V, F, kind, read)
    if kind == "dented" and read == "is_convex":
        # the same convex-looking mesh, edited after the read: a vertex goes 0.3 of the way to the centroid
        k = int(rng.integers(len(V)))
        if k in set(F.reshape(-1).tolist()):
            run_prior_read(run, V, F, kind, read, edit=[k, 0.3])


# ------------------------------------------------------------------------------------------
# round 5: many points / many hull vertices (size thresholds inside the bounding searches)


def large_spec(rng, kind=None, nmax=3000.0):
    """
    kind  round       n points ON an ellipsoid with three different axes: every point is a hull vertex
          round_fill  the same plus as many points inside
          ellipsoid   an icosphere (642 / 2562 vertices) scaled to three different axes: a mesh
          bulk        n gaussian points (3000 .. 8000): many points, few hull vertices
    all rotated, and translated by a few sizes.  No radial symmetry: the general searches run.
    """
    kind = kind or ("round", "round_fill", "ellipsoid", "bulk")[int(rng.integers(4))]
    ax = np.array([1.0, float(rng.uniform(1.4, 2.2)), float(rng.uniform(2.8, 4.0))])[rng.permutation(3)] * float(rng.choice([0.1, 1.0, 1.0, 1e2]))
    n = int(10 ** float(rng.uniform(np.log10(530.0), np.log10(nmax))))
    return {"kind": kind, "axes": ax.tolist(), "n": n, "sub": 3 if nmax < 2562 else int(rng.integers(3, 5)), "rot": rand_rot(rng).tolist(),
            "t": (rng.normal(size=3) * ax.max() * 2).tolist(), "seed": int(rng.integers(2 ** 31))}


def build_large(spec):
    import trimesh

    r = np.random.default_rng(spec["seed"])
    ax, Rm, t = np.array(spec["axes"]), np.array(spec["rot"]), np.array(spec["t"])
    F = None
    if spec["kind"] == "ellipsoid":
        ico = trimesh.creation.icosphere(subdivisions=spec["sub"])
        P, F = np.asarray(ico.vertices, dtype=np.float64) * ax, np.asarray(ico.faces, dtype=np.int64)
    elif spec["kind"] == "bulk":
        P = r.normal(size=(int(spec["n"] * 2.7), 3)) * ax
    else:
        U = r.normal(size=(spec["n"], 3))
        P = U / np.linalg.norm(U, axis=1, keepdims=True) * ax
        if spec["kind"] == "round_fill":
            P = np.vstack([P, P[r.permutation(len(P))] * r.random((len(P), 1)) * 0.9])
            P = P[r.permutation(len(P))]
    return np.ascontiguousarray(P @ Rm.T + t), F


def run_large(run, spec):
    """Containment (and the box laws) for input with > 512 points / hull vertices, every route."""
    import trimesh

    P, F = build_large(spec)
    cx = Ctx(P, "large:" + spec["kind"], "n>512", 3)
    # the witness is the recipe (the points follow from it)
    cx.wit = lambda **kw: dict({"large": spec, "cls": cx.cls, "n_points": len(P)}, **kw)
    nh = len(np.unique(cx.simplices)) if cx.simplices is not None else 0
    run.count("large_inputs")
    run.state("large_hull_vertices", (spec["kind"], "<=512" if nh <= 512 else "<=1024" if nh <= 1024 else "<=2048" if nh <= 2048 else ">2048"))
    sfx = ":large"
    if len(P) <= 1000:
        try:
            check_hull(run, cx, trimesh.convex.convex_hull(P.copy()), "array" + sfx)
        except Exception as e:  # noqa
            _v(run, cx, "hull route=array%s 3d sym=exception:%s" % (sfx, type(e).__name__), "convex_hull raised %r" % (e,), cx.wit())
    else:
        check_hull_points(run, cx)
    check_obb(run, cx, None, "array" + sfx)
    check_sphere(run, cx, None, "array" + sfx, minimal=False)
    check_cylinder(run, cx, None, "array" + sfx)
    objs = [("PointCloud" + sfx, trimesh.PointCloud(P.copy()))]
    if F is not None:
        objs.append(("Trimesh" + sfx, trimesh.Trimesh(P.copy(), F.copy(), process=False)))
    elif cx.simplices is not None and spec["kind"] != "bulk":
        objs.append(("Trimesh:raw" + sfx, trimesh.Trimesh(P.copy(), cx.simplices.copy(), process=False)))
    for route, obj in objs:
        run.state("large_symmetry", (route, str(getattr(obj, "symmetry", None))))
        check_aabb(run, cx, obj, route)
        check_obb(run, cx, obj, route)
        check_obb(run, cx, obj, route + ".primitive")
        check_sphere(run, cx, obj, route, minimal=False)
        check_cylinder(run, cx, obj, route)
        check_primitive(run, cx, obj, route)


# ------------------------------------------------------------------------------------------
# primitives: meshes whose bounding volumes may come from their parameters, not their facets


PRIMITIVE_KINDS = ("Box", "Cylinder", "Capsule", "Sphere", "Extrusion")
PLACEMENTS = ("rigid", "mirrored_matrix", "mirrored_scale", "scaled")


def primitive_spec(rng, kind=None, placement=None):
    """One random primitive as a JSON-able spec: kind, parameters, placement history."""
    kind = kind or PRIMITIVE_KINDS[int(rng.integers(len(PRIMITIVE_KINDS)))]
    if kind == "Box":
        params = {"extents": rng.uniform(0.5, 3.0, size=3).tolist()}
    elif kind == "Cylinder":
        params = {"radius": float(rng.uniform(0.3, 1.5)), "height": float(rng.uniform(0.5, 4.0)), "sections": int(rng.integers(6, 14))}
    elif kind == "Capsule":
        params = {"radius": float(rng.uniform(0.3, 1.0)), "height": float(rng.uniform(0.5, 3.0)), "sections": int(rng.integers(5, 8))}
    elif kind == "Sphere":
        params = {"radius": float(rng.uniform(0.3, 2.0)), "subdivisions": int(rng.integers(0, 2))}
    else:
        # an L, a triangle or a convex polygon, counter-clockwise
        shape = int(rng.integers(3))
        if shape == 0:
            a, b, c = rng.uniform(0.5, 2.0, size=3)
            poly = [[0, 0], [a + b, 0], [a + b, c], [a, c], [a, c + b], [0, c + b]]
        elif shape == 1:
            poly = [[0, 0], [float(rng.uniform(1, 3)), float(rng.uniform(-0.5, 0.5))], [float(rng.uniform(0, 2)), float(rng.uniform(1, 3))]]
        else:
            ang = np.sort(rng.uniform(0, 2 * np.pi, size=int(rng.integers(4, 9))))
            poly = (np.column_stack([np.cos(ang), np.sin(ang)]) * rng.uniform(0.5, 2.0, size=2)).tolist()
        params = {"polygon": np.asarray(poly, dtype=np.float64).tolist(), "height": float(rng.uniform(0.5, 3.0))}
    # placement history
    M = np.eye(4)
    M[:3, :3] = rand_rot(rng)
    M[:3, 3] = rng.normal(size=3) * float(rng.choice([1.0, 10.0, 1e5]))
    hist = [["apply_transform", M.tolist()]]
    placement = placement or PLACEMENTS[int(rng.integers(len(PLACEMENTS)))]
    if placement == "mirrored_matrix":
        u = rng.normal(size=3)
        u /= np.linalg.norm(u)
        H = np.eye(4)
        H[:3, :3] -= 2 * np.outer(u, u)  # mirror in a plane through the origin
        hist.insert(int(rng.integers(2)), ["apply_transform", H.tolist()])
    elif placement == "mirrored_scale":
        v = [1.0, 1.0, 1.0]
        v[int(rng.integers(3))] = -1.0
        hist.insert(int(rng.integers(2)), ["apply_scale", v])
    elif placement == "scaled":
        if kind == "Extrusion":
            placement = "rigid"  # apply_transform documents that an Extrusion is not re-scaled
        else:
            hist.append(["apply_scale", float(rng.choice([1e-2, 0.5, 3.0, 1e3]))])
    return {"kind": kind, "params": params, "history": hist, "placement": placement}


def far_round_spec(rng):
    """
    A capsule (two hemispheres of ~1000 co-spherical vertices each) placed 3e3 .. 2e5 from the
    origin: the translation rounds the vertices off their spheres by ~1e-12 of the radius.
    """
    M = np.eye(4)
    M[:3, :3] = rand_rot(rng)
    u = rng.normal(size=3)
    M[:3, 3] = u / np.linalg.norm(u) * 10 ** float(rng.uniform(3.5, 5.3))
    return {"kind": "Capsule", "params": {"radius": float(rng.uniform(0.3, 1.0)), "height": float(rng.uniform(0.5, 3.0))},
            "history": [["apply_transform", M.tolist()]], "placement": "rigid", "queries": "sphere"}


def build_primitive(spec):
    import trimesh

    kind, pr = spec["kind"], dict(spec["params"])
    if kind == "Extrusion":
        from shapely.geometry import Polygon

        pr["polygon"] = Polygon(pr["polygon"])
    prim = getattr(trimesh.primitives, kind)(**pr)
    for op, arg in spec["history"]:
        getattr(prim, op)(np.asarray(arg, dtype=np.float64) if op == "apply_transform" else arg)
    return prim


def run_primitive(run, spec):
    kind = spec["kind"]
    try:
        prim = build_primitive(spec)
        P = np.asarray(prim.vertices, dtype=np.float64).copy()
    except Exception as e:  # noqa
        run.violation("construct primitive=%s placement=%s sym=exception:%s" % (kind, spec["placement"], type(e).__name__),
                      "building / placing the primitive raised %r" % (e,), {"prim": spec})
        return
    # the placement is part of the route of the oriented box (the one query whose answer is a
    # frame); the other queries are keyed by the kind of primitive alone
    plain = kind
    route = kind + ":mirrored" if spec["placement"].startswith("mirrored") else kind
    cx = Ctx(P, "primitive:" + kind, spec["placement"], 3)
    cx.extra = {"prim": spec}
    run.count("primitives")
    run.state("primitive_placement", (kind, spec["placement"]))
    if spec.get("queries") == "sphere":
        # round meshes far from the origin: the bounding sphere alone (see far_round_spec)
        check_sphere(run, cx, prim, plain, minimal=False)
        return
    # hull of the primitive (the capsule's ~2000 vertices make the python edge loops slow: the
    # hull of meshes of that size is judged by the Trimesh routes)
    try:
        if len(P) <= 500:
            check_hull(run, cx, prim.convex_hull, plain)
    except Exception as e:  # noqa
        _v(run, cx, "hull route=%s 3d sym=exception:%s" % (plain, type(e).__name__), "primitive.convex_hull raised %r" % (e,), cx.wit(route=plain))
    # axis aligned box: containment (a Sphere reports the box of the exact sphere)
    run.case(cx.tag("aabb:" + plain), P)
    try:
        b = np.asarray(prim.bounds, dtype=np.float64)
        slack = 1e-9 * cx.ext + 1e-12 * cx.off
        if b.shape != (2, 3) or (P < b[0] - slack).any() or (P > b[1] + slack).any():
            _v(run, cx, "aabb route=%s fn=bounds sym=not_containing" % plain, "a vertex of the primitive lies outside its bounds", cx.wit(route=plain, observed=b.tolist()))
        box = prim.bounding_box
        judge_obb(run, cx, np.linalg.inv(np.asarray(box.primitive.transform)), np.asarray(box.primitive.extents), plain + ".bounding_box", exact=False)
        if np.abs(np.asarray(box.primitive.transform)[:3, :3] - np.eye(3)).max() > 0:
            _v(run, cx, "aabb route=%s fn=bounding_box sym=rotated" % plain, "axis aligned box has a rotation", cx.wit(route=plain))
    except Exception as e:  # noqa
        _v(run, cx, "aabb route=%s sym=exception:%s" % (plain, type(e).__name__), "axis aligned bounds raised %r" % (e,), cx.wit(route=plain))
    # oriented box: the primitive's own property, the generic function, apply_obb
    exact = kind != "Sphere"
    check_obb(run, cx, prim, route + ".primitive", exact=exact)
    check_obb(run, cx, prim, route)
    if exact:
        check_apply_obb(run, cx, prim, route)
    check_sphere(run, cx, prim, plain, minimal=False)
    check_cylinder(run, cx, prim, plain)
    check_primitive(run, cx, prim, route, exact=exact)


def xform(P, s, t):
    return P * s + t * np.array([1.0, -1.0, 0.5][: P.shape[1]])


def degenerate_clouds(rng):
    yield "planar", np.column_stack([rng.random((12, 2)), np.zeros(12)])
    yield "planar_rot", np.column_stack([rng.random((12, 2)), np.zeros(12)]) @ rand_rot(rng).T
    yield "collinear", np.outer(np.linspace(0, 1, 7), [1.0, 2.0, 3.0])
    yield "three_points", rng.random((3, 3))
    yield "three_points", rng.normal(size=(3, 3)) * 2.0
    yield "four_planar", np.column_stack([rng.random((4, 2)), np.zeros(4)]) @ rand_rot(rng).T
    yield "two_points", rng.random((2, 3))
    yield "duplicates", np.tile(rng.random((1, 3)), (6, 1))


def run_degenerate(run, rng, xforms):
    """
    Input that does not span 3-D, at every placement of the quantifier.  The library may refuse
    a class of such input; what it answers for a shape at scale 1 about the origin it must also
    answer for the same shape scaled / translated (base_ok), and every answer is judged.
    """
    from trimesh import bounds, nsphere

    for cls, P0 in degenerate_clouds(rng):
        ok = []
        for fam, fn in (("obb", lambda: bounds.oriented_bounds(P0.copy())),
                        ("sphere", lambda: nsphere.minimum_nsphere(P0.copy())),
                        ("cylinder", lambda: bounds.minimum_cylinder(P0.copy()))):
            try:
                fn()
                ok.append(fam)
            except Exception:  # noqa
                pass
        run.state("degenerate_answered_at_base", (cls, tuple(ok)))
        for xf, s, t in xforms:
            run_cloud3(run, xform(P0, s, t), "degenerate:" + cls, xf, heavy=run.tier != "quick", base_ok=() if (s, t) == (1.0, 0.0) else ok)
            if run.out_of_time(0.95):
                return


def workload(run):
    import trimesh

    rng = run.rng
    oracle_selfcheck(run)
    quick = run.tier == "quick"
    idx = 0
    # (0) primitives: every kind plainly placed (rigid / re-scaled) and mirrored (by a matrix / by a
    # negative scale factor)
    for kind in PRIMITIVE_KINDS:
        for pair in (("rigid", "scaled"), ("mirrored_matrix", "mirrored_scale")):
            idx += 1
            placement = pair[int(rng.integers(2))]
            if run.mine(idx) and not run.out_of_time(0.2):
                run_primitive(run, primitive_spec(rng, kind, placement))
    for _ in range(8):
        idx += 1
        if run.mine(idx) and not run.out_of_time(0.25):
            run_primitive(run, far_round_spec(rng))
    # (0b) round 5: another property read first (is_convex on every kind of mesh, and two other reads);
    # input with more than 512 points / hull vertices (every kind)
    for kind in PRIOR_KINDS:
        for read in ["is_convex", "is_convex"] + [PRIOR_READS[int(i)] for i in rng.choice(np.arange(1, len(PRIOR_READS)), size=2, replace=False)]:
            idx += 1
            if run.mine(idx) and not run.out_of_time(0.3):
                prior_read_case(run, rng, kind, read)
    nmax = 1400.0 if quick else 3000.0
    for kind in ("round", "round_fill", "ellipsoid", "bulk"):
        idx += 1
        if run.mine(idx) and not run.out_of_time(0.35):
            run_large(run, large_spec(rng, kind, nmax))
    # (1) every class x transform once (3-D and 2-D), sharded; at the first placement of a class
    # the hull is also asked for with every other option value
    for cls in CLOUD_CLASSES:
        for xi, (xf, s, t) in enumerate(XFORMS):
            idx += 1
            if not run.mine(idx):
                continue
            run_cloud3(run, xform(base_cloud(rng, cls, 3), s, t), cls, xf, heavy=(idx % 3 == 0), options=99 if xi == 0 else 0)
            run_cloud2(run, xform(base_cloud(rng, cls, 2), s, t), cls, xf)
        if run.out_of_time(0.45):
            run.count("enumeration_cut_short")
            break
    # (2) meshes: generator meshes, creation meshes with radial symmetry
    k = 0
    for tag, V, F in G.closed_meshes(rng, count=4 if quick else 10):
        idx += 1
        if not run.mine(idx):
            continue
        xf, s, t = XFORMS[k % len(XFORMS)]
        k += 1
        Vf = xform(np.asarray(V, dtype=np.float64) @ rand_rot(rng).T, s, t)
        run_mesh(run, G.to_trimesh(Vf, F), "mesh:" + tag, xf, heavy=k % 2 == 0)
        run_mesh_history(run, G.to_trimesh(Vf, F), "mesh:" + tag, xf)
        if run.out_of_time(0.6):
            break
    for name, make in (("cylinder", lambda: trimesh.creation.cylinder(radius=0.7, height=2.5, sections=12)),
                       ("cone", lambda: trimesh.creation.cone(radius=1.0, height=2.0, sections=10)),
                       ("capsule", lambda: trimesh.creation.capsule(radius=0.5, height=1.5, count=[6, 6])),
                       ("icosphere", lambda: trimesh.creation.icosphere(subdivisions=1))):
        idx += 1
        if not run.mine(idx) or run.out_of_time(0.7):
            continue
        try:
            m = make()
        except Exception as e:  # noqa
            run.skip("creation.%s raised %s" % (name, type(e).__name__))
            continue
        xf, s, t = XFORMS[int(rng.integers(len(XFORMS)))]
        M = np.eye(4)
        M[:3, :3] = rand_rot(rng) * s
        M[:3, 3] = t * np.array([1.0, -1.0, 0.5])
        m.apply_transform(M)
        run.state("mesh_symmetry", (name, str(getattr(m, "symmetry", None))))
        run_mesh(run, m, "creation:" + name, xf, heavy=True)
        run_mesh_history(run, m, "creation:" + name, xf)
    # (3) degenerate input: may be refused, never judged for fullness
    if run.mine(idx + 1):
        run_degenerate(run, rng, XFORMS)
    check_is_convex_known(run, rng)
    # (4) random classes / transforms until the budget is used
    n = 0
    while not run.out_of_time(0.9):
        cls = CLOUD_CLASSES[int(rng.integers(len(CLOUD_CLASSES)))]
        xf, s, t = XFORMS[int(rng.integers(len(XFORMS)))]
        n += 1
        if n % 3:
            run_cloud2(run, xform(base_cloud(rng, cls, 2), s, t), cls, xf)
            run_cloud2(run, xform(base_cloud(rng, "random" if n % 2 else "small_n", 2), s, t), "random", xf)
        run_cloud3(run, xform(base_cloud(rng, cls, 3), s, t), cls, xf, heavy=(n % 6 == 0), options=2 if n % 4 == 0 else 0)
        if n % 5 == 0:
            run_primitive(run, primitive_spec(rng))
            run_primitive(run, far_round_spec(rng))
        if n % 7 == 0:
            prior_read_case(run, rng, PRIOR_KINDS[int(rng.integers(len(PRIOR_KINDS)))], PRIOR_READS[int(rng.integers(len(PRIOR_READS)))] if n % 2 else "is_convex")
        if n % 16 == 0:
            run_large(run, large_spec(rng, None, nmax))
        if n % 10 == 0:
            check_is_convex_known(run, rng)
        if n % 40 == 0:
            run_degenerate(run, rng, XFORMS)


def replay(run, case):
    import trimesh

    if case.get("kind") == "is_convex":
        m = G.to_trimesh(np.array(case["V"]), np.array(case["F"]))
        run.case("replay:is_convex", np.array(case["V"]))
        if bool(m.is_convex) != bool(case["expected"]):
            run.violation("hull fn=is_convex sym=%s" % ("convex_reported_non_convex" if case["expected"] else "non_convex_reported_convex"), "is_convex disagrees", case)
        return
    if case.get("prim"):
        run_primitive(run, case["prim"])
        return
    if case.get("large"):
        run_large(run, case["large"])
        return
    if case.get("prior"):
        pr = case["prior"]
        V = np.array(case["points"], dtype=np.float64)
        if pr.get("edit") is not None:
            # the witness holds the points AFTER the edit; undo it to get the mesh that was read
            k, depth = int(pr["edit"][0]), float(pr["edit"][1])
            others = (V.sum(axis=0) - V[k]) / len(V)
            # V1[k] = V0[k] (1 - depth) + depth (others + V0[k] / n)
            V[k] = (V[k] - depth * others) / (1 - depth + depth / len(V))
        run_prior_read(run, V, np.array(pr["F"], dtype=np.int64), pr["kind"], pr["read"], edit=pr.get("edit"))
        return
    P = np.array(case["points"], dtype=np.float64)
    if case.get("d", 3) == 2:
        run_cloud2(run, P, case.get("cls", "replay"), case.get("xf", "replay"))
    else:
        run_cloud3(run, P, case.get("cls", "replay"), case.get("xf", "replay"), heavy=True, options=99, base_ok=case.get("base_ok", ()))
