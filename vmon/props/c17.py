"""
C17 - copies are faithful and share no mutable state with the original.

Monitor shape: history + reference model (deep snapshots) + structural walker.

For every geometry object x built by a deterministic factory (so an identical, never touched
twin provides the reference snapshot S0 even when x must stay "cold"):

    y = route(x)                      route in copy() / copy(include_cache=True) / copy.copy /
                                      copy.deepcopy
    faithful:     snap(y) == S0       (type, geometry, parameters, visuals, metadata)
    independent:  edit one side (in-place array write, API mutator, visual / metadata /
                  parameter / graph / entity edit), then snap(other side) == S0
                  - with the other side's values read before the edit ("already computed")
                  - or read only afterwards ("computes later")
                  - with the source cold or warm at copy time (matters for shared caches)
    walker:       writable ndarray leaves reachable from both objects; each is then written
                  through one side and the other side's snapshot is compared (behavioural
                  confirmation: sharing that cannot be observed is evidence, not a violation)

snap() reads public values only and returns plain copies (arrays copied, metadata deep
copied), compared field by field with 1e-12 tolerance on floats.

Keys:  kind=<class> route=<copy route> sym=<what>
    unfaithful:<field>                the copy reports a different <field>
    shared:<field>                    an edit of one side changed <field> of the other
    shallow_copy_shares_all_state     route yields an object whose instance attributes are
                                      the very same objects (default copy protocol), confirmed
                                      by at least one observed leak
    copy_raised:<Exc> / edit_fails_on_copy:<edit>
    unfaithful:<field>(raised:<Exc>)  the copy cannot answer a read the original answers
    diverges:<field>                  after an edit that makes a component re-derive <field>
                                      (one colour sized to the owner, focal length / field of view
                                      after a resolution change) the copy reports another value
                                      than an identically built, never copied object given the
                                      same edit - see _REDERIVING

Round 4: variants `...+derived_reads` also read what a mesh hands out as mutable objects (convex
hull, facets, vertex neighbours, adjacency graph, sparse matrices) and index-backed queries
(closest surface point, kdtree) - a state where the cache holds more than read-only arrays;
scenes with a camera / lights that were set, graph options, a primitive among the geometries;
textured meshes with further per-vertex data in the visual; meshes with given vertex normals.

Round 5: the material of a textured mesh is read parameter by parameter (snap_material: glTF
parameters and the five textures of a PBRMaterial, MTL parameters / keyword arguments of a
SimpleMaterial, name, hash) and built with every parameter at boundary values (0.0, 0, False, "",
all-zero colours, empty list, one black pixel: legal and falsy), at ordinary values, or drawn per
parameter from {unset, boundary, ordinary}; a scene holding such a mesh; edits of the material
(assignments to and from the boundary values, in-place writes into colours / textures / kwargs).
`unfaithful:<..material.field>(unset_in_copy)`: a parameter that was set reads None in the copy.
"""

from __future__ import annotations

import copy as _copy
import re

import numpy as np

PROP = "C17"
LEVEL = "exploration"
RULE = (
    "one case = one history (factory(kind, variant, parameters) -> optional reads -> copy route -> "
    "optional reads of the copy -> one edit on the copy or on the original -> reads of the other "
    "side). kinds: Trimesh (plain / face colours / vertex colours / texture+PIL image / attributes), "
    "primitives Box Sphere Cylinder Capsule Extrusion with non-default sections/subdivisions, Path2D, "
    "Path3D, PointCloud with colours, Scene (nested graph, geometry instanced twice, nested metadata), "
    "VoxelGrid x {Dense, Sparse, RLE, BRLE}; states: derived objects and spatial indexes read before the copy, "
    "given vertex normals, per-vertex data in a texture visual, PBRMaterial / SimpleMaterial with every parameter at boundary (falsy) / ordinary / mixed values, scene with camera (focal / fov defined) and "
    "lights set, graph options, primitive among the scene geometries. distinct = distinct (kind, variant, parameter seed, route, "
    "edit, edited side, source warm, other side warm); non-trivial = the edit changed the snapshot of "
    "the edited object (so a leak was observable)."
)
ANCHORS = [
    "trimesh/base.py:Trimesh.copy",
    "trimesh/base.py:Trimesh.__copy__",
    "trimesh/base.py:Trimesh.__deepcopy__",
    "trimesh/primitives.py:Primitive.copy",
    "trimesh/primitives.py:Cylinder.to_dict",
    "trimesh/primitives.py:Sphere.to_dict",
    "trimesh/primitives.py:Box.to_dict",
    "trimesh/primitives.py:Capsule.to_dict",
    "trimesh/primitives.py:Extrusion.to_dict",
    "trimesh/path/path.py:Path.copy",
    "trimesh/path/entities.py:Entity.copy",
    "trimesh/scene/scene.py:Scene.copy",
    "trimesh/scene/transforms.py:SceneGraph.copy",
    "trimesh/visual/color.py:ColorVisuals.copy",
    "trimesh/visual/texture.py:TextureVisuals.copy",
    "trimesh/voxel/base.py:VoxelGrid.copy",
    "trimesh/points.py:PointCloud.copy",
]
SHARDS = {"quick": 1, "thorough": 8}
BUDGET = {"quick": 45, "thorough": 300}
MIN_EVENTS = {"quick": 1000, "thorough": 8000}
ASSUMPTIONS = [
    "the factories are deterministic: two calls with the same seed build equal objects",
    "snap() reads public attributes only and does not change what the objects report",
    "sharing of read-only (writeable=False) cached arrays is allowed by the statement",
    "face_attributes / vertex_attributes are not in the statement: differences are evidence only",
    "camera and lights that were SET (constructor arguments of Scene) are parameters of a scene; generated defaults are not read",
    "scene._lights is peeked only to decide whether reading scene.lights would generate lights (random names, new graph nodes)",
    "a material colour that was not given is trimesh.visual.color.DEFAULT_COLOR itself (module-level, writable): compared by identity only to keep in-place edits away from it",
    "kdtree ties: both sides build the same tree from the same points, so the reported index is deterministic",
]
EXHAUSTIVE = {"quick": False, "thorough": False}

TOL = 1e-12


# ----------------------------------------------------------------------------
# plain values and comparison


def plain(x, depth=0):
    """Deep, detached, comparable copy of a value (arrays copied)."""
    if depth > 12:
        return repr(x)[:80]
    if isinstance(x, np.ndarray):
        return np.array(x, copy=True).view(np.ndarray)
    if isinstance(x, (np.bool_,)):
        return bool(x)
    if isinstance(x, np.integer):
        return int(x)
    if isinstance(x, np.floating):
        return float(x)
    if x is None or isinstance(x, (bool, int, float, str, bytes)):
        return x
    if isinstance(x, dict):
        return {str(k): plain(v, depth + 1) for k, v in x.items()}
    if isinstance(x, (list, tuple)):
        return [plain(v, depth + 1) for v in x]
    if isinstance(x, (set, frozenset)):
        return sorted(repr(v) for v in x)
    if hasattr(x, "wkt"):  # shapely
        return ("wkt", x.wkt)
    return ("obj", type(x).__name__)


def same(a, b):
    if isinstance(a, np.ndarray) or isinstance(b, np.ndarray):
        if not (isinstance(a, np.ndarray) and isinstance(b, np.ndarray)):
            return False
        if a.shape != b.shape:
            return False
        if a.dtype.kind in "fc" or b.dtype.kind in "fc":
            return bool(np.allclose(a, b, rtol=TOL, atol=TOL, equal_nan=True))
        return bool(np.array_equal(a, b))
    if isinstance(a, float) or isinstance(b, float):
        if not isinstance(a, (int, float)) or not isinstance(b, (int, float)) or isinstance(a, bool) != isinstance(b, bool):
            return False
        if a != a and b != b:
            return True
        return abs(a - b) <= TOL * max(1.0, abs(a), abs(b))
    if isinstance(a, dict) and isinstance(b, dict):
        return a.keys() == b.keys() and all(same(a[k], b[k]) for k in a)
    if isinstance(a, (list, tuple)) and isinstance(b, (list, tuple)):
        return len(a) == len(b) and all(same(u, v) for u, v in zip(a, b))
    return type(a) == type(b) and a == b


def meta_diff(a, b, depth=1):
    """'' when equal, 'metadata' when the top level differs, 'metadata.nested' deeper."""
    if isinstance(a, dict) and isinstance(b, dict):
        if a.keys() != b.keys():
            return "metadata" if depth == 1 else "metadata.nested"
        for k in a:
            d = meta_diff(a[k], b[k], depth + 1)
            if d:
                return d
        return ""
    if isinstance(a, list) and isinstance(b, list):
        if len(a) != len(b):
            return "metadata" if depth == 1 else "metadata.nested"
        for u, v in zip(a, b):
            d = meta_diff(u, v, depth + 1)
            if d:
                return d
        return ""
    if same(a, b):
        return ""
    return "metadata" if depth <= 2 else "metadata.nested"


def diff(A, B):
    """Names of the snapshot fields that differ (sorted)."""
    out = []
    for k in sorted(set(A) | set(B)):
        if k not in A or k not in B:
            out.append(k)
        elif k.endswith("metadata"):
            d = meta_diff(A[k], B[k])
            if d:
                out.append(k[: -len("metadata")] + d)
        elif not same(A[k], B[k]):
            out.append(k)
    return out


# ----------------------------------------------------------------------------
# snapshots: public values only


def _try(fn):
    try:
        return plain(fn())
    except BaseException as e:  # noqa
        if isinstance(e, KeyboardInterrupt):
            raise
        return ("raised", type(e).__name__)


def snap_visual(v, S, pre=""):
    S[pre + "visual.kind"] = _try(lambda: v.kind)
    kind = S[pre + "visual.kind"]
    if kind == "face":
        S[pre + "visual.face_colors"] = _try(lambda: v.face_colors)
    elif kind == "vertex":
        S[pre + "visual.vertex_colors"] = _try(lambda: v.vertex_colors)
    elif kind == "texture":
        S[pre + "visual.uv"] = _try(lambda: v.uv)
        # per-vertex data of the visual besides uv (the glTF loader keeps COLOR_0 there)
        S[pre + "visual.vertex_attributes"] = _try(lambda: {k: a for k, a in v.vertex_attributes.items() if k != "uv"})
        mat = getattr(v, "material", None)
        if mat is not None:
            S[pre + "visual.material.main_color"] = _try(lambda: mat.main_color)
            img = getattr(mat, "image", None)
            if img is not None:
                S[pre + "visual.material.image"] = _try(lambda: (list(img.size), img.mode, img.tobytes()))
            snap_material(mat, S, pre + "visual.material.")


# every parameter a material reports (round 5): the glTF parameters of a PBRMaterial, the MTL
# parameters of a SimpleMaterial.  Textures are read as (size, mode, pixel bytes).
_PBR_VALUES = ("emissiveFactor", "baseColorFactor", "metallicFactor", "roughnessFactor", "alphaMode", "alphaCutoff", "doubleSided")
_PBR_TEXTURES = ("baseColorTexture", "emissiveTexture", "normalTexture", "occlusionTexture", "metallicRoughnessTexture")
_SIMPLE_VALUES = ("ambient", "diffuse", "specular", "glossiness", "kwargs")


def _pixels(img):
    return None if img is None else [list(img.size), img.mode, img.tobytes()]


def snap_material(mat, S, pre):
    cls = type(mat).__name__
    S[pre + "class"] = cls
    S[pre + "name"] = _try(lambda: mat.name)
    if cls == "PBRMaterial":
        for key in _PBR_VALUES:
            S[pre + key] = _try(lambda key=key: getattr(mat, key))
        for key in _PBR_TEXTURES:
            S[pre + key] = _try(lambda key=key: _pixels(getattr(mat, key)))
    elif cls == "SimpleMaterial":
        for key in _SIMPLE_VALUES:
            S[pre + key] = _try(lambda key=key: getattr(mat, key))
    # what the exporters use to tell materials apart (same process: the same salt on both sides)
    S[pre + "hash"] = _try(lambda: hash(mat))


# the variants named `...+derived_reads` also read derived objects and index-backed queries (these
# reads cost as much as all the others together, so they are not made for every history)
_READS = {"derived": False}
_PROBES = np.array([[0.25, 0.5, 9.0], [7.0, -3.0, 2.0], [-6.0, 0.5, 0.25]])


def snap_mesh(m, S, pre=""):
    import trimesh

    if isinstance(m, trimesh.primitives.Primitive):
        for key in m.primitive._defaults:
            S[pre + "primitive." + key] = _try(lambda key=key: getattr(m.primitive, key))
    S[pre + "vertices"] = _try(lambda: m.vertices)
    S[pre + "faces"] = _try(lambda: m.faces)
    S[pre + "bounds"] = _try(lambda: m.bounds)
    S[pre + "area"] = _try(lambda: m.area)
    S[pre + "volume"] = _try(lambda: m.volume)
    S[pre + "centroid"] = _try(lambda: m.centroid)
    S[pre + "face_normals"] = _try(lambda: m.face_normals)
    S[pre + "vertex_normals"] = _try(lambda: m.vertex_normals)
    S[pre + "center_mass"] = _try(lambda: m.center_mass)
    S[pre + "density"] = _try(lambda: m.density)
    if _READS["derived"]:
        # derived values that are themselves mutable objects (a mesh, lists) and queries answered
        # from spatial indexes: closest surface point / closest vertex of fixed probe points
        S[pre + "convex_hull"] = _try(lambda: [m.convex_hull.volume, m.convex_hull.bounds, len(m.convex_hull.faces)])
        S[pre + "facets"] = _try(lambda: list(m.facets))
        S[pre + "vertex_neighbors"] = _try(lambda: [list(r) for r in m.vertex_neighbors])
        S[pre + "vertex_adjacency_graph"] = _try(lambda: sorted(sorted(int(i) for i in e) for e in m.vertex_adjacency_graph.edges))
        S[pre + "faces_sparse"] = _try(lambda: np.asarray(m.faces_sparse.todense()))
        S[pre + "nearest"] = _try(lambda: list(m.nearest.on_surface(_PROBES)[:2]))
        # (one probe next to the first vertex: an index that still looks at memory of another
        # object answers for that object's first vertex)
        S[pre + "kdtree"] = _try(lambda: list(m.kdtree.query(np.vstack([_PROBES, np.asarray(m.vertices)[:1] + (0.125, 0.25, 0.375)]))))
    snap_visual(m.visual, S, pre)
    S[pre + "metadata"] = _try(lambda: m.metadata)
    S[pre + "attributes"] = _try(lambda: {"face": dict(m.face_attributes), "vertex": dict(m.vertex_attributes)})


def snap_path(p, S, pre=""):
    S[pre + "vertices"] = _try(lambda: p.vertices)

    def ents():
        out = []
        for e in p.entities:
            out.append([type(e).__name__, np.array(e.points), bool(np.all(e.closed)),
                        plain(getattr(e, "color", None)), plain(e.layer)])
        return out

    S[pre + "entities"] = _try(ents)
    S[pre + "length"] = _try(lambda: p.length)
    S[pre + "bounds"] = _try(lambda: p.bounds)
    if p.vertices.shape[1] == 2:
        S[pre + "area"] = _try(lambda: p.area)
        S[pre + "n_polygons"] = _try(lambda: len(p.polygons_full))
    S[pre + "metadata"] = _try(lambda: p.metadata)


def snap_cloud(c, S, pre=""):
    S[pre + "vertices"] = _try(lambda: c.vertices)
    S[pre + "colors"] = _try(lambda: c.colors)
    S[pre + "bounds"] = _try(lambda: c.bounds)
    if _READS["derived"]:
        S[pre + "kdtree"] = _try(lambda: list(c.kdtree.query(np.vstack([_PROBES, np.asarray(c.vertices)[:1] + (0.125, 0.25, 0.375)]))))
    S[pre + "metadata"] = _try(lambda: c.metadata)


def snap_voxel(v, S, pre=""):
    S[pre + "encoding.dense"] = _try(lambda: np.asarray(v.encoding.dense))
    S[pre + "encoding.class"] = type(v.encoding).__name__
    S[pre + "transform"] = _try(lambda: v.transform)
    S[pre + "shape"] = _try(lambda: list(v.shape))
    S[pre + "filled_count"] = _try(lambda: v.filled_count)
    S[pre + "points"] = _try(lambda: v.points)
    S[pre + "bounds"] = _try(lambda: v.bounds)
    S[pre + "volume"] = _try(lambda: v.volume)
    S[pre + "metadata"] = _try(lambda: v.metadata)


def snap_scene(s, S, pre=""):
    def edges():
        out = []
        for e in s.graph.to_edgelist():
            a, b, attr = e[0], e[1], e[2] if len(e) > 2 else {}
            out.append([str(a), str(b), np.array(attr.get("matrix", np.eye(4))), plain(attr.get("geometry"))])
        out.sort(key=lambda r: (r[0], r[1]))
        return out

    S[pre + "graph.edges"] = _try(edges)
    S[pre + "graph.base_frame"] = _try(lambda: s.graph.base_frame)
    S[pre + "graph.repair_rigid"] = _try(lambda: s.graph.repair_rigid)

    def world():
        return {str(n): [np.array(s.graph.get(n)[0]), plain(s.graph.get(n)[1])] for n in sorted(s.graph.nodes, key=str)}

    S[pre + "graph.world"] = _try(world)
    S[pre + "geometry.names"] = _try(lambda: sorted(s.geometry.keys()))
    for name in sorted(s.geometry.keys()):
        snap_any(s.geometry[name], S, pre + "geometry[%s]." % name)
    S[pre + "bounds"] = _try(lambda: s.bounds)
    S[pre + "metadata"] = _try(lambda: s.metadata)
    # camera and lights are read only when they have been set: reading them otherwise makes the
    # scene generate defaults with random names (and add nodes to the graph)
    S[pre + "camera.set"] = _try(lambda: bool(s.has_camera))
    if S[pre + "camera.set"] is True:
        cam = s.camera
        for key in ("name", "resolution", "focal", "fov", "z_near", "z_far", "K"):
            S[pre + "camera." + key] = _try(lambda key=key: getattr(cam, key))
        S[pre + "camera.transform"] = _try(lambda: s.camera_transform)
    S[pre + "lights.set"] = getattr(s, "_lights", None) is not None
    if S[pre + "lights.set"]:

        def lights():
            out = []
            for L in s.lights:
                out.append({"type": type(L).__name__, "name": L.name, "color": np.array(L.color), "intensity": L.intensity,
                            "radius": L.radius, "cone": [getattr(L, "innerConeAngle", None), getattr(L, "outerConeAngle", None)],
                            "transform": np.array(s.graph.get(L.name)[0]) if L.name in s.graph.nodes else None})
            return out

        S[pre + "lights"] = _try(lights)


def snap_entity(e, S, pre=""):
    S[pre + "points"] = _try(lambda: np.array(e.points))
    S[pre + "closed"] = _try(lambda: bool(np.all(e.closed)))
    S[pre + "layer"] = _try(lambda: e.layer)
    S[pre + "color"] = _try(lambda: getattr(e, "color", None))
    S[pre + "metadata"] = _try(lambda: e.metadata)


def snap_any(x, S, pre=""):
    import trimesh
    import trimesh.path.entities  # noqa
    import trimesh.path.path  # noqa
    import trimesh.voxel  # noqa

    S[pre + "type"] = type(x).__name__
    if isinstance(x, trimesh.path.entities.Entity):
        return snap_entity(x, S, pre)
    if isinstance(x, trimesh.Trimesh):
        snap_mesh(x, S, pre)
    elif isinstance(x, trimesh.path.path.Path):
        snap_path(x, S, pre)
    elif isinstance(x, trimesh.PointCloud):
        snap_cloud(x, S, pre)
    elif isinstance(x, trimesh.Scene):
        snap_scene(x, S, pre)
    elif isinstance(x, trimesh.voxel.VoxelGrid):
        snap_voxel(x, S, pre)
    else:
        S[pre + "repr"] = repr(x)[:100]


def snap(x):
    S = {}
    snap_any(x, S)
    return S


# ----------------------------------------------------------------------------
# factories (deterministic in seed)

NESTED = lambda: {"name": "thing", "nested": {"list": [1, 2, {"deep": 3}], "arr": np.arange(3.0)}, "tags": ["a", "b"]}  # noqa


def _rigid(rng):
    from trimesh import transformations as tf

    q = rng.normal(size=4)
    q /= np.linalg.norm(q)
    M = tf.quaternion_matrix(q)
    M[:3, 3] = rng.integers(-4, 5, size=3)
    return M


def _image(rng):
    from PIL import Image

    px = rng.integers(0, 256, size=(4, 4, 3)).astype(np.uint8)
    return Image.fromarray(px, "RGB")


def _material(variant, rng):
    """
    A material whose parameters are all at boundary values (0.0, False, "", all-zero colours,
    a one pixel black texture: legal values that are falsy), all at ordinary values (every
    parameter and every texture set), or each one drawn from {unset, boundary, ordinary}.
    """
    from PIL import Image

    from trimesh.visual.material import PBRMaterial, SimpleMaterial

    cls, level = re.match(r"texture\+(\w+)\((\w+)\)", variant).groups()

    def pick(boundary, ordinary):
        ordinary = ordinary()
        if level == "boundary":
            return boundary
        if level == "ordinary":
            return ordinary
        return (None, boundary, ordinary)[int(rng.integers(3))]

    black = Image.new("RGB", (1, 1))
    if cls == "pbr":
        return PBRMaterial(
            name=pick("", lambda: "paint"),
            emissiveFactor=pick([0.0, 0.0, 0.0], lambda: rng.integers(1, 9, size=3) / 8.0),
            baseColorFactor=pick([0, 0, 0, 0], lambda: rng.integers(1, 256, size=4).astype(np.uint8)),
            metallicFactor=pick(0.0, lambda: 0.25),
            roughnessFactor=pick(0, lambda: 0.75),
            alphaMode=pick("MASK", lambda: "BLEND"),
            alphaCutoff=pick(0.0, lambda: 0.625),
            # (never None: the constructor's "unset" for this parameter is False)
            doubleSided=bool(pick(False, lambda: True)),
            baseColorTexture=pick(black, lambda: _image(rng)),
            metallicRoughnessTexture=pick(None, lambda: _image(rng)),
            emissiveTexture=pick(None, lambda: _image(rng)),
            normalTexture=pick(None, lambda: _image(rng)),
            occlusionTexture=pick(None, lambda: _image(rng)),
        )
    mat = SimpleMaterial(
        image=pick(black, lambda: _image(rng)),
        diffuse=pick([0, 0, 0, 0], lambda: rng.integers(1, 256, size=4).astype(np.uint8)),
        ambient=pick([0, 0, 0, 0], lambda: rng.integers(1, 256, size=4).astype(np.uint8)),
        specular=pick([0, 0, 0, 0], lambda: rng.integers(1, 256, size=4).astype(np.uint8)),
        glossiness=pick(0.0, lambda: 25.0),
        # further MTL statements are kept as keyword arguments
        **(pick({"d": 0.0, "illum": 0, "map_bump": "", "Tf": []}, lambda: {"Ni": 1.5, "illum": 2, "Ke": [0.0, 0.5, 1.0]}) or {}),
    )
    name = pick("", lambda: "paint")
    if name is not None:
        mat.name = name
    return mat


def f_trimesh(variant):
    def make(seed):
        import trimesh
        from trimesh.visual.texture import TextureVisuals
        from vmon.gen import mesh as G

        rng = np.random.default_rng(seed)
        if seed % 3 == 0:
            V, F = G.box_int(tuple(int(v) for v in rng.integers(1, 5, size=3)), tuple(int(v) for v in rng.integers(-3, 4, size=3)))
        elif seed % 3 == 1:
            V, F = G.hull_int(rng, int(rng.integers(5, 10)))
        else:
            V, F = G.random_polycube(rng, int(rng.integers(2, 5)))
        m = trimesh.Trimesh(V.astype(np.float64), F, process=False, metadata=NESTED())
        if variant == "face":
            m.visual.face_colors = rng.integers(0, 256, size=(len(F), 4)).astype(np.uint8)
        elif variant == "vertex":
            m.visual.vertex_colors = rng.integers(0, 256, size=(len(V), 4)).astype(np.uint8)
        elif variant == "texture":
            m.visual = TextureVisuals(uv=rng.random((len(V), 2)), image=_image(rng))
        elif variant == "texture+vertex_data":
            # a textured mesh that also has per-vertex colours, as the glTF loader builds it
            # (TEXCOORD_0 + COLOR_0): the colours are kept next to uv in the visual
            m.visual = TextureVisuals(uv=rng.random((len(V), 2)), image=_image(rng))
            m.visual.vertex_attributes["color"] = rng.integers(0, 256, size=(len(V), 4)).astype(np.uint8)
            m.visual.vertex_attributes["weight"] = rng.random(len(V))
        elif variant.startswith("texture+pbr(") or variant.startswith("texture+simple("):
            # a material given as such (what the glTF / OBJ loaders build), parameters at
            # boundary / ordinary / mixed values
            m.visual = TextureVisuals(uv=rng.random((len(V), 2)), material=_material(variant, rng))
        elif variant == "given_vertex_normals":
            # vertex normals that come with the data (constructor / setter / OBJ vn, PLY nx ny nz,
            # glTF NORMAL), not the ones the library would derive from the faces
            N = rng.normal(size=(len(V), 3))
            m.vertex_normals = N / np.linalg.norm(N, axis=1)[:, None]
        elif variant == "attrs":
            m.face_attributes["w"] = rng.random(len(F))
            m.vertex_attributes["w"] = rng.random((len(V), 2))
        elif variant == "default_vertex_colors_edited":
            # no colours assigned: the DEFAULT face colours are read, then the default vertex
            # colours are read and edited in place - colours that exist only as an altered default
            _ = m.visual.face_colors
            vc = m.visual.vertex_colors
            vc[int(rng.integers(len(V)))] = [11, 22, 33, 255]
            vc[0] = [200, 100, 50, 255]
        elif variant == "default_face_colors_edited":
            _ = m.visual.vertex_colors
            fc = m.visual.face_colors
            fc[int(rng.integers(len(F)))] = [11, 22, 33, 255]
            fc[0] = [200, 100, 50, 255]
        return m

    return make


def f_primitive(cls):
    def make(seed):
        from shapely.geometry import Polygon

        from trimesh import primitives as P

        rng = np.random.default_rng(seed)
        T = _rigid(rng)
        if cls == "Box":
            p = P.Box(extents=rng.integers(1, 6, size=3).astype(float), transform=T)
        elif cls == "Sphere":
            p = P.Sphere(radius=float(rng.integers(1, 5)), center=rng.integers(-3, 4, size=3).astype(float),
                         subdivisions=int(rng.integers(0, 3)))
        elif cls == "Cylinder":
            p = P.Cylinder(radius=float(rng.integers(1, 4)), height=float(rng.integers(1, 6)), transform=T,
                           sections=int(rng.integers(5, 13)))
        elif cls == "Capsule":
            p = P.Capsule(radius=float(rng.integers(1, 3)), height=float(rng.integers(1, 5)), transform=T,
                          sections=int(rng.integers(6, 12)))
        else:
            w, h = float(rng.integers(1, 5)), float(rng.integers(1, 5))
            p = P.Extrusion(polygon=Polygon([(0, 0), (w, 0), (w, h), (w / 2.0, h + 1), (0, h)]),
                            height=float(rng.integers(1, 4)), transform=T)
        p.metadata.update(NESTED())
        return p

    return make


def f_path(dim):
    def make(seed):
        import trimesh
        from trimesh.path.entities import Arc, Line

        rng = np.random.default_rng(seed)
        w, h = float(rng.integers(2, 7)), float(rng.integers(2, 7))
        V2 = np.array([[0, 0], [w, 0], [w, h], [0, h], [w + 2, 1], [w + 3, 2], [w + 4, 1.0]])
        ents = [Line([0, 1, 2, 3, 0]), Arc([4, 5, 6], closed=True)]
        ents[0].layer = "outline"
        if dim == 2:
            return trimesh.path.Path2D(entities=ents, vertices=V2, metadata=NESTED(), process=False)
        V3 = np.column_stack([V2, rng.integers(-2, 3, size=len(V2)).astype(float)])
        return trimesh.path.Path3D(entities=[Line([0, 1, 2, 3, 0]), Line([4, 5, 6])], vertices=V3, metadata=NESTED(), process=False)

    return make


def f_entity(cls):
    def make(seed):
        from trimesh.path.entities import Arc, Line

        rng = np.random.default_rng(seed)
        k = int(rng.integers(0, 5))
        e = Line(np.array([k, k + 1, k + 2, k])) if cls == "Line" else Arc(np.array([k, k + 1, k + 2]), closed=bool(seed % 2))
        e.layer = "L%d" % k
        e.color = np.array([k, 2, 3, 255], dtype=np.uint8)
        e.metadata["nested"] = {"list": [1, 2, {"deep": 3}], "arr": np.arange(3.0)}
        return e

    return make


def f_cloud(seed):
    import trimesh

    rng = np.random.default_rng(seed)
    n = int(rng.integers(4, 12))
    return trimesh.PointCloud(rng.integers(-5, 6, size=(n, 3)).astype(float),
                              colors=rng.integers(0, 256, size=(n, 4)).astype(np.uint8), metadata=NESTED())


def f_scene_with(camera=None, lights=False, graph_options=False, primitive=False, material=None):
    """
    The nested scene, optionally with what else a Scene holds: a camera that was set (defined by
    its focal length or by its field of view, non-default clipping planes), lights that were set
    (one of each class, placed in the graph), a transform graph built with non-default options
    (base frame name, rigid-repair threshold, node transforms that are rigid only to ~1e-6) and a
    primitive among the geometries.
    """

    def make(seed):
        import trimesh
        from trimesh import primitives as P
        from trimesh import transformations as tf
        from trimesh.scene import lighting
        from trimesh.scene.cameras import Camera
        from trimesh.scene.transforms import SceneGraph

        rng = np.random.default_rng(seed)
        a = f_trimesh("face")(seed * 3 + 1)
        b = f_trimesh(material or "plain")(seed * 3 + 2)
        if graph_options:
            threshold = (None, 1e-3, 1e-9)[seed % 3]
            s = trimesh.Scene(base_frame="root", graph=SceneGraph(base_frame="root", repair_rigid=threshold))

            def place():
                M = _rigid(rng)
                M[:3, :3] += rng.uniform(-1.0, 1.0, size=(3, 3)) * (3e-5 if threshold == 1e-3 else 1e-6)
                return M
        else:
            s = trimesh.Scene()
            place = lambda: _rigid(rng)  # noqa
        s.add_geometry(a, node_name="a0", geom_name="A", transform=place())
        # the same geometry instanced a second time, deeper in the graph
        s.add_geometry(a, node_name="a1", geom_name="A", parent_node_name="a0", transform=place())
        s.graph.update(frame_to="group", frame_from="a0", matrix=tf.translation_matrix(rng.integers(-3, 4, size=3)))
        s.add_geometry(b, node_name="b0", geom_name="B", parent_node_name="group", transform=place())
        if seed % 2:
            s.add_geometry(f_cloud(seed + 5), node_name="c0", geom_name="C", transform=place())
        if primitive:
            s.add_geometry(f_primitive(("Sphere", "Box", "Cylinder")[seed % 3])(seed + 9), node_name="p0", geom_name="P", transform=place())
        if camera == "focal":
            s.camera = Camera(name="cam", focal=(float(rng.integers(300, 700)), float(rng.integers(300, 700))), resolution=(640, 480),
                              z_near=0.5, z_far=float(rng.integers(20, 90)))
            s.camera_transform = _rigid(rng)
        elif camera == "fov":
            s.camera = Camera(name="cam", fov=(float(rng.integers(40, 80)), float(rng.integers(30, 60))), resolution=(320, 200),
                              z_near=0.25, z_far=float(rng.integers(20, 90)))
            s.camera_transform = _rigid(rng)
        if lights:
            s.lights = [
                lighting.PointLight(name="lamp", color=[255, 10, 20, 255], intensity=float(rng.integers(2, 9)), radius=12.5),
                lighting.DirectionalLight(name="sun", intensity=float(rng.integers(2, 9))),
                lighting.SpotLight(name="spot", color=[1, 2, 3, 255], intensity=2.0, innerConeAngle=0.1, outerConeAngle=0.5),
            ]
            for L in s.lights:
                s.graph.update(frame_to=L.name, matrix=_rigid(rng))
        s.metadata.update(NESTED())
        return s

    return make


f_scene = f_scene_with()


def f_voxel(enc):
    def make(seed):
        from trimesh import transformations as tf
        from trimesh.voxel import VoxelGrid
        from trimesh.voxel import encoding as E

        rng = np.random.default_rng(seed)
        shape = tuple(int(v) for v in rng.integers(2, 6, size=3))
        d = rng.random(shape) < 0.4
        d[0, 0, 0] = True
        if enc == "Dense":
            e = E.DenseEncoding(d.copy())
        elif enc == "Sparse":
            e = E.SparseEncoding.from_dense(d)
        elif enc == "RLE":
            e = E.RunLengthEncoding.from_dense(d.reshape(-1), dtype=bool).reshape(d.shape)
        else:
            e = E.BinaryRunLengthEncoding.from_dense(d.reshape(-1)).reshape(d.shape)
        T = tf.scale_and_translate(float(rng.integers(1, 4)), rng.integers(-3, 4, size=3).astype(float))
        return VoxelGrid(e, transform=T, metadata=NESTED())

    return make


def prepared(make, prep):
    """The object in a state reached by a history: built, then `prep` applied (reads, edits)."""

    def make2(seed):
        o = make(seed)
        prep(o)
        return o

    return make2


_ROT = np.array([[0.0, -1.0, 0.0, 0.0], [0.0, 0.0, -1.0, 0.0], [1.0, 0.0, 0.0, 0.0], [0.0, 0.0, 0.0, 1.0]])  # a proper rotation


def _prep_warm_inplace_vertices(o):
    # everything read, then an in-place edit that nothing has looked at yet when the copy is taken
    snap(o)
    o.vertices[0] += (1.5, 0.5, -1.0)[: o.vertices.shape[1]]


def _prep_normals_transform(m):
    # normals read and then carried through a transform by the library itself
    _ = m.face_normals, m.vertex_normals
    m.apply_transform(_ROT)


def _prep_mass_override(m):
    m.center_mass = np.array([0.25, -0.5, 0.75])
    m.density = 2.5


def _prep_warm_param(p):
    snap(p)
    if "extents" in p.primitive._defaults:
        p.primitive.extents[0] += 1.5
    elif "radius" in p.primitive._defaults:
        p.primitive.radius = float(p.primitive.radius) + 1.5
    else:
        p.primitive.height = float(p.primitive.height) + 1.5


def _prep_scene_warm_geometry_edit(s):
    snap(s)
    s.geometry["A"].vertices[0] += (1.5, 0.5, -1.0)


def _prep_scene_warm_graph_edit(s):
    # world transforms resolved (and memoised by the graph), then an edge re-stated and a whole
    # scene transform applied - nothing reads the graph again before the copy is taken
    snap(s)
    s.graph.update(frame_to="a1", frame_from="a0", matrix=_T2, geometry="A")
    s.apply_transform(_T2)


def _prep_voxel_warm_transform(v):
    snap(v)
    v.transform[0, 3] += 2.0


_MATERIAL_VARIANTS = ("texture+pbr(boundary)", "texture+pbr(ordinary)", "texture+pbr(mixed)",
                      "texture+simple(boundary)", "texture+simple(ordinary)", "texture+simple(mixed)")


def factories():
    out = []
    for v in ("plain", "face", "vertex", "texture", "attrs", "default_vertex_colors_edited", "default_face_colors_edited",
              "texture+vertex_data", "given_vertex_normals"):
        out.append(("Trimesh", v, f_trimesh(v)))
    # materials of textured meshes: every parameter at boundary / ordinary / mixed values
    for v in _MATERIAL_VARIANTS:
        out.append(("Trimesh", v, f_trimesh(v)))
    out.append(("Scene", "nested+material(pbr)", f_scene_with(material="texture+pbr(boundary)")))
    # states reached by a history before the copy is taken
    out.append(("Trimesh", "plain+warm_inplace_edit", prepared(f_trimesh("plain"), _prep_warm_inplace_vertices)))
    out.append(("Trimesh", "plain+normals_transform", prepared(f_trimesh("plain"), _prep_normals_transform)))
    out.append(("Trimesh", "plain+mass_override", prepared(f_trimesh("plain"), _prep_mass_override)))
    out.append(("Trimesh", "plain+derived_reads", f_trimesh("plain")))
    out.append(("Sphere", "params+derived_reads", f_primitive("Sphere")))
    out.append(("Box", "params+derived_reads", f_primitive("Box")))
    out.append(("PointCloud", "colors+derived_reads", f_cloud))
    for c in ("Box", "Cylinder"):
        out.append((c, "params+mass_override", prepared(f_primitive(c), _prep_mass_override)))
        out.append((c, "params+warm_param_edit", prepared(f_primitive(c), _prep_warm_param)))
    out.append(("Path2D", "line+arc+warm_inplace_edit", prepared(f_path(2), _prep_warm_inplace_vertices)))
    out.append(("Path3D", "lines+warm_inplace_edit", prepared(f_path(3), _prep_warm_inplace_vertices)))
    out.append(("PointCloud", "colors+warm_inplace_edit", prepared(f_cloud, _prep_warm_inplace_vertices)))
    out.append(("Scene", "nested+warm_geometry_edit", prepared(f_scene, _prep_scene_warm_geometry_edit)))
    out.append(("Scene", "nested+warm_graph_edit", prepared(f_scene, _prep_scene_warm_graph_edit)))
    out.append(("VoxelGrid", "Dense+warm_transform_edit", prepared(f_voxel("Dense"), _prep_voxel_warm_transform)))
    for c in ("Box", "Sphere", "Cylinder", "Capsule", "Extrusion"):
        out.append((c, "params", f_primitive(c)))
    out.append(("Path2D", "line+arc", f_path(2)))
    out.append(("Path3D", "lines", f_path(3)))
    # path entities: the building block of Path.copy (route copy() and deepcopy only; an
    # entity is not a geometry, the shallow protocol is not judged for it)
    out.append(("Line", "entity", f_entity("Line")))
    out.append(("Arc", "entity", f_entity("Arc")))
    out.append(("PointCloud", "colors", f_cloud))
    out.append(("Scene", "nested", f_scene))
    # what else a scene holds: camera, lights, graph options, a primitive among the geometries
    out.append(("Scene", "nested+camera(focal)+lights", f_scene_with(camera="focal", lights=True)))
    out.append(("Scene", "nested+camera(fov)", f_scene_with(camera="fov")))
    out.append(("Scene", "nested+graph_options", f_scene_with(graph_options=True)))
    out.append(("Scene", "nested+primitive+derived_reads", f_scene_with(primitive=True)))
    for e in ("Dense", "Sparse", "RLE", "BRLE"):
        out.append(("VoxelGrid", e, f_voxel(e)))
    return out


# ----------------------------------------------------------------------------
# copy routes


def routes_for(obj):
    import trimesh
    import trimesh.path.entities  # noqa

    r = [("copy", lambda o: o.copy())]
    if isinstance(obj, trimesh.path.entities.Entity):
        return r + [("copy.deepcopy", lambda o: _copy.deepcopy(o))]
    if isinstance(obj, trimesh.Trimesh) and not isinstance(obj, trimesh.primitives.Primitive):
        r.append(("copy(include_cache=True)", lambda o: o.copy(include_cache=True)))
    r.append(("copy.copy", lambda o: _copy.copy(o)))
    r.append(("copy.deepcopy", lambda o: _copy.deepcopy(o)))
    return r


# ----------------------------------------------------------------------------
# edits: (name, fn).  Each must be a legitimate edit: in place or through the API.

_T = np.array([[0, -2.0, 0, 3], [2.0, 0, 0, -1], [0, 0, 2.0, 5], [0, 0, 0, 1]])  # rotation * scale 2 + shift
_T2 = np.array([[1, 0, 0, 2.0], [0, 1, 0, -3.0], [0, 0, 1, 1.0], [0, 0, 0, 1]])
_T2D = np.array([[0, -1.0, 2], [1.0, 0, 1], [0, 0, 1]])


def _meta_nested(o):
    o.metadata["nested"]["list"][2]["deep"] = 99
    o.metadata["nested"]["list"].append("x")


def _meta_arr(o):
    o.metadata["nested"]["arr"][0] = 42.0


def _meta_top(o):
    o.metadata["new_key"] = 1
    o.metadata["name"] = "renamed"


def _light(s, name):
    # only lights that were set: a scene without lights would generate defaults on the read, and
    # their colour is ONE module-level array (trimesh/scene/lighting.py _DEFAULT_RGBA) - writing
    # into it would change every default-coloured light of the process, i.e. the monitor's twins
    if getattr(s, "_lights", None) is None:
        raise LookupError("the scene has no lights set")
    return [L for L in s.lights if L.name == name][0]


def _derived_edits():
    return [
        ("derived_hull_apply_scale", lambda m: m.convex_hull.apply_scale(2.0)),
        ("derived_hull_vertices_inplace", lambda m: m.convex_hull.vertices.__setitem__((0, 0), m.convex_hull.vertices[0, 0] - 2.5)),
        ("derived_facets_inplace", lambda m: m.facets[0].__setitem__(0, (m.facets[0][0] + 1) % len(m.faces))),
        ("derived_vertex_neighbors_append", lambda m: m.vertex_neighbors[0].append(len(m.vertices) - 1)),
        ("derived_graph_remove_node", lambda m: m.vertex_adjacency_graph.remove_node(0)),
        ("derived_sparse_data_inplace", lambda m: m.faces_sparse.data.__setitem__(0, False)),
    ]


def _bump_list(mat):
    hit = [k for k in ("Ke", "Tf") if k in mat.kwargs]
    if not hit:
        raise LookupError("no list among the keyword arguments")
    for k in hit:
        mat.kwargs[k].append(1.0)


def _own_color(arr):
    # a colour that was not given is the ONE module-level array trimesh.visual.color.DEFAULT_COLOR
    # (writable): an in-place write would change the default colour of every material built later
    # in this process, i.e. the monitor's twins (same precaution as _light)
    from trimesh.visual import color

    if arr is color.DEFAULT_COLOR:
        raise LookupError("the colour is the module-level default")
    return arr


def _material_edits(variant, get=lambda m: m.visual.material, pre=""):
    """Edits of a material through its owner: assignments of parameters (to and from the boundary
    values), in-place writes into the colour arrays / textures / keyword arguments it hands out."""
    from PIL import Image

    def on(fn):
        return lambda o: fn(get(o))

    if "pbr" in variant:
        E = [
            ("material_metallic_assign", on(lambda t: setattr(t, "metallicFactor", 0.0 if t.metallicFactor else 0.5))),
            ("material_roughness_assign", on(lambda t: setattr(t, "roughnessFactor", 0.0 if t.roughnessFactor else 0.5))),
            ("material_alpha_assign", on(lambda t: (setattr(t, "alphaCutoff", 0.0 if t.alphaCutoff else 0.875), setattr(t, "alphaMode", "OPAQUE")))),
            ("material_doublesided_assign", on(lambda t: setattr(t, "doubleSided", not bool(t.doubleSided)))),
            ("material_name_assign", on(lambda t: setattr(t, "name", "" if t.name else "renamed"))),
            ("material_basecolor_inplace", on(lambda t: t.baseColorFactor.__setitem__(1, (int(t.baseColorFactor[1]) + 100) % 256))),
            ("material_basecolor_assign", on(lambda t: setattr(t, "baseColorFactor", [9, 8, 7, 255]))),
            ("material_emissive_inplace", on(lambda t: t.emissiveFactor.__setitem__(0, (t.emissiveFactor[0] + 0.5) % 1.0))),
            ("material_texture_putpixel", on(lambda t: t.baseColorTexture.putpixel((0, 0), (1, 2, 3)))),
            ("material_texture_assign", on(lambda t: setattr(t, "metallicRoughnessTexture", Image.new("RGB", (2, 2), (5, 6, 7))))),
            ("material_texture_remove", on(lambda t: setattr(t, "baseColorTexture", None))),
        ]
    else:
        E = [
            ("material_image_putpixel", on(lambda t: t.image.putpixel((0, 0), (1, 2, 3)))),
            ("material_diffuse_assign", on(lambda t: setattr(t, "diffuse", np.array([9, 8, 7, 255], dtype=np.uint8)))),
            ("material_diffuse_inplace", on(lambda t: _own_color(t.diffuse).__setitem__(1, (int(t.diffuse[1]) + 100) % 256))),
            ("material_specular_inplace", on(lambda t: _own_color(t.specular).__setitem__(0, (int(t.specular[0]) + 100) % 256))),
            ("material_glossiness_assign", on(lambda t: setattr(t, "glossiness", 0.0 if t.glossiness else 12.5))),
            ("material_kwargs_edit", on(lambda t: (t.kwargs.__setitem__("illum", 7), t.kwargs.pop("d", None)))),
            ("material_kwargs_list_inplace", on(_bump_list)),
            ("material_name_assign", on(lambda t: setattr(t, "name", "" if t.name else "renamed"))),
        ]
    return [(pre + n, f) for n, f in E]


def edits_for(obj, variant):
    import trimesh
    import trimesh.path.entities  # noqa
    import trimesh.path.path  # noqa
    import trimesh.voxel  # noqa

    E = []
    common = [("metadata_nested", _meta_nested), ("metadata_array_inplace", _meta_arr), ("metadata_top", _meta_top)]
    if isinstance(obj, trimesh.primitives.Primitive):
        E += [
            ("apply_transform_rigid", lambda p: p.apply_transform(_T2)),
            ("apply_transform_scale", lambda p: p.apply_transform(_T)),
            ("param_transform_assign", lambda p: setattr(p.primitive, "transform", _T2 @ np.array(p.primitive.transform))),
            ("param_transform_inplace", lambda p: p.primitive.transform.__setitem__((0, 3), p.primitive.transform[0, 3] + 2.0)),
            ("visual_face_colors", lambda p: p.visual.face_colors.__setitem__(0, [1, 2, 3, 255])),
        ]
        for key, val in (("radius", 7.5), ("height", 6.5), ("sections", 4), ("subdivisions", 0)):
            if key in obj.primitive._defaults:
                E.append(("param_" + key, lambda p, key=key, val=val: setattr(p.primitive, key, val)))
        if "mass_override" in variant:
            E.append(("center_mass_inplace", lambda p: p.center_mass.__setitem__(0, p.center_mass[0] + 2.0)))
            E.append(("density_assign", lambda p: setattr(p, "density", 7.0)))
        if "extents" in obj.primitive._defaults:
            E.append(("param_extents", lambda p: setattr(p.primitive, "extents", [2.5, 3.5, 4.5])))
            E.append(("param_extents_inplace", lambda p: p.primitive.extents.__setitem__(0, p.primitive.extents[0] + 1.5)))
        E += common
        if "derived_reads" in variant:
            E = [e for e in E if e[0] in ("apply_transform_scale", "param_radius", "param_extents")] + _derived_edits()
    elif isinstance(obj, trimesh.Trimesh):
        E += [
            ("vertices_inplace", lambda m: m.vertices.__setitem__((0, 0), m.vertices[0, 0] + 1.5)),
            ("vertices_assign", lambda m: setattr(m, "vertices", np.array(m.vertices) * 1.5)),
            ("faces_inplace", lambda m: m.faces.__setitem__(0, np.array(m.faces[0][::-1]))),
            ("apply_transform", lambda m: m.apply_transform(_T)),
            ("apply_translation", lambda m: m.apply_translation([1.0, 2.0, 3.0])),
            ("update_faces", lambda m: m.update_faces(np.arange(len(m.faces)) > 0)),
            ("invert", lambda m: m.invert()),
        ]
        if "mass_override" in variant:
            E.append(("center_mass_inplace", lambda m: m.center_mass.__setitem__(0, m.center_mass[0] + 2.0)))
            E.append(("center_mass_assign", lambda m: setattr(m, "center_mass", [3.0, 2.0, 1.0])))
            E.append(("density_assign", lambda m: setattr(m, "density", 7.0)))
        if variant == "face":
            E.append(("visual_face_colors_inplace", lambda m: m.visual.face_colors.__setitem__(0, [1, 2, 3, 255])))
            E.append(("visual_face_colors_assign", lambda m: setattr(m.visual, "face_colors", [9, 8, 7, 255])))
        elif variant == "vertex":
            E.append(("visual_vertex_colors_inplace", lambda m: m.visual.vertex_colors.__setitem__(0, [1, 2, 3, 255])))
        elif variant == "texture":
            E.append(("visual_uv_inplace", lambda m: m.visual.uv.__setitem__((0, 0), m.visual.uv[0, 0] + 0.25)))
            E.append(("visual_image_putpixel", lambda m: m.visual.material.image.putpixel((0, 0), (1, 2, 3))))
            E.append(("visual_material_diffuse", lambda m: setattr(m.visual.material, "diffuse", np.array([9, 8, 7, 255], dtype=np.uint8))))
        else:
            E.append(("visual_default_colors_inplace", lambda m: m.visual.face_colors.__setitem__(0, [1, 2, 3, 255])))
        if variant == "attrs":
            E.append(("attributes_inplace", lambda m: m.vertex_attributes["w"].__setitem__((0, 0), 77.0)))
        if variant == "texture+vertex_data":
            E.append(("visual_vertex_data_inplace", lambda m: m.visual.vertex_attributes["color"].__setitem__(0, [1, 2, 3, 255])))
            E.append(("visual_vertex_data_assign", lambda m: m.visual.vertex_attributes.__setitem__("weight", np.arange(len(m.vertices)) * 0.5)))
        if variant == "given_vertex_normals":
            E.append(("vertex_normals_assign", lambda m: setattr(m, "vertex_normals", np.roll(np.array(m.vertex_normals), 1, axis=1))))
        if variant in ("face", "vertex", "plain"):
            # fewer elements, then one colour for all of them: the visual sizes the colours it
            # reports from the object it is attached to
            E.append(("faces_subset_then_one_face_color", lambda m: (setattr(m, "faces", np.array(m.faces[:-1])), setattr(m.visual, "face_colors", [9, 8, 7, 255]))))
        E += common
        if variant in _MATERIAL_VARIANTS:
            E = [e for e in E if e[0] in ("vertices_inplace", "metadata_nested")]
            E.append(("visual_uv_inplace", lambda m: m.visual.uv.__setitem__((0, 0), m.visual.uv[0, 0] + 0.25)))
            E += _material_edits(variant)
        if "derived_reads" in variant:
            # edits of what the mesh hands out: the hull is a mesh, facets / neighbours are lists
            E = [e for e in E if e[0] in ("vertices_inplace", "apply_transform", "update_faces")] + _derived_edits()
    elif isinstance(obj, trimesh.path.path.Path):
        d = obj.vertices.shape[1]
        E += [
            ("vertices_inplace", lambda p: p.vertices.__setitem__((0, 0), p.vertices[0, 0] - 1.5)),
            ("apply_transform", lambda p: p.apply_transform(_T2D if d == 2 else _T)),
            ("apply_translation", lambda p: p.apply_translation([1.0, 2.0] if d == 2 else [1.0, 2.0, 3.0])),
            ("entity_points_assign", lambda p: setattr(p.entities[0], "points", np.array([0, 1, 2, 0]))),
            ("entity_points_inplace", lambda p: p.entities[0].points.__setitem__(1, 2)),
            ("entity_layer", lambda p: setattr(p.entities[0], "layer", "other")),
            ("entities_remove", lambda p: setattr(p, "entities", list(p.entities)[:1])),
        ]
        if d == 2:
            E.append(("entity_closed_flag", lambda p: setattr(p.entities[1], "closed", False)))
        E += common
    elif isinstance(obj, trimesh.path.entities.Entity):
        E += [
            ("points_assign", lambda e: setattr(e, "points", np.array(e.points)[::-1] + 1)),
            ("points_inplace", lambda e: e.points.__setitem__(0, e.points[0] + 7)),
            ("layer", lambda e: setattr(e, "layer", "other")),
            ("color_inplace", lambda e: e.color.__setitem__(0, 200)),
            ("metadata_nested", lambda e: e.metadata["nested"]["list"].append("x")),
            ("metadata_array_inplace", lambda e: e.metadata["nested"]["arr"].__setitem__(0, 42.0)),
        ]
        if type(obj).__name__ == "Arc":
            E.append(("closed_flag", lambda e: setattr(e, "closed", not e.closed)))
    elif isinstance(obj, trimesh.PointCloud):
        E += [
            ("vertices_inplace", lambda c: c.vertices.__setitem__((0, 0), c.vertices[0, 0] + 1.5)),
            ("apply_transform", lambda c: c.apply_transform(_T)),
            ("colors_inplace", lambda c: c.colors.__setitem__(0, [1, 2, 3, 255])),
            ("colors_assign", lambda c: setattr(c, "colors", np.tile(np.array([9, 8, 7, 255], dtype=np.uint8), (len(c.vertices), 1)))),
            ("colors_assign_one", lambda c: setattr(c, "colors", [9, 8, 7, 255])),
            ("vertices_subset_then_one_color", lambda c: (setattr(c, "vertices", np.array(c.vertices[: len(c.vertices) // 2])), setattr(c, "colors", [9, 8, 7, 255]))),
            ("vertices_extended_then_one_color", lambda c: (setattr(c, "vertices", np.vstack([c.vertices, c.vertices + 0.5])), setattr(c, "colors", [9, 8, 7, 255]))),
        ] + common
        if "derived_reads" in variant:
            E = [e for e in E if e[0] in ("vertices_inplace", "apply_transform", "vertices_subset_then_one_color")]
    elif isinstance(obj, trimesh.Scene):
        E += [
            ("graph_update", lambda s: s.graph.update(frame_to="a1", frame_from="a0", matrix=_T2, geometry="A")),
            ("graph_matrix_inplace", lambda s: s.graph.transforms.edge_data[("a0", "a1")]["matrix"].__setitem__((0, 3), 9.0)),
            ("geometry_vertices_inplace", lambda s: s.geometry["A"].vertices.__setitem__((0, 0), s.geometry["A"].vertices[0, 0] + 1.5)),
            ("geometry_apply_transform", lambda s: s.geometry["B"].apply_transform(_T)),
            ("geometry_colors_inplace", lambda s: s.geometry["A"].visual.face_colors.__setitem__(0, [1, 2, 3, 255])),
            ("geometry_metadata", lambda s: s.geometry["A"].metadata["nested"]["list"].append("x")),
            ("scene_apply_transform", lambda s: s.apply_transform(_T2)),
            ("delete_geometry", lambda s: s.delete_geometry("B")),
            ("add_geometry", lambda s: s.add_geometry(f_trimesh("plain")(7), node_name="new", geom_name="N")),
        ] + common
        basic = ("graph_update", "graph_matrix_inplace", "geometry_vertices_inplace", "scene_apply_transform", "metadata_nested")
        if variant == "nested+graph_options":
            # the other edits are made on the plain nested scene
            E = [e for e in E if e[0] in basic]
        elif variant != "nested" and not variant.startswith("nested+warm"):
            E = [e for e in E if e[0] in basic[:3]]
        if "camera" in variant:
            E += [
                ("camera_resolution_assign", lambda s: setattr(s.camera, "resolution", (1280, 960))),
                ("camera_fov_assign", lambda s: setattr(s.camera, "fov", (50.0, 35.0))),
                ("camera_focal_assign", lambda s: setattr(s.camera, "focal", (410.0, 390.0))),
                ("camera_clipping_assign", lambda s: (setattr(s.camera, "z_near", 2.0), setattr(s.camera, "z_far", 7.0))),
                ("camera_transform_assign", lambda s: setattr(s, "camera_transform", _T2)),
            ]
        if "lights" in variant:
            E += [
                ("light_intensity_assign", lambda s: setattr(_light(s, "lamp"), "intensity", 11.0)),
                ("light_color_inplace", lambda s: _light(s, "lamp").color.__setitem__(1, 77)),
                ("light_cone_assign", lambda s: setattr(_light(s, "spot"), "outerConeAngle", 0.75)),
                ("lights_remove", lambda s: s.lights.remove(_light(s, "spot"))),
                ("light_transform", lambda s: s.graph.update(frame_to="lamp", matrix=_T2)),
            ]
        if "material" in variant:
            keep = ("material_metallic_assign", "material_name_assign", "material_basecolor_inplace", "material_texture_putpixel")
            E += [e for e in _material_edits(variant, get=lambda s: s.geometry["B"].visual.material, pre="geometry_") if e[0][len("geometry_"):] in keep]
        if "primitive" in variant:
            E += [
                ("geometry_primitive_transform", lambda s: s.geometry["P"].apply_transform(_T2)),
                ("geometry_primitive_metadata", lambda s: s.geometry["P"].metadata["nested"]["list"].append("x")),
            ]
    elif isinstance(obj, trimesh.voxel.VoxelGrid):
        E += [
            ("apply_transform", lambda v: v.apply_transform(_T2)),
            ("transform_inplace", lambda v: v.transform.__setitem__((0, 3), v.transform[0, 3] + 2.0)),
            ("transform_assign", lambda v: setattr(v, "transform", _T2 @ np.array(v.transform))),
            ("encoding_dense_inplace", lambda v: v.encoding.dense.__setitem__((0, 0, 0), False)),
            ("fill", lambda v: v.fill()),
            ("hollow", lambda v: v.hollow()),
            ("encoding_assign", lambda v: setattr(v, "encoding", ~np.asarray(v.encoding.dense))),
        ] + common
    return E


# ----------------------------------------------------------------------------
# the protocol

# fields that only restate a primitive's parameters: a parameter difference explains them
_DERIVED = ("vertices", "faces", "bounds", "area", "volume", "centroid", "face_normals", "vertex_normals", "center_mass",
            "convex_hull", "facets", "vertex_neighbors", "vertex_adjacency_graph", "faces_sparse", "nearest", "kdtree")
# values derived from vertices / faces
_FROM_VERTICES = ("bounds", "area", "volume", "centroid", "face_normals", "vertex_normals", "center_mass", "length", "n_polygons",
                  "convex_hull", "facets", "vertex_neighbors", "vertex_adjacency_graph", "faces_sparse", "nearest", "kdtree")


def _reduce_fields(fields):
    """Top-level names used in keys; derived geometry is dropped when a parameter explains it."""
    # mesh.face_attributes / vertex_attributes (field `attributes`) are not in the statement
    fields = [f for f in fields if f.split(".")[-1] != "attributes"]
    if any(f.startswith("primitive.") for f in fields):
        fields = [f for f in fields if f not in _DERIVED and not f.startswith("visual.")]
    out = []
    for f in fields:
        f = re.sub(r"geometry\[[^\]]*\]\.", "geometry.", f)
        if f == "encoding.class":
            continue
        out.append(f)
    # a material: its hash restates its parameters, its main colour the base colour / diffuse colour
    for f in [f for f in out if ".material." in f and f.rsplit(".", 1)[1] not in ("hash", "main_color")]:
        stem, leaf = f.rsplit(".", 1)
        drop = {stem + ".hash"}
        if leaf in ("baseColorFactor", "diffuse", "class"):
            drop.add(stem + ".main_color")
        if leaf in ("class",):
            drop.update(g for g in out if g.startswith(stem + ".") and g != f)
        out = [g for g in out if g not in drop]
    # (the texture of a SimpleMaterial is read once: as `image`)
    # scene-level values derived from the graph / the geometries
    if any(f.startswith("graph.edges") or f.startswith("geometry.") for f in out):
        out = [f for f in out if f not in ("bounds", "graph.world")]
    # a graph option explains the world transforms; a camera / light list that is not there
    # explains its values; focal length, field of view and K restate each other
    if "graph.repair_rigid" in out:
        out = [f for f in out if f not in ("bounds", "graph.world")]
    if "camera.set" in out:
        out = [f for f in out if not f.startswith("camera.") or f == "camera.set"]
    if "lights.set" in out:
        out = [f for f in out if f != "lights"]
    if "camera.focal" in out:
        out = [f for f in out if f not in ("camera.fov", "camera.K")]
    if "transform" in out or "encoding.dense" in out:
        out = [f for f in out if f not in ("bounds", "points", "volume", "filled_count", "shape")]
    for pre in sorted({f[: -len("vertices")] for f in out if f.endswith("vertices")} | {f[: -len("faces")] for f in out if f.endswith("faces")}):
        out = [f for f in out if not (f.startswith(pre) and f[len(pre):] in _FROM_VERTICES)]
    if "entities" in out:
        out = [f for f in out if f not in ("length", "area", "bounds", "n_polygons")]
    return sorted(set(out))


def _raised(v):
    return isinstance(v, (tuple, list)) and len(v) == 2 and isinstance(v[0], str) and v[0] == "raised"


def is_shallow_dict_copy(x, y):
    """Default copy protocol: the instance attributes of y are the same objects as those of x."""
    dx, dy = getattr(x, "__dict__", None), getattr(y, "__dict__", None)
    if not isinstance(dx, dict) or not isinstance(dy, dict) or y is x or not dx:
        return False
    if dx.keys() != dy.keys():
        return False
    return all(dy[k] is dx[k] for k in dx)


class History:
    def __init__(self, run, kind, variant, make, seed, route_name, route):
        self.run, self.kind, self.variant, self.make, self.seed = run, kind, variant, make, seed
        self.route_name, self.route = route_name, route

    def reads(self):
        _READS["derived"] = "derived_reads" in self.variant

    def reference(self):
        """S0: the snapshot of an identically built object that nothing has touched (detached plain values)."""
        k = (self.kind, self.variant, self.seed)
        if k not in _S0:
            if len(_S0) > 64:
                _S0.clear()
            self.reads()
            _S0[k] = snap(self.make(self.seed))
        return _S0[k]

    def case(self, **kw):
        d = {"kind": self.kind, "variant": self.variant, "seed": int(self.seed), "route": self.route_name}
        d.update(kw)
        return d

    def key(self, sym):
        return "kind=%s route=%s sym=%s" % (self.kind, self.route_name, sym)


# Edits after which a component of the object RE-DERIVES values it reports from its own parameters
# or from its owner (a visual sizes one colour to the element count of the object it is attached
# to; a camera recomputes focal length or field of view from the one that was set).  Which
# parameter is the defining one, and which object a visual is attached to, is part of "identical
# parameters / visuals": for these edits - and these fields only - the copy is compared with an
# identically built object that was never copied and received the same edit.  (Not a general law:
# copying may settle pending state of the source, e.g. unverified in-place colour edits.)
_REDERIVING = {
    "vertices_subset_then_one_color": ("colors",),
    "vertices_extended_then_one_color": ("colors",),
    "colors_assign_one": ("colors",),
    "faces_subset_then_one_face_color": ("visual.face_colors", "visual.kind"),
    "camera_resolution_assign": ("camera.focal", "camera.fov", "camera.K", "camera.resolution"),
    "camera_fov_assign": ("camera.focal", "camera.fov", "camera.K"),
    "camera_focal_assign": ("camera.focal", "camera.fov", "camera.K"),
}

_S0 = {}
_FAITHFUL = {}  # (kind, variant, route) -> unfaithful reduced fields, from the faithful stage


def faithful_stage(h, src_warm):
    """snap(route(x)) == S0.  Returns False when the route is unusable."""
    run = h.run
    h.reads()
    S0 = h.reference()
    x = h.make(h.seed)
    if src_warm:
        snap(x)
    try:
        y = h.route(x)
    except BaseException as e:  # noqa
        if isinstance(e, KeyboardInterrupt):
            raise
        run.violation(h.key("copy_raised:%s" % type(e).__name__), "the copy route raised", h.case(error=repr(e)[:200], src_warm=src_warm))
        run.case("faithful:%s:%s" % (h.kind, h.route_name), h.kind, h.variant, h.seed, h.route_name, src_warm)
        return False
    Sy = snap(y)
    raw = diff(S0, Sy)
    fields = _reduce_fields(raw)
    attr = [f for f in raw if f.endswith("attributes")]
    if attr:
        run.count("evidence_attributes_not_copied:%s:%s" % (h.kind, h.route_name))
    # (both source states of one history class: the union is what later stages must not re-report)
    _FAITHFUL.setdefault((h.kind, h.variant, h.route_name), set()).update(fields)
    for f in fields:
        sym = "unfaithful:" + f
        fr = [r for r in raw if re.sub(r"geometry\[[^\]]*\]\.", "geometry.", r) == f]
        bad = [Sy.get(r) for r in fr if _raised(Sy.get(r)) and not _raised(S0.get(r))]
        if bad:
            # the copy cannot answer what the original answers
            sym += "(raised:%s)" % bad[0][1]
        elif ".material." in f and fr and Sy.get(fr[0]) is None and S0.get(fr[0]) is not None:
            # a parameter of the material that was set reads as unset in the copy
            sym += "(unset_in_copy)"
        run.violation(h.key(sym), "the copy reports a different `%s` than the original" % f,
                      h.case(src_warm=src_warm, field=f, original=_brief(S0.get(fr[0] if fr else f)), copy=_brief(Sy.get(fr[0] if fr else f)), all_fields=raw))
    if y is x:
        run.violation(h.key("copy_is_same_object"), "the copy route returned the original object", h.case())
    # the source must not have been changed by copying it
    d_src = _reduce_fields(diff(S0, snap(x)))
    for f in d_src:
        run.violation(h.key("source_changed:" + f), "copying changed `%s` of the original" % f, h.case(field=f))
    run.case("faithful:%s:%s" % (h.kind, h.route_name), h.kind, h.variant, h.seed, h.route_name, src_warm)
    run.state("kind_x_route", (h.kind, h.variant, h.route_name))
    return True


def _brief(v):
    if isinstance(v, np.ndarray):
        return {"shape": list(v.shape), "head": v.ravel()[:8].tolist()}
    if isinstance(v, (list, dict)):
        return repr(v)[:200]
    return v


def edit_stage(h, edit_name, edit, side, src_warm, other_warm):
    """One edit on `side` ('copy' | 'original'); the other side must still report S0."""
    run = h.run
    h.reads()
    S0 = h.reference()
    x = h.make(h.seed)
    if src_warm:
        snap(x)
    try:
        y = h.route(x)
    except BaseException:
        return
    target, other = (y, x) if side == "copy" else (x, y)
    other_name = "original" if side == "copy" else "copy"
    shallow = is_shallow_dict_copy(x, y)
    known_unfaithful = _FAITHFUL.get((h.kind, h.variant, h.route_name), set())
    if other_warm:
        snap(other)
    tag = "edit:%s:%s" % (h.kind, h.route_name)
    digest = (h.kind, h.variant, h.seed, h.route_name, edit_name, side, src_warm, other_warm)
    try:
        edit(target)
    except BaseException as e:  # noqa
        if isinstance(e, KeyboardInterrupt):
            raise
        # does the same edit work on a never-copied twin?
        try:
            edit(h.make(h.seed))
            twin_ok = True
        except BaseException:
            twin_ok = False
        if edit_name == "attributes_inplace":
            # face/vertex attributes are not in the statement (Trimesh.copy does not carry them)
            run.count("evidence_attributes_missing_on_copy:%s" % h.route_name)
        elif twin_ok and known_unfaithful:
            # the copy already differs (reported by the faithful stage): the edit has nothing to act on
            run.count("edit_not_applicable_to_unfaithful_copy")
        elif twin_ok and side == "copy":
            run.violation(h.key("edit_fails_on_copy:" + edit_name), "an edit that works on the original raises on its copy",
                          h.case(edit=edit_name, error=repr(e)[:200]))
        elif twin_ok:
            run.violation(h.key("edit_fails_after_copy:" + edit_name), "an edit that works on a fresh object raises once it has been copied",
                          h.case(edit=edit_name, error=repr(e)[:200]))
        else:
            run.skip("edit not applicable: %s/%s (%s)" % (h.kind, edit_name, type(e).__name__))
        run.case(tag, *digest, nontrivial=False)
        return
    # the edited side is read again before the other one: what it recomputes must not land in
    # anything the other side reads
    S_target = snap(target)
    changed = diff(S0, S_target)
    rederive = (side == "copy" and not shallow and edit_name in _REDERIVING
                and not known_unfaithful.intersection(_REDERIVING[edit_name]))
    if rederive:
        # a faithful copy is in the state of the original: the same edit applied to a never
        # copied twin (same source state) must lead to the same re-derived values
        twin = h.make(h.seed)
        if src_warm:
            snap(twin)
        try:
            edit(twin)
            S_twin = snap(twin)
        except BaseException as e:  # noqa
            if isinstance(e, KeyboardInterrupt):
                raise
            S_twin = None
        if S_twin is not None:
            run.count("twin_comparisons")
            for f in _reduce_fields(diff(S_twin, S_target)):
                if f not in _REDERIVING[edit_name]:
                    run.count("evidence_twin_differs_elsewhere:%s:%s" % (h.kind, f))
                    continue
                run.violation(h.key("diverges:" + f),
                              "after the same edit the copy reports another `%s` than an identically built object that was never copied" % f,
                              h.case(edit=edit_name, side=side, src_warm=src_warm, other_warm=other_warm, field=f,
                                     twin=_brief(S_twin.get(f)), copy=_brief(S_target.get(f))))
    S_other = snap(other)
    raw = diff(S0, S_other)
    fields = [f for f in _reduce_fields(raw) if not (other is y and f in known_unfaithful)]
    if [f for f in raw if f.endswith("attributes")] and edit_name == "attributes_inplace" and other is x:
        run.count("evidence_attributes_shared:%s:%s" % (h.kind, h.route_name))
    run.case(tag, *digest, nontrivial=bool(changed))
    run.state("edit_x_kind", (h.kind, edit_name))
    run.state("protocol_variant", (side, src_warm, other_warm))
    if not fields:
        return
    for f in fields:
        sym = "shallow_copy_shares_all_state" if shallow else "shared:" + f
        if f == "encoding.dense" and not shallow:
            sym = "shared:encoding.dense(%s)" % h.variant
        run.violation(h.key(sym),
                      "editing the %s changed `%s` reported by the %s" % (side, f, other_name),
                      h.case(edit=edit_name, side=side, src_warm=src_warm, other_warm=other_warm, field=f,
                             before=_brief(S0.get(f)), after=_brief(S_other.get(f)), all_fields=raw))


def _gen_path(p):
    # list positions are generalised, dictionary keys (cache entries, geometry names) are kept:
    # two cache entries are two different places to leak through
    return re.sub(r"\[\d+\]", "[]", p)


def walker_stage(h, src_warm):
    """Writable arrays reachable from both objects, each confirmed by writing through it."""
    from vmon.instrument import shared_mutable

    run = h.run
    h.reads()
    x = h.make(h.seed)
    if src_warm:
        snap(x)
    try:
        y = h.route(x)
    except BaseException:
        return
    pairs = shared_mutable(x, y)
    run.case("walker:%s:%s" % (h.kind, h.route_name), h.kind, h.variant, h.seed, h.route_name, src_warm, nontrivial=True)
    run.count("walker_scans")
    if not pairs:
        return
    classes = sorted({_gen_path(a) for a, _ in pairs})
    for c in classes:
        run.state("shared_writable_path", (h.kind, h.route_name, c))
    shallow = is_shallow_dict_copy(x, y)
    # confirm: write through the original's array, watch the copy
    from vmon.instrument import walk_arrays

    S_y = snap(y)
    arrays = dict(walk_arrays(x))
    done = set()
    for pa, _pb in pairs:
        g = _gen_path(pa)
        if g in done or pa not in arrays:
            continue
        done.add(g)
        arr = arrays[pa]
        if not arr.flags.writeable or arr.size == 0 or arr.dtype.kind not in "bifu":
            continue
        idx = (0,) * arr.ndim
        old = arr[idx].copy() if arr.ndim else arr.copy()
        try:
            arr[idx] = (not bool(old)) if arr.dtype.kind == "b" else old + 1
        except BaseException:
            continue
        after = snap(y)
        fields = _reduce_fields(diff(S_y, after))
        try:
            arr[idx] = old
        except BaseException:
            pass
        if fields:
            run.count("walker_confirmed")
            for f in fields:
                sym = "shallow_copy_shares_all_state" if shallow else "shared:" + f
                if f == "encoding.dense" and not shallow:
                    sym = "shared:encoding.dense(%s)" % h.variant
                run.violation(h.key(sym), "an in-place write into an array of the original changed `%s` reported by the copy" % f,
                              h.case(edit="walker_write", path=pa, field=f, src_warm=src_warm))
        else:
            run.count("evidence_shared_writable_unobservable")
            run.state("shared_writable_unobservable", (h.kind, h.route_name, g))


# ----------------------------------------------------------------------------


# protocol variants (edited side, source read before the copy, other side read before the edit).
# The first pass reaches every (kind, variant, route, edit) with two of them, the second pass adds
# the two that complete the pairwise cover, the third the remaining four; later rounds draw.
_PASSES = {
    1: [("copy", True, True), ("original", False, True)],
    2: [("copy", False, False), ("original", True, False)],
    3: [("copy", False, True), ("copy", True, False), ("original", False, False), ("original", True, True)],
}


def workload(run):
    import time

    facs = factories()
    rounds = 0
    t0 = time.time()
    usable = {}
    while not run.out_of_time(0.9):
        if rounds in (1, 2):
            run.note("pass_%d_complete_s" % rounds, round(time.time() - t0, 1))
        rounds += 1
        for kind, variant, make in facs:
            seed = int(run.rng.integers(1, 10**6)) if rounds > 2 else 3
            probe = make(seed)
            for route_name, route in routes_for(probe):
                h = History(run, kind, variant, make, seed, route_name, route)
                if rounds == 2:
                    ok = usable.get((kind, variant, route_name), False)
                else:
                    ok = False
                    for src_warm in (False, True):
                        if faithful_stage(h, src_warm):
                            ok = True
                            walker_stage(h, src_warm)
                    usable[(kind, variant, route_name)] = ok
                if not ok:
                    continue
                edits = edits_for(probe, variant)
                for edit_name, edit in edits:
                    if rounds in (1, 2) and "derived_reads" in variant:
                        # shared indexes / derived objects need a read before the copy: these few
                        # classes get the four variants of the pairwise cover at once
                        variants = _PASSES[1] + _PASSES[2] if rounds == 1 else []
                    elif rounds in _PASSES:
                        variants = _PASSES[rounds]
                    else:
                        variants = [(("copy", "original")[int(run.rng.integers(2))], bool(run.rng.integers(2)), bool(run.rng.integers(2)))]
                    for side, src_warm, other_warm in variants:
                        edit_stage(h, edit_name, edit, side, src_warm, other_warm)
                    if run.out_of_time(0.9):
                        break
                if run.out_of_time(0.9):
                    break
            if run.out_of_time(0.9):
                break
    run.note("rounds", rounds)


def replay(run, case):
    facs = {(k, v): m for k, v, m in factories()}
    make = facs[(case["kind"], case["variant"])]
    seed = case["seed"]
    probe = make(seed)
    routes = dict(routes_for(probe))
    h = History(run, case["kind"], case["variant"], make, seed, case["route"], routes[case["route"]])
    faithful_stage(h, bool(case.get("src_warm")))
    if case.get("edit") == "walker_write":
        walker_stage(h, bool(case.get("src_warm")))
    elif case.get("edit"):
        edits = dict(edits_for(probe, case["variant"]))
        edit_stage(h, case["edit"], edits[case["edit"]], case.get("side", "copy"), bool(case.get("src_warm")), bool(case.get("other_warm")))
