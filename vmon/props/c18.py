"""
C18 - repair and subdivision keep the surface and restore validity.

Monitor shape: laws + exact reference computations observed next to every execution.  All
input meshes have integer vertices, so midpoints are dyadic rationals, exactly representable
in float64: containment of a child triangle in its parent, tiling of the parent by its
children, volumes and the triangle set are judged in exact integer arithmetic on scaled
coordinates; topology (watertight, winding, Euler number, bodies) is recomputed by
dictionary counting, independent of trimesh's own topology code.

  subdivide (all faces)   original vertices are a bit-exact prefix, 4 children per face, each
                          child inside its parent, the children tile the parent, area, exact
                          volume, watertightness, winding and Euler number preserved
  subdivide (subset)      area preserved, untouched faces kept, every new face lies on an
                          original face with the same orientation (no watertightness claim)
  subdivide_to_size       no edge longer than the bound, every child lies on the face that
                          return_index names, area per original face and volume preserved,
                          ValueError exactly when the iteration cap is too small
  subdivide_loop          4^k faces, watertightness / winding / Euler number / boundary length
                          (in edges) preserved, translation covariant, stays inside the bounding
                          box (flat stays flat), vertices equal the documented Loop masks
  fix_normals             any re-winding subset of a watertight solid: vertices bit-exact,
                          triangle set (unordered triples) unchanged, winding consistent, every
                          body (edge-connected component) has positive volume, normals fresh
  fill_holes              isolated triangle holes and quad holes (adjacent pairs): vertices and
                          kept faces untouched, result watertight and consistently wound with
                          positive volume; triangles restored exactly; volume restored exactly
                          for triangle and PLANAR quad holes only

Input classes added in round 4 (each is a class of the quantifier, not a reproducer):
  units                   fill_holes on the same integer mesh given in small units (x 1e-3, 1e-5,
                          3e-6): closing a hole is a topological result and may not depend on the
                          unit; the oracle keeps judging the integer mesh
  few faces               every triangle / quad hole of solids with fewer than 8 faces (two faces
                          may be all that is left)
  touching bodies         solids that share ONE vertex index (what merge_vertices makes of parts
                          that touch in a corner): watertight, bodies are face-connected
  punctured               a closed or open mesh after a random face subset was removed (a vertex may
                          end up with four boundary edges: two fans that meet in a point); Loop is
                          judged there by topology, translation covariance and bounding box only
  unreferenced vertices   a vertex row no face uses (what update_faces leaves behind)

Classes added in round 5 (from the seeds of round 4):
  reads before the repair fix_normals after the caller evaluated a cached property of the re-wound mesh
                          (body_count, is_convex, volume, face_adjacency, ... one at a time and all of
                          them), and histories "built well wound, queried, re-wound by assignment / in
                          place, repaired": what is cached must not steer the repair
  small units, to_size    subdivide_to_size of the same integer mesh in small units (1e-3, 1e-5, 3e-6) and
                          with bounds of 0.4e-8 .. 1.3e-8 (around / below tol.merge) on inputs whose
                          triangles are >= 10 x above tol.zero; the method returns the function's triangles
"""

from __future__ import annotations

import itertools
import math

import numpy as np

from vmon.gen import mesh as G

PROP = "C18"
LEVEL = "exploration"
RULE = (
    "integer meshes (tetra, box, octahedron, hulls, polycubes, genus-1 frame, disjoint / nested / "
    "overlapping bodies, open grids and discs) x operation: fix_normals on EVERY re-winding subset "
    "of solids with <= 12 faces (16 + 256 + 4096, enumerated, sharded) and whole-body / alternating / "
    "single / random subsets of larger ones, by three routes, with and without cached normals; "
    "fill_holes after deleting isolated triangles and adjacent pairs (with and without shared "
    "vertices, planar and non-planar quads); subdivide of all faces and of face subsets; "
    "subdivide_to_size over bounds and iteration caps; subdivide_loop over 1-2 iterations.  Further "
    "input classes: the hole meshes in small units (x 1e-3, 1e-5, 3e-6), every hole of solids with < 8 "
    "faces, bodies sharing one vertex, meshes punctured by random face subsets (pinched boundary "
    "vertices), unreferenced vertex rows, fix_normals after reads of cached properties / after a queried mesh "
    "was re-wound by its caller, subdivide_to_size in small units down to bounds around tol.merge.  A case is "
    "one (operation, options, mesh, subset); distinct = distinct digest of those; non-trivial = the "
    "operation had something to do (some face re-wound / removed / subdivided)."
)
ANCHORS = [
    "trimesh/repair.py:fix_winding",
    "trimesh/repair.py:fix_inversion",
    "trimesh/repair.py:fix_normals",
    "trimesh/repair.py:fill_holes",
    "trimesh/repair.py:fill_holes.<locals>.hole_to_faces",
    "trimesh/base.py:Trimesh.invert",
    "trimesh/base.py:Trimesh.fix_normals",
    "trimesh/base.py:Trimesh.fill_holes",
    "trimesh/remesh.py:subdivide",
    "trimesh/remesh.py:subdivide_to_size",
    "trimesh/remesh.py:subdivide_loop",
    "trimesh/remesh.py:subdivide_loop.<locals>._subdivide",
    "trimesh/base.py:Trimesh.subdivide",
    "trimesh/base.py:Trimesh.subdivide_to_size",
    "trimesh/base.py:Trimesh.subdivide_loop",
]
LINE_FILES = ("trimesh/repair.py", "trimesh/remesh.py")
SHARDS = {"quick": 1, "thorough": 16}
BUDGET = {"quick": 45, "thorough": 420}
MIN_EVENTS = {"quick": 2000, "thorough": 12000}
EXHAUSTIVE = {"quick": False, "thorough": False}
ASSUMPTIONS = [
    "generated meshes are closed, manifold and outward wound (checked by exact volume / dictionary topology before use)",
    "integer vertices <= 64 in magnitude: midpoints of up to 5 halvings are exact in float64 and scaled coordinates fit int64 products",
    "a 'body' is an edge-connected component of faces (what Trimesh.split uses)",
    "scipy.spatial.cKDTree is correct (matching Loop vertices to the reference)",
]

TOL = 1e-9
# label of the unit class in which every triangle's cross product is at / below tol.zero
SCALE_TINY = "1e-07"


# ---------------------------------------------------------------------------- topology (dict counting)


def topo(F):
    """Independent topology facts of a face array."""
    F = np.asarray(F)
    und = {}
    dire = {}
    degenerate = 0
    for f in F.tolist():
        a, b, c = f
        if a == b or b == c or a == c:
            degenerate += 1
        for x, y in ((a, b), (b, c), (c, a)):
            dire[(x, y)] = dire.get((x, y), 0) + 1
            k = (x, y) if x < y else (y, x)
            und[k] = und.get(k, 0) + 1
    boundary = sum(1 for v in und.values() if v == 1)
    nonmanifold = sum(1 for v in und.values() if v > 2)
    watertight = bool(und) and all(v == 2 for v in und.values())
    # consistent: no directed edge used twice
    consistent = all(v == 1 for v in dire.values())
    nv = len(set(F.ravel().tolist()))
    return {
        "watertight": watertight,
        "consistent": consistent,
        "boundary": boundary,
        "nonmanifold": nonmanifold,
        "euler": nv - len(und) + len(F),
        "degenerate": degenerate,
        "edges": und,
    }


def bodies(F):
    """Edge-connected components of faces -> list of index lists (union-find)."""
    F = np.asarray(F)
    parent = list(range(len(F)))

    def find(x):
        while parent[x] != x:
            parent[x] = parent[parent[x]]
            x = parent[x]
        return x

    first = {}
    for i, f in enumerate(F.tolist()):
        a, b, c = f
        for x, y in ((a, b), (b, c), (c, a)):
            k = (x, y) if x < y else (y, x)
            if k in first:
                ra, rb = find(first[k]), find(i)
                if ra != rb:
                    parent[ra] = rb
            else:
                first[k] = i
    groups = {}
    for i in range(len(F)):
        groups.setdefault(find(i), []).append(i)
    return list(groups.values())


def vol6_int(Vi, F):
    """6 x signed volume for integer vertex array (python ints: no overflow)."""
    Vi = np.asarray(Vi).astype(object)
    F = np.asarray(F)
    A, B, C_ = Vi[F[:, 0]], Vi[F[:, 1]], Vi[F[:, 2]]
    d = (
        A[:, 0] * (B[:, 1] * C_[:, 2] - B[:, 2] * C_[:, 1])
        - A[:, 1] * (B[:, 0] * C_[:, 2] - B[:, 2] * C_[:, 0])
        + A[:, 2] * (B[:, 0] * C_[:, 1] - B[:, 1] * C_[:, 0])
    )
    return int(d.sum()) if len(d) else 0


def area_of(Vf, F):
    if len(F) == 0:
        return 0.0
    cr = np.cross(Vf[F[:, 1]] - Vf[F[:, 0]], Vf[F[:, 2]] - Vf[F[:, 0]])
    return float(np.linalg.norm(cr, axis=1).sum() / 2.0)


def face_areas(Vf, F):
    cr = np.cross(Vf[F[:, 1]] - Vf[F[:, 0]], Vf[F[:, 2]] - Vf[F[:, 0]])
    return np.linalg.norm(cr, axis=1) / 2.0


def scaled_int(Vf, scale):
    """Vf * scale as int64, or None when that is not an exact integer array."""
    S = np.asarray(Vf, dtype=np.float64) * scale
    R = np.rint(S)
    if not np.array_equal(S, R):
        return None
    return R.astype(np.int64)


def _icross(a, b):
    return np.stack(
        [a[..., 1] * b[..., 2] - a[..., 2] * b[..., 1], a[..., 2] * b[..., 0] - a[..., 0] * b[..., 2], a[..., 0] * b[..., 1] - a[..., 1] * b[..., 0]],
        axis=-1,
    )


def points_in_tris(P, T):
    """
    Exact closed containment of integer points P (k,3) in integer triangles T (k,3,3):
    coplanar and all three (unnormalised) barycentric weights >= 0.
    """
    P = np.asarray(P, dtype=np.int64)
    T = np.asarray(T, dtype=np.int64)
    N = _icross(T[:, 1] - T[:, 0], T[:, 2] - T[:, 0])
    copl = ((P - T[:, 0]) * N).sum(axis=1) == 0
    w0 = (N * _icross(T[:, 1] - P, T[:, 2] - P)).sum(axis=1)
    w1 = (N * _icross(T[:, 2] - P, T[:, 0] - P)).sum(axis=1)
    w2 = (N * _icross(T[:, 0] - P, T[:, 1] - P)).sum(axis=1)
    return copl & (w0 >= 0) & (w1 >= 0) & (w2 >= 0)


def tris_in_tris(Cc, Tp):
    """children (k,3,3) inside parents (k,3,3), same orientation, exact."""
    inside = np.ones(len(Cc), dtype=bool)
    for j in range(3):
        inside &= points_in_tris(Cc[:, j], Tp)
    Nc = _icross(Cc[:, 1] - Cc[:, 0], Cc[:, 2] - Cc[:, 0])
    Np = _icross(Tp[:, 1] - Tp[:, 0], Tp[:, 2] - Tp[:, 0])
    same = (Nc * Np).sum(axis=1) > 0
    return inside, same


def oriented_key(F):
    """Faces rotated so that the smallest index comes first (orientation kept), sorted rows."""
    F = np.asarray(F)
    k = F.argmin(axis=1)
    R = np.stack([F[np.arange(len(F)), (k + j) % 3] for j in range(3)], axis=1)
    return R[np.lexsort(R.T[::-1])]


def unordered_key(F):
    S = np.sort(np.asarray(F), axis=1)
    return S[np.lexsort(S.T[::-1])]


def fresh_normals_ok(m, min_cross=0.0):
    """
    m.face_normals agree with the geometry of m.faces (unit cross products).  Faces whose cross
    product is not above `min_cross` are not judged (small units: below tol.zero the library
    documents a zero normal).
    """
    Vf = np.asarray(m.vertices, dtype=np.float64)
    F = np.asarray(m.faces)
    cr = np.cross(Vf[F[:, 1]] - Vf[F[:, 0]], Vf[F[:, 2]] - Vf[F[:, 0]])
    ln = np.linalg.norm(cr, axis=1)
    good = ln > min_cross
    want = cr[good] / ln[good][:, None]
    got = np.asarray(m.face_normals)
    if got.shape != (len(F), 3):
        return False, "shape %s" % (got.shape,)
    err = np.abs(got[good] - want).max() if good.any() else 0.0
    return bool(err < 1e-9), float(err)


# ---------------------------------------------------------------------------- meshes

CLASS = {
    "box": "convex", "octahedron": "convex", "tetra": "convex", "hull": "convex",
    "frame_torus": "genus1", "l_prism": "nonconvex", "polycube": "nonconvex",
    "multibody_disjoint": "multibody", "nested_cavity": "cavity", "overlapping_shells": "overlapping",
    "open_grid": "open", "disc": "open", "open_hull": "open",
    "touching_bodies": "touching_bodies", "punctured": "open", "single_triangle": "open",
}


def disc(n=6, apex=(0, 0, 2)):
    """Fan of n triangles around one interior vertex: open, no interior edge joins two boundary vertices."""
    ring = [(4, 0), (3, 3), (0, 4), (-3, 3), (-4, 0), (-3, -3), (0, -4), (3, -3)][:n]
    V = np.array([list(apex)] + [[x, y, (x * y) % 3] for x, y in ring], dtype=np.int64)
    F = np.array([[0, 1 + i, 1 + (i + 1) % n] for i in range(n)], dtype=np.int64)
    return V, F


def lifted_grid(rng, nx, ny):
    V, F = G.open_grid(nx, ny)
    V = V.copy()
    V[:, 2] = V[:, 0] * int(rng.integers(-2, 3)) + V[:, 1] * int(rng.integers(-2, 3)) + (V[:, 0] * V[:, 1]) % 2 + 5
    return V, F


def touching_bodies(rng):
    """
    Two or three solids that share exactly ONE vertex index (parts touching in a corner after
    merge_vertices): every edge still has two faces, the bodies (face-connected groups) are the
    parts, the vertex graph is connected.  No two vertex rows coincide.
    """
    for _ in range(50):
        pool = [G.tetra(rng), G.box_int(tuple(int(v) for v in rng.integers(1, 4, size=3))), G.hull_int(rng, int(rng.integers(5, 9))),
                G.octahedron(), G.box_int((2, 2, 2))]
        order = rng.permutation(len(pool))[: int(rng.integers(2, 4))]
        V, F = pool[int(order[0])]
        V, F = V.copy(), F.copy()
        for o in order[1:]:
            Vb, Fb = pool[int(o)]
            a = int(rng.integers(len(V)))
            b = int(rng.integers(len(Vb)))
            Vb = Vb + (V[a] - Vb[b])
            # row b of the second part is dropped, its faces use row a of the first
            remap = np.arange(len(Vb)) + len(V)
            remap[b + 1:] -= 1
            remap[b] = a
            V = np.vstack([V, np.delete(Vb, b, axis=0)])
            F = np.vstack([F, remap[Fb]])
        if len(np.unique(V, axis=0)) == len(V) and np.abs(V).max() <= 64:
            return V.astype(np.int64), F.astype(np.int64)
    return G.concat([G.box_int((2, 2, 2)), G.box_int((1, 1, 1), (5, 5, 5))])


def punctured(rng, V, F, pinch=False):
    """
    The mesh after a subset of its faces was removed (vertices compacted).  pinch=True removes two
    faces that share a vertex but no edge first: that vertex keeps four boundary edges.
    Returns (V, F) or None.
    """
    n = len(F)
    drop = np.zeros(n, dtype=bool)
    if pinch:
        vf = {}
        for i, f in enumerate(F.tolist()):
            for v in f:
                vf.setdefault(v, []).append(i)
        cands = [v for v, fs in vf.items() if len(fs) >= 4]
        if not cands:
            return None
        v = cands[int(rng.integers(len(cands)))]
        fs = vf[v]
        pairs = [(i, j) for i in fs for j in fs if i < j and len(set(F[i].tolist()) & set(F[j].tolist())) == 1]
        if not pairs:
            return None
        i, j = pairs[int(rng.integers(len(pairs)))]
        drop[[i, j]] = True
        drop |= rng.random(n) < 0.05
    else:
        drop = rng.random(n) < float(rng.choice([0.08, 0.2, 0.35]))
    if drop.all() or (~drop).sum() < 2 or not drop.any():
        return None
    Fk = F[~drop]
    used, inv = np.unique(Fk, return_inverse=True)
    return V[used], inv.reshape(-1, 3).astype(np.int64)


def pinched_boundary(F):
    """Some vertex has more than two boundary edges (two open fans meet in it)."""
    cnt = {}
    for e, c in topo(F)["edges"].items():
        if c == 1:
            cnt[e[0]] = cnt.get(e[0], 0) + 1
            cnt[e[1]] = cnt.get(e[1], 0) + 1
    return any(c > 2 for c in cnt.values())


def with_unreferenced(rng, V, F):
    """One extra vertex row that no face uses, inserted at a random position."""
    p = int(rng.integers(0, len(V) + 1))
    row = rng.integers(-9, 10, size=(1, 3)).astype(np.int64)
    V2 = np.vstack([V[:p], row, V[p:]])
    F2 = F + (F >= p)
    return V2, F2.astype(np.int64)


def random_closed(rng):
    r = int(rng.integers(0, 9))
    if r == 8:
        return ("touching_bodies",) + touching_bodies(rng)
    if r == 0:
        return ("tetra",) + G.tetra(rng)
    if r in (1, 2):
        return ("hull",) + G.hull_int(rng, int(rng.integers(5, 13)))
    if r == 3:
        return ("polycube",) + G.random_polycube(rng, int(rng.integers(2, 7)))
    if r == 4:
        a = G.hull_int(rng, 7) if rng.integers(2) else G.frame_torus((1, 1, 1))  # (64 faces: a long first body)
        b = G.tetra(rng)
        c = G.box_int((1, 2, 1), (0, 40, 0))
        parts = [a, (G.translate(b[0], [30, 0, 0]), b[1])] + ([c] if rng.integers(2) else [])
        return ("multibody_disjoint",) + G.concat(parts)
    if r == 5:
        a = G.box_int((6, 6, 6), (-3, -3, -3))
        b = G.invert(*G.box_int((2, 2, 2), (-1, -1, -1)))
        return ("nested_cavity",) + G.concat([a, b])
    if r == 6:
        return ("overlapping_shells",) + G.concat([G.box_int((4, 4, 4)), G.box_int((4, 4, 4), (2, 2, 2))])
    return ("frame_torus",) + G.frame_torus(tuple(int(v) for v in rng.integers(1, 4, size=3)))


# ---------------------------------------------------------------------------- case plumbing


def make_case(op, tag, V, F, **opts):
    return {"op": op, "mesh": {"tag": tag, "V": np.asarray(V).tolist(), "F": np.asarray(F).tolist()}, "opts": opts}


class Ctx:
    def __init__(self, case):
        self.case = case
        self.op = case["op"]
        self.tag = case["mesh"]["tag"]
        base = self.tag.split("+")[0]
        # "<tag>+unref": the vertex array has a row no face uses
        self.unref = self.tag.endswith("+unref")
        self.mclass = CLASS.get(base, base)
        self.V = np.array(case["mesh"]["V"], dtype=np.int64).reshape(-1, 3)
        self.F = np.array(case["mesh"]["F"], dtype=np.int64).reshape(-1, 3)
        self.Vf = self.V.astype(np.float64)
        self.opts = case["opts"]

    def key(self, sym, **feat):
        parts = ["op=%s" % self.op]
        for k, v in feat.items():
            parts.append("%s=%s" % (k, v))
        if self.unref:
            parts.append("vertices=unreferenced")
        if not (feat.get("boundary_graph") == "extra_cycles" or feat.get("other_diagonal") == "taken" or self.unref
                or feat.get("boundary") == "pinched" or feat.get("scale") == SCALE_TINY or "faces_left" in feat):
            # (for holes whose rims span further short cycles the rim structure is the input class;
            # likewise an unreferenced vertex, a pinched boundary vertex, faces under tol.zero)
            parts.append("mesh=%s" % self.mclass)
        parts.append("sym=%s" % sym)
        return " ".join(parts)


def _viol(run, ctx, sym, what, feat, **obs):
    case = dict(ctx.case)
    case["observed"] = obs
    run.violation(ctx.key(sym, **feat), what, case)


# ---------------------------------------------------------------------------- fix_normals


# cached properties a caller may have evaluated before asking for the repair
WARM_READS = ("body_count", "is_convex", "is_watertight", "is_winding_consistent", "volume", "is_volume", "euler_number",
              "face_adjacency", "area", "center_mass", "edges_unique", "vertex_neighbors", "face_adjacency_convex",
              "triangles_cross", "bounds", "vertex_normals")


def flip_class(F, mask, comps):
    n = int(mask.sum())
    if n == 0:
        return "none"
    if n == len(F):
        return "all"
    whole = all(mask[c].all() or not mask[c].any() for c in comps)
    if whole:
        return "whole_bodies"
    return "partial"


def op_fix_normals(run, ctx):
    """opts: flip = list of face indices re-wound; route; cached = read face_normals first."""
    from trimesh import repair

    flip = np.zeros(len(ctx.F), dtype=bool)
    flip[np.array(ctx.opts["flip"], dtype=np.int64)] = True
    route = ctx.opts["route"]
    cached = bool(ctx.opts.get("cached"))
    Fin = ctx.F.copy()
    Fin[flip] = Fin[flip][:, ::-1]
    comps = bodies(ctx.F)
    feat = {"route": route, "flips": flip_class(ctx.F, flip, [np.array(c) for c in comps]),
            "normals_cached": "yes" if cached else "no"}
    # `scale`: the same solid in small units (a 2 mm part in a model in metres has |volume| < 1e-8):
    # the sign of a body's volume does not depend on the unit
    scale = float(ctx.opts.get("scale", 1.0))
    feat["scale"] = "unit" if scale == 1.0 else "%g" % scale
    # `read_before`: a cached property the caller evaluated on the re-wound mesh before asking for the
    # repair (what was cached - a body count, a volume, an adjacency - must not steer the repair);
    # `history` = reads_then_rewound: the mesh was built well wound, queried, re-wound by the caller
    # (faces assigned / edited in place) and then repaired
    read_before = ctx.opts.get("read_before")
    history = ctx.opts.get("history")
    if read_before:
        feat["read_before"] = "all" if read_before == "*" else read_before  # ("*": every property of WARM_READS, in that order)
    if history:
        feat["history"] = history
    Vin = np.asarray(ctx.V, dtype=np.float64) * scale
    if history:
        m = G.to_trimesh(Vin, ctx.F)
        for name in WARM_READS:
            getattr(m, name)
        if history == "reads_then_faces_assigned":
            m.faces = Fin.copy()
        else:
            idx = np.nonzero(flip)[0]
            if len(idx):
                m.faces[idx] = np.asarray(m.faces)[idx][:, ::-1]
        if not np.array_equal(np.asarray(m.faces), Fin):
            run.skip("fix_normals: the caller's re-winding did not arrive in mesh.faces (judged elsewhere)")
            return
    else:
        m = G.to_trimesh(Vin, Fin)
    before_V = np.asarray(m.vertices).copy()
    if cached:
        m.face_normals  # noqa: populate the cache so that a stale copy can be seen afterwards
    if read_before:
        try:
            for name in (WARM_READS if read_before == "*" else (read_before,)):
                getattr(m, name)
        except Exception as e:  # noqa
            run.skip("fix_normals: reading %s raised %s (judged elsewhere)" % (read_before, type(e).__name__))
            return
        run.state("fix_normals_read_before_x_route", (read_before, route, ctx.mclass))
    try:
        if route == "method":
            m.fix_normals()
        elif route == "function:multibody":
            repair.fix_normals(m, multibody=True)
        elif route == "process:validate":
            # the documented way to get a repaired mesh: the same normal repair, reached through
            # process(validate=True) (no duplicate / degenerate face, no duplicate vertex in these
            # solids, so nothing but the winding may change)
            m.process(validate=True)
        elif route == "constructor:validate":
            import trimesh

            m = trimesh.Trimesh(vertices=before_V.copy(), faces=Fin.copy(), validate=True)
        else:
            repair.fix_normals(m, multibody=False)
    except Exception as e:  # noqa
        _viol(run, ctx, "raised:" + type(e).__name__, "fix_normals raised on a re-wound watertight solid", feat, error=repr(e)[:300])
        return
    run.state("fix_normals_flips_x_route", (feat["flips"], route, ctx.mclass))
    Fout = np.asarray(m.faces)
    Vout = np.asarray(m.vertices)
    if Vout.shape != before_V.shape or not np.array_equal(Vout, before_V):
        _viol(run, ctx, "vertices_changed", "fix_normals moved / reordered vertices", feat)
        return
    if Fout.shape != Fin.shape or not np.array_equal(unordered_key(Fout), unordered_key(Fin)):
        _viol(run, ctx, "triangle_set_changed", "fix_normals changed the set of triangles", feat,
              faces_after=Fout.tolist() if len(Fout) <= 16 else None)
        return
    t = topo(Fout)
    if not t["consistent"] or not t["watertight"]:
        _viol(run, ctx, "winding_inconsistent", "winding still inconsistent after fix_normals", feat,
              faces_after=Fout.tolist() if len(Fout) <= 16 else None)
        return
    bad = [c for c in bodies(Fout) if vol6_int(ctx.V, Fout[np.array(c)]) <= 0]
    if bad:
        # bodies sharing a vertex: the input class and the route are the mechanism (which faces
        # were re-wound, cached normals and the unit do not matter) - one key per route
        kfeat = {"route": route} if ctx.mclass == "touching_bodies" else feat
        if ctx.mclass == "touching_bodies":
            kfeat.update({k: feat[k] for k in ("read_before", "history") if k in feat})
        _viol(run, ctx, "negative_body", "a body has non-positive volume after fix_normals", kfeat,
              n_bodies=len(comps), n_bad=len(bad), flips=feat["flips"], normals_cached=feat["normals_cached"], scale=feat["scale"])
        return
    okn, err = fresh_normals_ok(m)
    if not okn:
        _viol(run, ctx, "stale_normals", "face_normals do not match the re-wound faces after fix_normals", feat, err=err)


# ---------------------------------------------------------------------------- fill_holes


def hole_plan(rng, V, F, n_single, n_pair, want_shared=None, around_face=False):
    """
    Choose faces to delete so that the deleted set splits into edge-connected groups of one
    triangle (triangle hole) or two triangles (quad hole).  Returns list of groups or None.
    """
    t = topo(F)
    adj = {}
    first = {}
    for i, f in enumerate(F.tolist()):
        a, b, c = f
        for x, y in ((a, b), (b, c), (c, a)):
            k = (x, y) if x < y else (y, x)
            if k in first:
                adj.setdefault(i, set()).add(first[k])
                adj.setdefault(first[k], set()).add(i)
            else:
                first[k] = i
    nF = len(F)
    deleted = set()
    groups = []
    und = t["edges"]

    def interior(i):
        a, b, c = F[i].tolist()
        return all(und[(x, y) if x < y else (y, x)] == 2 for x, y in ((a, b), (b, c), (c, a)))

    def free(i):
        return i not in deleted and not (adj.get(i, set()) & deleted) and interior(i)

    if around_face:
        c = int(rng.integers(nF))
        nb = sorted(adj.get(c, ()))
        if len(nb) == 3 and all(interior(i) for i in nb) and not any(nb[j] in adj.get(nb[i], ()) for i in range(3) for j in range(3) if i != j):
            for i in nb:
                deleted.add(i)
                groups.append([i])
        else:
            return None
    order = [int(i) for i in rng.permutation(nF)]
    for i in order:
        if len([g for g in groups if len(g) == 2]) >= n_pair:
            break
        if not free(i):
            continue
        cands = [j for j in adj.get(i, ()) if j not in deleted and interior(j) and not ((adj.get(j, set()) - {i}) & deleted)]
        if not cands:
            continue
        j = cands[int(rng.integers(len(cands)))]
        # the quad's own neighbours must stay
        deleted.update((i, j))
        groups.append([i, j])
    for i in order:
        if len([g for g in groups if len(g) == 1]) >= n_single + (3 if around_face else 0):
            break
        if free(i):
            deleted.add(i)
            groups.append([i])
    if not groups or nF - len(deleted) < 3:
        return None
    # every group must be isolated from the others by edges
    for g in groups:
        for i in g:
            if (adj.get(i, set()) & deleted) - set(g):
                return None
    return groups


def hole_features(V, F, groups):
    kinds = set()
    verts_seen = {}
    shared = False
    keep = np.ones(len(F), dtype=bool)
    keep[[i for g in groups for i in g]] = False
    remaining = topo(F[keep])["edges"]
    diag_taken = False
    for g in groups:
        vs = set(F[g].ravel().tolist())
        for v in vs:
            if v in verts_seen:
                shared = True
            verts_seen[v] = 1
        if len(g) == 1:
            kinds.add("tri")
        else:
            P = V[sorted(vs)]
            d = G._det3(P[1] - P[0], P[2] - P[0], P[3] - P[0]) if len(P) == 4 else 1
            kinds.add("quad_planar" if d == 0 else "quad_nonplanar")
            # the diagonal the two removed triangles did NOT share: is it an edge of what is left?
            common = set(F[g[0]].tolist()) & set(F[g[1]].tolist())
            other = tuple(sorted(vs - common))
            if len(other) == 2 and remaining.get(other, 0) > 0:
                diag_taken = True
    kind = next(iter(kinds)) if len(kinds) == 1 else "mixed(" + "+".join(sorted(kinds)) + ")"
    # boundary graph of the mesh with the holes: does its cycle space consist of the holes
    # (plus the loops that were already open) or does it contain further short cycles?
    mu = _cyclomatic([e for e, c in topo(F[keep])["edges"].items() if c == 1])
    mu0 = _cyclomatic([e for e, c in topo(F)["edges"].items() if c == 1])
    extra = "holes_only" if mu == len(groups) + mu0 else "extra_cycles"
    if extra == "extra_cycles":
        # one mechanism (cycle basis of the rim graph is not the set of holes): coarse hole kind only
        kind = "tri" if kinds == {"tri"} else ("quad" if "tri" not in kinds else "mixed")
        return {"holes": kind, "boundary_graph": extra}
    if diag_taken:
        # one mechanism (the quad is split along a diagonal that is already a mesh edge)
        return {"holes": "quad" if "tri" not in kinds else "mixed", "other_diagonal": "taken"}
    return {"holes": kind, "shared_vertices": "yes" if shared else "no", "boundary_graph": extra}


def _cyclomatic(edges):
    nodes = set(v for e in edges for v in e)
    par = {v: v for v in nodes}

    def find(x):
        while par[x] != x:
            par[x] = par[par[x]]
            x = par[x]
        return x

    for a, b in edges:
        par[find(a)] = find(b)
    return len(edges) - len(nodes) + len(set(find(v) for v in nodes))


def op_fill_holes(run, ctx):
    """opts: groups = list of lists of deleted face indices; cached; route."""
    from trimesh import repair

    groups = [list(map(int, g)) for g in ctx.opts["groups"]]
    cached = bool(ctx.opts.get("cached"))
    route = ctx.opts.get("route", "method")
    dele = sorted(i for g in groups for i in g)
    keep = np.ones(len(ctx.F), dtype=bool)
    keep[dele] = False
    Fin = ctx.F[keep]
    feat = hole_features(ctx.V, ctx.F, groups)
    fine_kind = feat["holes"]
    if len(Fin) < 3:
        # two faces are all that is left (their rim is one quad whose other diagonal is necessarily
        # their common edge): the number of faces is the input class
        feat = {"holes": feat["holes"], "faces_left": str(len(Fin))}
    # `scale`: the same mesh in small units.  Whether a hole gets closed is a topological result; it
    # may not depend on the unit.  1e-3: control; 1e-5: every triangle area is below tol.merge
    # (1e-8, a length compared with an area); 1e-7: every cross product is at / below tol.zero
    # (1e-13) while the vertices are still >= 10 x tol.merge apart (distinct for the library,
    # faces kept by nondegenerate_faces).  The oracle keeps judging the integer mesh.
    scale = float(ctx.opts.get("scale", 1.0))
    if scale != 1.0:
        if "%g" % scale == SCALE_TINY:
            kinds = feat["holes"]
            feat = {"holes": "tri" if kinds == "tri" else ("quad" if kinds.startswith("quad") else "mixed"), "scale": SCALE_TINY}
        else:
            feat["scale"] = "%g" % scale
    Vin = ctx.Vf * scale
    run.state("fill_holes_input", tuple(feat.values()) + (ctx.mclass,))
    t_orig = topo(ctx.F)
    if ctx.opts.get("arrival") == "inverted_warm":
        # the mesh arrives at these faces through a history: built inside out, queried (edges,
        # adjacency, watertightness cached), then turned right side out by the library's own
        # invert() - what was cached for the reversed faces must not steer the hole filling
        m = G.to_trimesh(Vin, np.ascontiguousarray(Fin[:, ::-1]))
        _ = m.is_watertight, m.edges, m.face_adjacency, m.is_winding_consistent
        m.invert()
        if not np.array_equal(np.asarray(m.faces), Fin):
            run.skip("fill_holes: invert() did not return the faces (judged elsewhere)")
            return
        run.count("fill_holes_after_query_and_invert")
    else:
        m = G.to_trimesh(Vin, Fin)
    if cached:
        m.face_normals  # noqa
    try:
        ret = m.fill_holes() if route == "method" else repair.fill_holes(m)
    except Exception as e:  # noqa
        _viol(run, ctx, "raised:" + type(e).__name__, "fill_holes raised on a mesh with triangle / quad holes", feat, error=repr(e)[:300])
        return
    Fout = np.asarray(m.faces)
    Vout = np.asarray(m.vertices)
    if Vout.shape != Vin.shape or not np.array_equal(Vout, Vin):
        _viol(run, ctx, "vertices_changed", "fill_holes changed the vertices although triangle / quad holes need none", feat)
        return
    if len(Fout) < len(Fin) or not np.array_equal(Fout[: len(Fin)], Fin):
        _viol(run, ctx, "kept_faces_changed", "fill_holes altered the faces that were already there", feat)
        return
    t = topo(Fout)
    if t_orig["watertight"]:
        if not t["watertight"]:
            _viol(run, ctx, "not_closed", "fill_holes left the mesh open although every hole is a triangle or a quad", feat,
                  n_holes=len(groups), faces_added=int(len(Fout) - len(Fin)), faces_missing=len(dele), returned=bool(ret),
                  boundary_edges=t["boundary"], nonmanifold_edges=t["nonmanifold"])
            return
        if not t["consistent"]:
            _viol(run, ctx, "winding", "faces added by fill_holes are wound against their neighbours", feat)
            return
        if not bool(ret):
            _viol(run, ctx, "return_value", "fill_holes returned False although the result is watertight", feat)
        bad = [c for c in bodies(Fout) if vol6_int(ctx.V, Fout[np.array(c)]) <= 0]
        body_bad_before = [c for c in bodies(ctx.F) if vol6_int(ctx.V, ctx.F[np.array(c)]) <= 0]
        if bad and not body_bad_before:
            _viol(run, ctx, "negative_body", "a body has non-positive volume after fill_holes", feat)
            return
    else:
        # open input: every deleted group's boundary edges must be interior again
        und = t["edges"]
        for g in groups:
            cnt = {}
            for i in g:
                a, b, c = ctx.F[i].tolist()
                for x, y in ((a, b), (b, c), (c, a)):
                    k = (x, y) if x < y else (y, x)
                    cnt[k] = cnt.get(k, 0) + 1
            rim = [k for k, v in cnt.items() if v == 1 and t_orig["edges"].get(k, 0) == 2]
            if any(und.get(k, 0) != 2 for k in rim):
                _viol(run, ctx, "not_closed", "fill_holes left a triangle / quad hole of an open mesh unfilled", feat)
                return
        if not t["consistent"]:
            _viol(run, ctx, "winding", "faces added by fill_holes are wound against their neighbours", feat)
            return
    # exact restoration
    if len(Fout) != len(ctx.F):
        _viol(run, ctx, "face_count", "fill_holes added a number of faces different from the number removed", feat,
              added=int(len(Fout) - len(Fin)), removed=len(dele))
        return
    if all(len(g) == 1 for g in groups):
        if not np.array_equal(oriented_key(Fout), oriented_key(ctx.F)):
            _viol(run, ctx, "triangles_not_restored", "filled triangle holes do not restore the original oriented triangles", feat)
            return
    if fine_kind in ("tri", "quad_planar", "mixed(quad_planar+tri)"):
        if vol6_int(ctx.V, Fout) != vol6_int(ctx.V, ctx.F):
            _viol(run, ctx, "volume_not_restored", "volume differs from the original after filling triangle / planar quad holes", feat,
                  got6=vol6_int(ctx.V, Fout), want6=vol6_int(ctx.V, ctx.F))
            return
    # (small units: a face whose cross product is not 10 x above tol.zero has a documented zero normal)
    okn, err = fresh_normals_ok(m, min_cross=0.0 if scale == 1.0 else 1e-12)
    if not okn:
        _viol(run, ctx, "stale_normals", "face_normals do not match the faces after fill_holes", dict(feat, normals_cached="yes" if cached else "no"), err=err)


# ---------------------------------------------------------------------------- subdivide

_SAMPLE_W = sorted(set(itertools.permutations((1, 2, 4))) | set(itertools.permutations((1, 1, 5))) | set(itertools.permutations((3, 3, 1))))


def op_subdivide(run, ctx):
    """opts: subset = None | list of face indices; form = 'list'|'array'|'mask'; route."""
    from trimesh import remesh

    sub = ctx.opts.get("subset")
    form = ctx.opts.get("form", "array")
    route = ctx.opts.get("route", "function")
    nF = len(ctx.F)
    feat = {"route": route, "faces": "all" if sub is None else "subset:" + form}
    if sub is None:
        arg = None
        chosen = np.arange(nF)
    else:
        chosen = np.array(sorted(set(int(i) for i in sub)), dtype=np.int64)
        if form == "mask":
            arg = np.zeros(nF, dtype=bool)
            arg[chosen] = True
        elif form == "list":
            arg = [int(i) for i in sub]
        else:
            arg = np.array(sub, dtype=np.int64)
    index = None
    try:
        if route == "method":
            r = G.to_trimesh(ctx.V, ctx.F).subdivide(face_index=arg)
            NV, NF_ = np.asarray(r.vertices), np.asarray(r.faces)
        else:
            NV, NF_, index = remesh.subdivide(ctx.Vf.copy(), ctx.F.copy(), face_index=arg, return_index=True)
            NV, NF_ = np.asarray(NV), np.asarray(NF_)
    except Exception as e:  # noqa
        _viol(run, ctx, "raised:" + type(e).__name__, "subdivide raised", feat, error=repr(e)[:300], n_subset=None if sub is None else len(chosen))
        return
    nV = len(ctx.V)
    if len(NV) < nV or not np.array_equal(NV[:nV], ctx.Vf):
        _viol(run, ctx, "original_vertices", "original vertices are not an unmoved prefix of the subdivided vertices", feat)
        return
    if len(NF_) != nF + 3 * len(chosen):
        _viol(run, ctx, "face_count", "subdivision did not replace each chosen face by four", feat,
              got=int(len(NF_)), want=int(nF + 3 * len(chosen)))
        return
    if len(NF_) and (NF_.min() < 0 or NF_.max() >= len(NV)):
        _viol(run, ctx, "bad_index", "subdivided faces index outside the vertices", feat)
        return
    V2 = scaled_int(NV, 2)
    if V2 is None:
        _viol(run, ctx, "not_midpoints", "new vertices are not edge midpoints (coordinates not multiples of 1/2)", feat)
        return
    # area
    a0, a1 = area_of(ctx.Vf, ctx.F), area_of(NV, NF_)
    if abs(a0 - a1) > 1e-11 * max(1.0, a0):
        _viol(run, ctx, "area", "area changed under subdivision", feat, before=a0, after=a1)
        return
    # untouched faces kept verbatim (as a multiset)
    rest = np.ones(nF, dtype=bool)
    rest[chosen] = False
    if rest.any():
        have = {}
        for f in NF_.tolist():
            have[tuple(f)] = have.get(tuple(f), 0) + 1
        for f in ctx.F[rest].tolist():
            if have.get(tuple(f), 0) == 0:
                _viol(run, ctx, "untouched_face_lost", "a face outside face_index is missing from the result", feat)
                return
            have[tuple(f)] -= 1
    # children: inside the parent, same orientation, tiling it
    T2 = V2[NF_]
    P2 = (ctx.V * 2)[ctx.F]
    if index is not None:
        if sorted(int(k) for k in index.keys()) != chosen.tolist():
            _viol(run, ctx, "return_index_keys", "return_index does not list exactly the subdivided faces", feat)
            return
        par, kid = [], []
        for k, v in index.items():
            v = np.asarray(v).ravel()
            if len(v) != 4 or v.min() < 0 or v.max() >= len(NF_):
                _viol(run, ctx, "return_index_children", "return_index does not name four valid children", feat, children=v.tolist())
                return
            par += [int(k)] * 4
            kid += v.tolist()
        if len(set(kid)) != len(kid):
            _viol(run, ctx, "return_index_children", "return_index names a child twice", feat)
            return
        par, kid = np.array(par, dtype=np.int64), np.array(kid, dtype=np.int64)
        inside, same = tris_in_tris(T2[kid], P2[par])
        if not inside.all():
            _viol(run, ctx, "child_outside_parent", "a child named by return_index does not lie inside its parent", feat,
                  parent=int(par[np.argmin(inside)]))
            return
        if not same.all():
            _viol(run, ctx, "child_orientation", "a child is wound against its parent", feat)
            return
        # tiling: 12 generic interior points of every parent are covered by exactly one child
        P14 = (ctx.V * 14)[ctx.F]  # parents scaled by 14
        T14 = T2 * 7
        for k in chosen.tolist():
            kids = kid[par == k]
            pts = np.array([(w[0] * P14[k, 0] + w[1] * P14[k, 1] + w[2] * P14[k, 2]) // 7 for w in _SAMPLE_W], dtype=np.int64)
            cover = np.zeros(len(pts), dtype=int)
            for c in kids:
                cover += points_in_tris(pts, np.repeat(T14[c][None], len(pts), axis=0))
            if not (cover == 1).all():
                _viol(run, ctx, "children_do_not_tile", "the four children do not tile their parent (gap or overlap)", feat,
                      parent=int(k), cover=cover.tolist())
                return
    else:
        # method route: every new face lies inside some original face with the same orientation
        new = T2
        ok_face = np.zeros(len(new), dtype=bool)
        for k in range(nF):
            Pk = np.repeat(P2[k][None], len(new), axis=0)
            inside, same = tris_in_tris(new, Pk)
            ok_face |= inside & same
        if not ok_face.all():
            _viol(run, ctx, "face_off_surface", "a face of the subdivided mesh does not lie on an original face", feat)
            return
    # global invariants
    if vol6_int(V2, NF_) != 8 * vol6_int(ctx.V, ctx.F):
        _viol(run, ctx, "volume", "signed volume changed under subdivision", feat,
              got=vol6_int(V2, NF_) / 48.0, want=vol6_int(ctx.V, ctx.F) / 6.0)
        return
    if sub is None:
        t0, t1 = topo(ctx.F), topo(NF_)
        for name in ("watertight", "consistent", "euler"):
            if t0[name] != t1[name]:
                _viol(run, ctx, name + "_changed", "%s changed under subdivision of all faces" % name, feat,
                      before=t0[name], after=t1[name])
                return
        if t1["boundary"] != 2 * t0["boundary"] or t1["nonmanifold"] != 2 * t0["nonmanifold"]:
            _viol(run, ctx, "boundary_changed", "boundary / non-manifold edge count is not doubled by subdivision", feat)


def op_subdivide_to_size(run, ctx):
    """opts: max_edge (float), max_iter, route."""
    from trimesh import remesh

    max_edge = float(ctx.opts["max_edge"])
    max_iter = int(ctx.opts["max_iter"])
    route = ctx.opts.get("route", "function")
    # `scale`: the same integer mesh handed over in small units (V * scale, max_edge in those units).
    # "no edge longer than the bound" holds for every bound: also for bounds around / below tol.merge
    # (1e-8), where the result's vertices are closer than the distance at which vertices get welded.
    # The input triangles stay >= 10 x above the documented resolution (cross products >= 1e-12).
    scale = float(ctx.opts.get("scale", 1.0))
    Vin = ctx.Vf * scale
    E = Vin[ctx.F[:, [0, 1, 2]]] - Vin[ctx.F[:, [1, 2, 0]]]
    elen = np.linalg.norm(E, axis=2)
    longest = elen.max(axis=1)
    need_f = np.where(longest > max_edge, np.ceil(np.log2(longest / max_edge)), 0).astype(int)
    # stay away from the threshold: no halved edge within 1e-9 of the bound
    for j in range(0, 12):
        if (np.abs(elen / 2.0**j - max_edge) < 1e-9 * max_edge).any():
            run.skip("subdivide_to_size bound coincides with a halved edge length")
            return
    need = int(need_f.max())
    feat = {"route": route, "cap": "sufficient" if need <= max_iter else "too_small"}
    if scale != 1.0:
        feat["units"] = "bound_near_tol_merge" if max_edge < 2e-8 else "small"
    try:
        if route == "method":
            r, idx = G.to_trimesh(Vin, ctx.F).subdivide_to_size(max_edge, max_iter=max_iter, return_index=True)
            NV, NF_ = np.asarray(r.vertices), np.asarray(r.faces)
        else:
            NV, NF_, idx = remesh.subdivide_to_size(Vin.copy(), ctx.F.copy(), max_edge, max_iter=max_iter, return_index=True)
        raised = None
    except ValueError as e:
        raised = e
    except Exception as e:  # noqa
        _viol(run, ctx, "raised:" + type(e).__name__, "subdivide_to_size raised an unexpected exception", feat, error=repr(e)[:300])
        return
    run.state("to_size_iterations_needed_x_cap", (min(need, 6), feat["cap"]))
    if need > max_iter:
        if raised is None:
            _viol(run, ctx, "no_refusal", "subdivide_to_size returned although max_iter halvings cannot reach the bound", feat,
                  need=need, max_iter=max_iter)
        else:
            run.count("to_size_refusals_expected")
        return
    if raised is not None:
        _viol(run, ctx, "raised:ValueError", "subdivide_to_size refused although max_iter halvings suffice", feat,
              need=need, max_iter=max_iter, error=repr(raised)[:200])
        return
    NV, NF_, idx = np.asarray(NV, dtype=np.float64), np.asarray(NF_), np.asarray(idx)
    if len(idx) != len(NF_) or (len(idx) and (idx.min() < 0 or idx.max() >= len(ctx.F))):
        _viol(run, ctx, "return_index_shape", "return_index is not one original face per new face", feat)
        return
    T = NV[NF_]
    el = np.linalg.norm(T - T[:, [1, 2, 0]], axis=2)
    if el.max() > max_edge * (1 + 1e-12):
        _viol(run, ctx, "edge_too_long", "an edge longer than the bound survives subdivide_to_size", feat,
              longest=float(el.max()), bound=max_edge)
        return
    run.state("to_size_units", (feat.get("units", "unit"), route, ctx.mclass))
    sc2 = 2 ** max(need, 0)
    if scale == 1.0:
        Vs = scaled_int(NV, sc2)
    else:
        # back to the integer mesh: iterated midpoints of V * scale are dyadic points of V up to rounding
        X = NV / scale * sc2
        Vs = np.rint(X)
        Vs = Vs.astype(np.int64) if np.abs(X - Vs).max() < 1e-6 else None
    if Vs is None:
        _viol(run, ctx, "not_midpoints", "vertices are not iterated edge midpoints", feat)
        return
    scale_units, scale = scale, sc2
    inside, same = tris_in_tris(Vs[NF_], (ctx.V * scale)[ctx.F][idx])
    if not inside.all():
        _viol(run, ctx, "child_outside_named_face", "a new face does not lie on the original face return_index names", feat,
              n_bad=int((~inside).sum()))
        return
    if not same.all():
        _viol(run, ctx, "child_orientation", "a new face is wound against the face it came from", feat)
        return
    fa = face_areas(NV, NF_)
    per = np.bincount(idx, weights=fa, minlength=len(ctx.F))
    want = face_areas(Vin, ctx.F)
    if np.abs(per - want).max() > (1e-10 * max(1.0, want.max()) if scale_units == 1.0 else 1e-9 * want.max()):
        _viol(run, ctx, "area_per_face", "children named for an original face do not add up to its area", feat,
              worst=float(np.abs(per - want).max()))
        return
    if vol6_int(Vs, NF_) != scale**3 * vol6_int(ctx.V, ctx.F):
        _viol(run, ctx, "volume", "signed volume changed under subdivide_to_size", feat)
        return
    if route == "method":
        # the two entry points: the method returns the triangles the function returns
        try:
            RV, RF, ridx = remesh.subdivide_to_size(Vin.copy(), ctx.F.copy(), max_edge, max_iter=max_iter, return_index=True)
        except Exception:  # noqa
            return  # (the function route is judged by its own cases)
        RV, RF = np.asarray(RV, dtype=np.float64), np.asarray(RF)
        if len(RF) != len(NF_) or not np.array_equal(RV[RF], T) or not np.array_equal(np.asarray(ridx), idx):
            _viol(run, ctx, "method_differs_from_function", "Trimesh.subdivide_to_size does not return the triangles remesh.subdivide_to_size returns",
                  feat, faces_method=int(len(NF_)), faces_function=int(len(RF)), vertices_method=int(len(NV)), vertices_function=int(len(RV)))


# ---------------------------------------------------------------------------- Loop


def loop_reference(V, F):
    """One Loop step with the documented masks; slow, dictionary based.  Returns (V', F')."""
    V = np.asarray(V, dtype=np.float64)
    F = np.asarray(F)
    edge_faces = {}
    for i, f in enumerate(F.tolist()):
        a, b, c = f
        for x, y, z in ((a, b, c), (b, c, a), (c, a, b)):
            k = (x, y) if x < y else (y, x)
            edge_faces.setdefault(k, []).append(z)  # opposite vertex
    nbr = {}
    bnbr = {}
    for (a, b), opp in edge_faces.items():
        nbr.setdefault(a, set()).add(b)
        nbr.setdefault(b, set()).add(a)
        if len(opp) == 1:
            bnbr.setdefault(a, []).append(b)
            bnbr.setdefault(b, []).append(a)
    even = V.copy()
    for v, ns in nbr.items():
        if v in bnbr:
            b = bnbr[v]
            if len(b) != 2:
                return None
            even[v] = 0.75 * V[v] + 0.125 * (V[b[0]] + V[b[1]])
        else:
            k = len(ns)
            beta = (1.0 / k) * (5.0 / 8.0 - (3.0 / 8.0 + 0.25 * math.cos(2 * math.pi / k)) ** 2)
            even[v] = (1 - k * beta) * V[v] + beta * V[sorted(ns)].sum(axis=0)
    odd_id = {}
    odd = []
    for (a, b), opp in edge_faces.items():
        if len(opp) == 1:
            p = 0.5 * (V[a] + V[b])
        elif len(opp) == 2:
            p = 0.375 * (V[a] + V[b]) + 0.125 * (V[opp[0]] + V[opp[1]])
        else:
            return None
        odd_id[(a, b)] = len(V) + len(odd)
        odd.append(p)
    NF_ = []
    for a, b, c in F.tolist():
        ab = odd_id[(a, b) if a < b else (b, a)]
        bc = odd_id[(b, c) if b < c else (c, b)]
        ca = odd_id[(c, a) if c < a else (a, c)]
        NF_ += [[a, ab, ca], [ab, b, bc], [ca, bc, c], [ab, bc, ca]]
    return np.vstack([even, np.array(odd).reshape(-1, 3)]), np.array(NF_, dtype=np.int64)


def has_chord(F):
    """An interior edge joining two boundary vertices exists (input class of open meshes)."""
    t = topo(F)
    bverts = set(v for e, c in t["edges"].items() if c == 1 for v in e)
    return any(c == 2 and e[0] in bverts and e[1] in bverts for e, c in t["edges"].items())


def op_subdivide_loop(run, ctx):
    from scipy.spatial import cKDTree
    from trimesh import remesh

    it = int(ctx.opts.get("iterations") or 1)
    route = ctx.opts.get("route", "function")
    t0 = topo(ctx.F)
    feat = {"chord": "yes" if (t0["boundary"] and has_chord(ctx.F)) else "no"}
    if ctx.unref:
        feat = {}  # (the key names the unreferenced vertex row)
    elif t0["boundary"] and pinched_boundary(ctx.F):
        # two open fans meet in a boundary vertex (a face subset was removed): the documented masks
        # do not say what happens there; topology and the affine laws are judged, the masks are not
        feat = {"boundary": "pinched"}
    shift = np.array(ctx.opts.get("shift", [16, -32, 8]), dtype=np.float64)

    def call(Vf):
        if route == "method":
            r = G.to_trimesh(Vf, ctx.F).subdivide_loop(iterations=it)
            return np.asarray(r.vertices), np.asarray(r.faces)
        if ctx.opts.get("iterations") is None:
            v, f = remesh.subdivide_loop(Vf.copy(), ctx.F.copy())
        else:
            v, f = remesh.subdivide_loop(Vf.copy(), ctx.F.copy(), iterations=it)
        return np.asarray(v), np.asarray(f)

    try:
        NV, NF_ = call(ctx.Vf)
        NVs, NFs = call(ctx.Vf + shift)
    except Exception as e:  # noqa
        _viol(run, ctx, "raised:" + type(e).__name__, "subdivide_loop raised on a manifold mesh", feat, error=repr(e)[:300])
        return
    run.state("loop_input", (ctx.mclass, tuple(feat.items()), ctx.unref, it))
    if len(NF_) != len(ctx.F) * 4**it:
        _viol(run, ctx, "face_count", "Loop subdivision did not produce 4^k faces per face", feat, got=int(len(NF_)))
        return
    t1 = topo(NF_)
    for name in ("watertight", "consistent", "euler"):
        if t0[name] != t1[name]:
            _viol(run, ctx, name + "_changed", "%s changed under Loop subdivision" % name, feat, before=t0[name], after=t1[name])
            return
    if t1["boundary"] != t0["boundary"] * 2**it or t1["nonmanifold"] or t1["degenerate"]:
        _viol(run, ctx, "boundary_changed", "boundary edge count not doubled per Loop iteration", feat)
        return
    if not np.isfinite(NV).all():
        _viol(run, ctx, "not_finite", "Loop subdivision produced non-finite vertices", feat)
        return
    # affine laws: weights of every mask are >= 0 and add up to one
    if NVs.shape != NV.shape or not np.array_equal(NFs, NF_) or np.abs(NVs - shift - NV).max() > 1e-9:
        _viol(run, ctx, "not_translation_covariant", "Loop subdivision of a translated mesh is not the translated result (mask weights do not sum to 1)",
              feat, max_dev=float(np.abs(NVs - shift - NV).max()) if NVs.shape == NV.shape else None)
        return
    lo, hi = ctx.Vf[np.unique(ctx.F)].min(axis=0), ctx.Vf[np.unique(ctx.F)].max(axis=0)
    used = np.unique(NF_)
    if (NV[used] < lo - 1e-9).any() or (NV[used] > hi + 1e-9).any():
        _viol(run, ctx, "leaves_bounding_box", "Loop subdivision moved a vertex outside the bounding box of the input", feat)
        return
    # documented masks
    RV, RF = ctx.Vf, ctx.F
    for _ in range(it):
        ref = loop_reference(RV, RF)
        if ref is None:
            run.skip("loop reference: input not a manifold with simple boundary")
            return
        RV, RF = ref
    tree = cKDTree(RV)
    d, j = tree.query(NV)
    if d[used].max() > 1e-9:
        _viol(run, ctx, "differs_from_loop_masks", "a vertex differs from the documented Loop masks", feat, max_dev=float(d[used].max()))
        return
    # faces as oriented triples of reference ids (coincident reference vertices would make this ambiguous: only when unique)
    if len(np.unique(np.round(RV, 7), axis=0)) == len(RV):
        if not np.array_equal(oriented_key(j[NF_]), oriented_key(RF)):
            _viol(run, ctx, "faces_differ_from_reference", "faces after Loop subdivision differ from the 1-to-4 split of the reference", feat)


OPS = {
    "fix_normals": op_fix_normals,
    "fill_holes": op_fill_holes,
    "subdivide": op_subdivide,
    "subdivide_to_size": op_subdivide_to_size,
    "subdivide_loop": op_subdivide_loop,
}


def execute(run, case, nontrivial=True, digest=None):
    ctx = Ctx(case)
    OPS[case["op"]](run, ctx)
    run.case(
        "%s:%s" % (case["op"], ctx.mclass),
        case["op"], sorted((k, repr(v)) for k, v in case["opts"].items()), ctx.V, ctx.F,
        nontrivial=nontrivial,
        sample=case if run.evaluations % 1499 == 0 else None,
    )


# ---------------------------------------------------------------------------- workload

ROUTES_FN = ("method", "function:multibody", "function:single", "process:validate", "constructor:validate")


def fix_normals_cases(run, tag, V, F, flips_iter, single_body):
    for i, flip in flips_iter:
        route = ROUTES_FN[i % 5]
        if route == "function:single" and not single_body:
            route = "method"
        execute(run, make_case("fix_normals", tag, V, F, flip=flip, route=route, cached=bool((i // 3) % 2)),
                nontrivial=len(flip) > 0)
        if i % 4 == 1 and len(flip) > 0:
            # small units: the sign of a body's volume does not depend on the unit, an absolute
            # threshold anywhere between 1e-8 and 1e-16 does (unit cube volumes 8e-12, 1e-15, 2.7e-17).
            # Not smaller: below an edge of ~1e-6 the cross product of a triangle falls under
            # tol.zero = 1e-13 and the library documents such faces as degenerate (zero normal)
            sc = (2e-4, 1e-5, 3e-6)[(i // 4) % 3]
            execute(run, make_case("fix_normals", tag, V, F, flip=flip, route=route, cached=bool((i // 3) % 2), scale=sc),
                    nontrivial=True)


def workload(run):
    rng = run.rng
    quick = run.tier == "quick"

    # (1) every re-winding subset of the small solids (enumerated, sharded)
    small = [("tetra",) + G.tetra(np.random.default_rng(5)), ("octahedron",) + G.octahedron(), ("box",) + G.box_int((2, 3, 4), (-1, -2, 1))]
    counter = 0
    enumerated = 0
    for tag, V, F in small:
        n = len(F)
        cut = False
        for mask in range(1 << n):
            counter += 1
            if not run.mine(counter):
                continue
            if run.out_of_time(0.45):
                cut = True
                break
            flip = [i for i in range(n) if mask >> i & 1]
            fix_normals_cases(run, tag, V, F, [(mask, flip)], True)
            enumerated += 1
        run.note("rewinding_subsets_enumerated_" + tag, "cut short by the budget" if cut else "all %d (this run's shards together)" % (1 << n))
    run.count("rewinding_subsets_enumerated", enumerated)

    # (1b) size-bounded subdivision down to bounds around / below tol.merge
    fine = 0
    for rep in range(6 if quick else 10):
        if run.out_of_time(0.6):
            break
        fc = fine_to_size_case(rng, rep)
        if fc is None:
            continue
        ftag, FV, FF, fsc, fbound = fc
        execute(run, make_case("subdivide_to_size", ftag, FV, FF, max_edge=fbound, max_iter=12,
                               route=("method", "method", "function")[rep % 3], scale=fsc))
        fine += 1
    run.count("to_size_bounds_near_tol_merge", fine)

    # (2) everything else on a stream of meshes
    fixed = [("frame_torus",) + G.frame_torus((2, 1, 3)), ("l_prism",) + G.l_prism(), ("octahedron",) + G.octahedron(),
             ("box",) + G.box_int((2, 3, 4)), ("tetra",) + G.tetra(np.random.default_rng(5)),
             ("touching_bodies",) + touching_bodies(np.random.default_rng(7))]
    k = 0
    while not run.out_of_time(0.92):
        if k < len(fixed):
            tag, V, F = fixed[k]
        else:
            tag, V, F = random_closed(rng)
        k += 1
        n = len(F)
        comps = bodies(F)
        single = len(comps) == 1
        # ---- fix_normals on structured and random subsets
        subsets = [list(range(n)), list(range(0, n, 2)), list(range(1, n, 2)), [int(rng.integers(n))],
                   [i for i in range(n) if i != int(rng.integers(n))]]
        for r in range(1, len(comps) + 1):
            for combo in itertools.islice(itertools.combinations(range(len(comps)), r), 4):
                subsets.append(sorted(i for c in combo for i in comps[c]))
        for p in (0.1, 0.3, 0.5, 0.8):
            for _ in range(2 if quick else 4):
                subsets.append([int(i) for i in np.nonzero(rng.random(n) < p)[0]])
        # one body fully flipped plus a few faces of another
        if len(comps) > 1:
            subsets.append(sorted(set(comps[0]) | {comps[1][0]}))
        fix_normals_cases(run, tag, V, F, list(enumerate(subsets, start=k)), single)
        if not single:
            # each body flipped as a whole with the normals already cached: the only route on which
            # fix_inversion patches cached normals instead of recomputing them (the setter only looks
            # at the first 20 faces, so the flipped body must also come late in the face array)
            for c in comps:
                for route in ("method", "function:multibody"):
                    execute(run, make_case("fix_normals", tag, V, F, flip=sorted(c), route=route, cached=True))
            # whole bodies inside out (winding consistent inside every body: the repair assigns no faces
            # before it looks at the bodies) after the caller READ a cached property of the re-wound mesh
            wb = [sorted(c) for c in comps] + [sorted(i for c in comps[1:] for i in c)]
            for wi, fl in enumerate(wb[: 4 if quick else 8]):
                for ri in range(len(WARM_READS)):
                    if (ri + wi + k) % (3 if quick and CLASS[tag] != "touching_bodies" else 1):
                        continue
                    route = ("method", "function:multibody", "process:validate")[(ri + wi) % 3]
                    execute(run, make_case("fix_normals", tag, V, F, flip=fl, route=route, cached=bool((ri + k) % 2),
                                           read_before=WARM_READS[ri]))
                execute(run, make_case("fix_normals", tag, V, F, flip=fl, route=("method", "process:validate")[wi % 2], cached=False,
                                       read_before="*"))
                execute(run, make_case("fix_normals", tag, V, F, flip=fl, route=("method", "function:multibody")[wi % 2], cached=bool(wi % 2),
                                       history=("reads_then_faces_assigned", "reads_then_faces_edited_in_place")[(wi + k) % 2]))
        # reads before the repair of partly re-wound meshes of every class
        for ri in range(3):
            name = WARM_READS[(k * 3 + ri) % len(WARM_READS)]
            fl = subsets[(k + ri) % len(subsets)]
            if fl:
                route = ROUTES_FN[(k + ri) % 4]
                if route == "function:single" and not single:
                    route = "method"
                execute(run, make_case("fix_normals", tag, V, F, flip=fl, route=route, cached=bool(ri % 2), read_before=name))
        fl = subsets[(k + 3) % len(subsets)]
        if fl:
            execute(run, make_case("fix_normals", tag, V, F, flip=fl, route=("method", "function:multibody", "process:validate")[k % 3], cached=bool(k % 2),
                                   history=("reads_then_faces_assigned", "reads_then_faces_edited_in_place")[k % 2]))
        # ---- fill_holes
        if n >= 8:
            plans = []
            for rep in range(4 if quick else 10):
                # (the face-ring pattern is a known failing class: visited, but not a quarter of the time)
                mode = rep % 4 if (rep % 4 != 3 or k % 3 == 0) else 0
                if mode == 0:
                    g = hole_plan(rng, V, F, int(rng.integers(1, 4)), 0)
                elif mode == 1:
                    g = hole_plan(rng, V, F, 0, int(rng.integers(1, 3)))
                elif mode == 2:
                    g = hole_plan(rng, V, F, int(rng.integers(1, 3)), 1)
                else:
                    g = hole_plan(rng, V, F, int(rng.integers(0, 2)), 0, around_face=True)
                if g:
                    plans.append(g)
            g = diag_taken_plan(rng, F)
            if g and single:
                plans.append(g)
            for gi, g in enumerate(plans):
                execute(run, make_case("fill_holes", tag, V, F, groups=g, cached=bool(gi % 2), route=("method", "function")[gi % 3 == 2]))
                if gi % 2 == 0:
                    execute(run, make_case("fill_holes", tag, V, F, groups=g, cached=bool(gi % 4), route="method", arrival="inverted_warm"))
                fill_holes_in_units(run, tag, V, F, g, gi + k)
        elif n >= 4 and single:
            # solids with few faces: EVERY triangle hole and EVERY quad hole (two faces may be all that is left)
            for gi, g in enumerate(small_hole_plans(F)):
                execute(run, make_case("fill_holes", tag, V, F, groups=g, cached=bool(gi % 2), route=("method", "function")[gi % 3 == 2]))
                if gi % 3 == 0:
                    fill_holes_in_units(run, tag, V, F, g, gi + k)
        # ---- subdivide, all faces and subsets
        if n <= 120:
            execute(run, make_case("subdivide", tag, V, F, subset=None, route="function"))
            execute(run, make_case("subdivide", tag, V, F, subset=None, route="method"))
            for rep in range(3 if quick else 6):
                kk = int(rng.integers(1, n))
                sub = [int(i) for i in rng.choice(n, size=kk, replace=False)]
                form = ("array", "list", "mask")[rep % 3]
                execute(run, make_case("subdivide", tag, V, F, subset=sub, form=form, route=("function", "method")[rep % 2]))
        # ---- subdivide_to_size
        if n <= 64:
            E = np.linalg.norm(V[F][:, [0, 1, 2]].astype(float) - V[F][:, [1, 2, 0]].astype(float), axis=2)
            L = float(E.max())
            # 0.93 / 0.78: just below the longest edge - above the largest bounding-box extent of
            # meshes whose longest edge is a face or body diagonal (an "already small enough" test
            # on extents would wrongly skip them)
            for rep, (frac, cap) in enumerate([(1.7, 10), (0.93, 10), (0.61, 10), (0.78, 10), (0.37, 10), (0.23, 3), (0.23, 1), (0.55, 0)][: (5 if quick else 8)]):
                execute(run, make_case("subdivide_to_size", tag, V, F, max_edge=L * frac + 0.001 * rep, max_iter=cap,
                                       route=("function", "method")[rep % 2]))
                if (rep + k) % 3 == 0 and frac < 1:
                    # the same mesh and the same relative bound in small units
                    sc = (1e-3, 1e-5, 3e-6)[(rep + k // 3) % 3]
                    execute(run, make_case("subdivide_to_size", tag, V, F, max_edge=(L * frac + 0.001 * rep) * sc, max_iter=cap,
                                           route=("method", "function")[(rep + k) % 2], scale=sc))
        # ---- Loop
        if n <= 64 and CLASS[tag] != "overlapping" or n <= 24:
            execute(run, make_case("subdivide_loop", tag, V, F, iterations=1, route="function"))
            if k % 2:
                execute(run, make_case("subdivide_loop", tag, V, F, iterations=2, route="method"))
            if k % 3 == 0:
                execute(run, make_case("subdivide_loop", tag, V, F, iterations=None, route="function"))
        # ---- the mesh after a face subset was removed (pinched boundary vertices), every other round
        if k % 2 == 1 and n >= 8:
            for rep in range(2):
                pm = punctured(rng, V, F, pinch=bool(rep))
                if pm is None or len(pm[1]) > 150:
                    continue
                PV, PF = pm
                execute(run, make_case("subdivide_loop", "punctured", PV, PF, iterations=1 + (k // 2) % 2, route=("function", "method")[(k // 2 + rep) % 2]))
                execute(run, make_case("subdivide", "punctured", PV, PF, subset=None, route=("function", "method")[rep]))
        # ---- a vertex row no face uses (what update_faces leaves behind), every third round
        if k % 3 == 1 and n <= 64:
            UV, UF = with_unreferenced(rng, V, F)
            utag = tag + "+unref"
            execute(run, make_case("subdivide_loop", utag, UV, UF, iterations=1, route=("function", "method")[k % 2]))
            execute(run, make_case("subdivide", utag, UV, UF, subset=None, route=("function", "method")[k % 2]))
            execute(run, make_case("subdivide", utag, UV, UF, subset=[int(i) for i in rng.choice(n, size=max(1, n // 3), replace=False)],
                                   form="array", route="function"))
            UL = float(np.linalg.norm(UV[UF][:, [0, 1, 2]].astype(float) - UV[UF][:, [1, 2, 0]].astype(float), axis=2).max())
            execute(run, make_case("subdivide_to_size", utag, UV, UF, max_edge=UL * 0.43, max_iter=10, route=("function", "method")[k % 2]))
            uflip = [int(i) for i in np.nonzero(rng.random(n) < 0.4)[0]] or [0]
            execute(run, make_case("fix_normals", utag, UV, UF, flip=uflip, route=("method", "function:multibody", "process:validate")[k % 3 if k % 3 < 2 else 0],
                                   cached=bool(k % 2)))
            if n >= 8:
                g = hole_plan(rng, UV, UF, 1, int(rng.integers(0, 2)))
                if g and hole_features(UV, UF, g).get("boundary_graph") != "extra_cycles":
                    execute(run, make_case("fill_holes", utag, UV, UF, groups=g, cached=False))
        # ---- open meshes every other round
        if k % 2 == 0:
            if k % 4 == 0:
                otag, (OV, OF) = "open_grid", lifted_grid(rng, int(rng.integers(1, 5)), int(rng.integers(1, 5)))
            else:
                otag, (OV, OF) = "disc", disc(int(rng.integers(5, 9)))
            execute(run, make_case("subdivide", otag, OV, OF, subset=None, route="function"))
            execute(run, make_case("subdivide", otag, OV, OF, subset=None, route="method"))
            execute(run, make_case("subdivide_loop", otag, OV, OF, iterations=1 + k % 8 // 4, route=("function", "method")[k % 3 == 0]))
            if len(OF) >= 8:
                g = hole_plan(rng, OV, OF, int(rng.integers(1, 3)), int(rng.integers(0, 2)))
                if g:
                    execute(run, make_case("fill_holes", otag, OV, OF, groups=g, cached=False))
            EL = np.linalg.norm(OV[OF][:, [0, 1, 2]].astype(float) - OV[OF][:, [1, 2, 0]].astype(float), axis=2).max()
            execute(run, make_case("subdivide_to_size", otag, OV, OF, max_edge=float(EL) * 0.41, max_iter=10, route="method"))


def fine_to_size_case(rng, rep, max_faces=140000):
    """
    A small mesh, a unit and a bound such that the bound lies between 0.4e-8 and 1.3e-8 (around /
    below tol.merge: the vertices of the result are closer than the welding distance) while every
    input triangle's cross product is >= 1e-12 (10 x above tol.zero, the documented resolution).
    Returns (tag, V, F, scale, bound) or None.
    """
    for _ in range(40):
        r = (rep + int(rng.integers(2))) % 4
        if r == 0:
            V = np.array([[1, 0, 0], [0, 1, 0], [0, 0, 1]], dtype=np.int64) * int(rng.integers(1, 3)) + rng.integers(-2, 3, size=3)
            F = np.array([[0, 1, 2]], dtype=np.int64)
            tag = "single_triangle"
        elif r == 1:
            a, b = int(rng.integers(1, 4)), int(rng.integers(1, 4))
            V = np.array([[0, 0, 0], [a, 0, 0], [0, b, 0]], dtype=np.int64)[:, rng.permutation(3)] + rng.integers(-2, 3, size=3)
            F = np.array([[0, 1, 2]], dtype=np.int64)
            tag = "single_triangle"
        elif r == 2:
            V, F = lifted_grid(rng, 1, 1)
            tag = "open_grid"
        else:
            V, F = G.tetra(rng, -2, 2)
            tag = "tetra"
        V = V.astype(np.int64)
        cr = np.linalg.norm(np.cross(V[F[:, 1]] - V[F[:, 0]], V[F[:, 2]] - V[F[:, 0]]).astype(float), axis=1)
        if cr.min() <= 0:
            continue
        sc = math.sqrt(float(rng.uniform(1.0e-12, 2.5e-12)) / float(cr.min()))
        Vf = V.astype(np.float64) * sc
        el = np.linalg.norm(Vf[F[:, [0, 1, 2]]] - Vf[F[:, [1, 2, 0]]], axis=2)
        longest = el.max(axis=1)
        u = float(rng.uniform(1.05, 1.6))
        n = int(math.ceil(math.log2(float(longest.max()) * u / 1.3e-8)))
        bound = float(longest.max()) / 2**n * u
        if rng.integers(2):
            bound /= 2.0
        for b in (bound, bound * 2.0):
            nf = int((4.0 ** np.ceil(np.log2(np.maximum(longest / b, 1.0)))).sum())
            if nf <= max_faces and 0.4e-8 <= b <= 1.3e-8:
                return tag, V, F, sc, b
    return None


def diag_taken_plan(rng, F):
    """One quad hole (adjacent pair) whose other diagonal is an edge of what is left, or None."""
    und = topo(F)["edges"]
    first = {}
    pairs = []
    for i, f in enumerate(F.tolist()):
        a, b, c = f
        for x, y in ((a, b), (b, c), (c, a)):
            k = (x, y) if x < y else (y, x)
            if k in first:
                j = first[k]
                other = tuple(sorted((set(f) | set(F[j].tolist())) - set(k)))
                if len(other) == 2 and und.get(other, 0) == 2 and und[k] == 2:
                    pairs.append([j, i])
            else:
                first[k] = i
    if not pairs or len(F) < 8:
        return None
    return [pairs[int(rng.integers(len(pairs)))]]


def small_hole_plans(F):
    """Every triangle hole and every quad hole (adjacent pair) of a small solid, one plan each."""
    plans = [[[i]] for i in range(len(F))]
    for i in range(len(F)):
        for j in range(i + 1, len(F)):
            if len(set(F[i].tolist()) & set(F[j].tolist())) == 2:
                plans.append([[i, j]])
    return [g for g in plans if len(F) - len(g[0]) >= 2]


def fill_holes_in_units(run, tag, V, F, g, gi):
    """The hole plan `g` again with the mesh given in small units."""
    feat = hole_features(V, F, g)
    if feat.get("boundary_graph") == "extra_cycles" or len(F) - sum(len(x) for x in g) < 3:
        return  # (fail in any unit: finding 1, round-4 defect 8)
    # (lead's ruling: units in which the cross products of the triangles fall below tol.zero - 1e-7
    # for these integer meshes - are the library's documented resolution, as in C01 / the other
    # operations of this monitor: the smallest unit used is 3e-6)
    scales = [(1e-5, 1e-3, 1e-5, 3e-6)[gi % 4]]
    if gi % 4 != 3 and feat.get("other_diagonal") != "taken":
        scales.append(3e-6)
    for sc in dict.fromkeys(scales):
        execute(run, make_case("fill_holes", tag, V, F, groups=g, cached=bool(gi % 2), route=("method", "function")[gi % 3 == 1], scale=sc))


def replay(run, case):
    case = {k: v for k, v in case.items() if k != "observed"}
    execute(run, case)
